#!/root/miniconda/bin/python
"""Mint client certificates with unusual (but CA-signed, single) Modbus role extensions:
client_nulrole: role "operator\\0x" (a NUL inside the UTF8String), client_emptyrole: role "".
Run once with an interpreter that has `cryptography`; the outputs are committed."""
import datetime, os
from cryptography import x509
from cryptography.hazmat.primitives import hashes, serialization
from cryptography.hazmat.primitives.asymmetric import ec
from cryptography.x509.oid import NameOID, ExtendedKeyUsageOID

HERE = os.path.dirname(os.path.abspath(__file__))
ROLE = x509.ObjectIdentifier("1.3.6.1.4.1.50316.802.1")
ca = x509.load_pem_x509_certificate(open(os.path.join(HERE, "ca1.cert.pem"), "rb").read())
cak = serialization.load_pem_private_key(open(os.path.join(HERE, "ca1.key.pem"), "rb").read(), None)

def mint(name, cn, role: bytes):
    key = ec.generate_private_key(ec.SECP256R1())
    subject = x509.Name([x509.NameAttribute(NameOID.ORGANIZATION_NAME, "Verif"), x509.NameAttribute(NameOID.ORGANIZATIONAL_UNIT_NAME, name), x509.NameAttribute(NameOID.COMMON_NAME, cn)])
    cert = (x509.CertificateBuilder().subject_name(subject).issuer_name(ca.subject).public_key(key.public_key())
            .serial_number(x509.random_serial_number())
            .not_valid_before(datetime.datetime(2020, 1, 1)).not_valid_after(datetime.datetime(2120, 1, 1))
            .add_extension(x509.BasicConstraints(ca=False, path_length=None), critical=True)
            .add_extension(x509.KeyUsage(True, False, False, False, True, False, False, False, False), critical=True)
            .add_extension(x509.ExtendedKeyUsage([ExtendedKeyUsageOID.CLIENT_AUTH]), critical=False)
            .add_extension(x509.SubjectAlternativeName([x509.DNSName(cn)]), critical=False)
            .add_extension(x509.UnrecognizedExtension(ROLE, bytes([0x0C, len(role)]) + role), critical=False)
            .sign(cak, hashes.SHA256()))
    with open(os.path.join(HERE, f"{name}.cert.pem"), "wb") as f:
        f.write(cert.public_bytes(serialization.Encoding.PEM))
    with open(os.path.join(HERE, f"{name}.key.pem"), "wb") as f:
        f.write(key.private_bytes(serialization.Encoding.PEM, serialization.PrivateFormat.PKCS8, serialization.NoEncryption()))
    print("minted", name, role)

mint("client_nulrole", "client.nulrole", b"operator\x00x")
mint("client_emptyrole", "client.emptyrole", b"")
