#!/root/miniconda/bin/python
"""mint_short.py <out-prefix> <seconds> <client|server>
Mint, at run time, a certificate signed by ca1 that expires <seconds> from now (role "operator" for a
client, name test.server for a server). Prints the expiry as a unix time. Used by the C09 resumption leg."""
import sys, os, datetime, warnings
warnings.filterwarnings("ignore")
from cryptography import x509
from cryptography.x509.oid import NameOID, ExtendedKeyUsageOID
from cryptography.hazmat.primitives import hashes, serialization
from cryptography.hazmat.primitives.asymmetric import ec
HERE = os.path.dirname(os.path.abspath(__file__))
out, secs, kind = sys.argv[1], int(sys.argv[2]), sys.argv[3]
cak = serialization.load_pem_private_key(open(os.path.join(HERE, "ca1.key.pem"), "rb").read(), None)
ca = x509.load_pem_x509_certificate(open(os.path.join(HERE, "ca1.cert.pem"), "rb").read())
k = ec.generate_private_key(ec.SECP256R1())
now = datetime.datetime.utcnow()
cn = "test.server" if kind == "server" else "client.short"
b = (x509.CertificateBuilder()
     .subject_name(x509.Name([x509.NameAttribute(NameOID.ORGANIZATION_NAME, "Verif"), x509.NameAttribute(NameOID.COMMON_NAME, cn)]))
     .issuer_name(ca.subject).public_key(k.public_key()).serial_number(x509.random_serial_number())
     .not_valid_before(now - datetime.timedelta(days=1)).not_valid_after(now + datetime.timedelta(seconds=secs))
     .add_extension(x509.BasicConstraints(ca=False, path_length=None), critical=True)
     .add_extension(x509.KeyUsage(True, False, False, False, True, False, False, False, False), critical=True)
     .add_extension(x509.ExtendedKeyUsage([ExtendedKeyUsageOID.SERVER_AUTH if kind == "server" else ExtendedKeyUsageOID.CLIENT_AUTH]), critical=False)
     .add_extension(x509.SubjectAlternativeName([x509.DNSName(cn)]), critical=False))
if kind != "server":
    role = b"operator"
    b = b.add_extension(x509.UnrecognizedExtension(x509.ObjectIdentifier("1.3.6.1.4.1.50316.802.1"), bytes([0x0C, len(role)]) + role), critical=False)
c = b.sign(cak, hashes.SHA256())
open(out + ".cert.pem", "wb").write(c.public_bytes(serialization.Encoding.PEM))
open(out + ".key.pem", "wb").write(k.private_bytes(serialization.Encoding.PEM, serialization.PrivateFormat.PKCS8, serialization.NoEncryption()))
print(int((now + datetime.timedelta(seconds=secs)).replace(tzinfo=datetime.timezone.utc).timestamp()))
