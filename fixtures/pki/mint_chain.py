#!/root/miniconda/bin/python
"""Mint an intermediate authority under ca1 that itself carries a Modbus role extension ("operator"),
and two client certificates issued by it; each client .cert.pem holds leaf + intermediate (the chain
the client presents). client_chain_norole: leaf without a role; client_chain_viewer: leaf with role
"viewer". Run once with an interpreter that has `cryptography`; the outputs are committed."""
import datetime, os
from cryptography import x509
from cryptography.hazmat.primitives import hashes, serialization
from cryptography.hazmat.primitives.asymmetric import ec
from cryptography.x509.oid import NameOID, ExtendedKeyUsageOID

HERE = os.path.dirname(os.path.abspath(__file__))
ROLE = x509.ObjectIdentifier("1.3.6.1.4.1.50316.802.1")
ca = x509.load_pem_x509_certificate(open(os.path.join(HERE, "ca1.cert.pem"), "rb").read())
cak = serialization.load_pem_private_key(open(os.path.join(HERE, "ca1.key.pem"), "rb").read(), None)
T0, T1 = datetime.datetime(2020, 1, 1), datetime.datetime(2120, 1, 1)

def role_ext(role):
    b = role.encode()
    return x509.UnrecognizedExtension(ROLE, bytes([0x0C, len(b)]) + b)

ik = ec.generate_private_key(ec.SECP256R1())
iname = x509.Name([x509.NameAttribute(NameOID.ORGANIZATION_NAME, "Verif"), x509.NameAttribute(NameOID.COMMON_NAME, "intermediate with a role")])
inter = (x509.CertificateBuilder().subject_name(iname).issuer_name(ca.subject).public_key(ik.public_key())
         .serial_number(x509.random_serial_number()).not_valid_before(T0).not_valid_after(T1)
         .add_extension(x509.BasicConstraints(ca=True, path_length=0), critical=True)
         .add_extension(x509.KeyUsage(True, False, False, False, False, True, True, False, False), critical=True)
         .add_extension(role_ext("operator"), critical=False)
         .sign(cak, hashes.SHA256()))
open(os.path.join(HERE, "inter_role.cert.pem"), "wb").write(inter.public_bytes(serialization.Encoding.PEM))

def leaf(name, cn, role):
    k = ec.generate_private_key(ec.SECP256R1())
    subject = x509.Name([x509.NameAttribute(NameOID.ORGANIZATION_NAME, "Verif"), x509.NameAttribute(NameOID.ORGANIZATIONAL_UNIT_NAME, name), x509.NameAttribute(NameOID.COMMON_NAME, cn)])
    b = (x509.CertificateBuilder().subject_name(subject).issuer_name(inter.subject).public_key(k.public_key())
         .serial_number(x509.random_serial_number()).not_valid_before(T0).not_valid_after(T1)
         .add_extension(x509.BasicConstraints(ca=False, path_length=None), critical=True)
         .add_extension(x509.KeyUsage(True, False, False, False, True, False, False, False, False), critical=True)
         .add_extension(x509.ExtendedKeyUsage([ExtendedKeyUsageOID.CLIENT_AUTH]), critical=False)
         .add_extension(x509.SubjectAlternativeName([x509.DNSName(cn)]), critical=False))
    if role is not None:
        b = b.add_extension(role_ext(role), critical=False)
    c = b.sign(ik, hashes.SHA256())
    with open(os.path.join(HERE, f"{name}.cert.pem"), "wb") as f:
        f.write(c.public_bytes(serialization.Encoding.PEM)); f.write(inter.public_bytes(serialization.Encoding.PEM))
    with open(os.path.join(HERE, f"{name}.key.pem"), "wb") as f:
        f.write(k.private_bytes(serialization.Encoding.PEM, serialization.PrivateFormat.PKCS8, serialization.NoEncryption()))
    print("minted", name, role)

leaf("client_chain_norole", "client.chain.norole", None)
leaf("client_chain_viewer", "client.chain.viewer", "viewer")
