#!/usr/bin/env bash
# Mint the test PKI used by C09 / C16 / C08(TLS). Run once; the outputs are committed.
# Distinct subject DNs everywhere (the repository's own sample chain reuses one DN for CA and leaf,
# which OpenSSL-based peers treat as self-signed).
set -eu
OPENSSL="${OPENSSL:-/root/miniconda/bin/openssl}"
cd "$(dirname "$0")"
rm -f *.pem *.srl *.csr *.cnf
OID=1.3.6.1.4.1.50316.802.1
VALID_FROM=20200101000000Z; VALID_TO=21200101000000Z
PAST_FROM=20100101000000Z;  PAST_TO=20110101000000Z
FUT_FROM=21000101000000Z;   FUT_TO=21100101000000Z

key() { "$OPENSSL" genpkey -algorithm EC -pkeyopt ec_paramgen_curve:P-256 -out "$1" 2>/dev/null; }

ca() { # name CN
  key "$1.key.pem"
  cat > "$1.cnf" <<EOC
[req]
distinguished_name=dn
prompt=no
x509_extensions=v3
[dn]
O=Verif
CN=$2
[v3]
basicConstraints=critical,CA:TRUE
keyUsage=critical,keyCertSign,cRLSign
subjectKeyIdentifier=hash
EOC
  "$OPENSSL" req -new -x509 -key "$1.key.pem" -config "$1.cnf" -not_before $VALID_FROM -not_after $VALID_TO -out "$1.cert.pem"
}

leaf() { # name CN ca from to eku [role] [san]
  local name=$1 cn=$2 ca=$3 from=$4 to=$5 eku=$6 role=${7:-} san=${8:-}
  key "$name.key.pem"
  {
    echo "[req]"; echo "distinguished_name=dn"; echo "prompt=no"
    echo "[dn]"; echo "O=Verif"; echo "OU=$name"; echo "CN=$cn"
    echo "[v3]"
    echo "basicConstraints=critical,CA:FALSE"
    echo "keyUsage=critical,digitalSignature,keyAgreement"
    echo "extendedKeyUsage=$eku"
    [ -n "$san" ] && echo "subjectAltName=$san"
    [ -n "$role" ] && echo "$OID=ASN1:UTF8String:$role"
  } > "$name.cnf"
  "$OPENSSL" req -new -key "$name.key.pem" -config "$name.cnf" -out "$name.csr"
  "$OPENSSL" x509 -req -in "$name.csr" -CA "$ca.cert.pem" -CAkey "$ca.key.pem" -CAcreateserial \
     -extfile "$name.cnf" -extensions v3 -not_before $from -not_after $to -out "$name.cert.pem" 2>/dev/null
}

selfsigned() { # name CN from to [role]
  local name=$1 cn=$2 from=$3 to=$4 role=${5:-}
  key "$name.key.pem"
  {
    echo "[req]"; echo "distinguished_name=dn"; echo "prompt=no"; echo "x509_extensions=v3"
    echo "[dn]"; echo "O=Verif"; echo "OU=$name"; echo "CN=$cn"
    echo "[v3]"
    echo "basicConstraints=critical,CA:FALSE"
    echo "keyUsage=critical,digitalSignature,keyAgreement"
    echo "extendedKeyUsage=serverAuth,clientAuth"
    echo "subjectAltName=DNS:$cn"
    [ -n "$role" ] && echo "$OID=ASN1:UTF8String:$role"
  } > "$name.cnf"
  "$OPENSSL" req -new -x509 -key "$name.key.pem" -config "$name.cnf" -not_before $from -not_after $to -out "$name.cert.pem"
}

ca ca1 "Verif Root CA 1"
ca ca2 "Verif Root CA 2"

# servers (authority mode)
leaf server_valid        test.server  ca1 $VALID_FROM $VALID_TO serverAuth "" "DNS:test.server"
leaf server_wrong_ca     test.server  ca2 $VALID_FROM $VALID_TO serverAuth "" "DNS:test.server"
leaf server_wrong_name   other.server ca1 $VALID_FROM $VALID_TO serverAuth "" "DNS:other.server"
leaf server_expired      test.server  ca1 $PAST_FROM  $PAST_TO  serverAuth "" "DNS:test.server"
leaf server_not_yet      test.server  ca1 $FUT_FROM   $FUT_TO   serverAuth "" "DNS:test.server"

# clients (authority mode)
leaf client_operator     client.operator ca1 $VALID_FROM $VALID_TO clientAuth operator "DNS:client.operator"
leaf client_viewer       client.viewer   ca1 $VALID_FROM $VALID_TO clientAuth viewer   "DNS:client.viewer"
leaf client_norole       client.norole   ca1 $VALID_FROM $VALID_TO clientAuth ""       "DNS:client.norole"
leaf client_wrong_ca     client.operator ca2 $VALID_FROM $VALID_TO clientAuth operator "DNS:client.operator"
leaf client_expired      client.operator ca1 $PAST_FROM  $PAST_TO  clientAuth operator "DNS:client.operator"
leaf client_not_yet      client.operator ca1 $FUT_FROM   $FUT_TO   clientAuth operator "DNS:client.operator"

# self-signed mode
selfsigned ss_server        ss.server  $VALID_FROM $VALID_TO
selfsigned ss_server_other  ss.server  $VALID_FROM $VALID_TO
selfsigned ss_server_expired ss.server $PAST_FROM  $PAST_TO
selfsigned ss_server_not_yet ss.server $FUT_FROM   $FUT_TO
selfsigned ss_client        ss.client  $VALID_FROM $VALID_TO operator
selfsigned ss_client_viewer ss.client  $VALID_FROM $VALID_TO viewer
selfsigned ss_client_norole ss.client  $VALID_FROM $VALID_TO
selfsigned ss_client_other  ss.client  $VALID_FROM $VALID_TO operator
selfsigned ss_client_expired ss.client $PAST_FROM  $PAST_TO  operator
selfsigned ss_client_not_yet ss.client $FUT_FROM   $FUT_TO   operator

rm -f *.csr *.srl *.cnf
ls -1 *.pem | wc -l
