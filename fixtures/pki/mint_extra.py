#!/root/miniconda/bin/python
"""Mint client certificates carrying TWO Modbus role extensions (OpenSSL and the `cryptography`
builder both refuse duplicate extension OIDs). Run once with an interpreter that has `cryptography`
(here: /root/miniconda/bin/python); the outputs are committed.

Method: build the certificate with the second role under a placeholder OID of the same encoded
length (…802.2), take its TBSCertificate, overwrite the placeholder by the role OID (…802.1; same
length, so no DER length changes), sign the new TBS with the issuer key and re-assemble."""
import datetime, os, sys
from cryptography import x509
from cryptography.hazmat.primitives import hashes, serialization
from cryptography.hazmat.primitives.asymmetric import ec
from cryptography.x509.oid import NameOID, ExtendedKeyUsageOID

HERE = os.path.dirname(os.path.abspath(__file__))
ROLE = x509.ObjectIdentifier("1.3.6.1.4.1.50316.802.1")
PLACE = x509.ObjectIdentifier("1.3.6.1.4.1.50316.802.2")

def utf8(s):
    b = s.encode()
    assert len(b) < 128
    return bytes([0x0C, len(b)]) + b

def der_len(n):
    if n < 128:
        return bytes([n])
    b = n.to_bytes((n.bit_length() + 7) // 8, "big")
    return bytes([0x80 | len(b)]) + b

def _enc_oid(dotted):
    arcs = [int(x) for x in dotted.split(".")]
    body = bytes([arcs[0] * 40 + arcs[1]])
    for a in arcs[2:]:
        chunk = [a & 0x7F]
        a >>= 7
        while a:
            chunk.append(0x80 | (a & 0x7F))
            a >>= 7
        body += bytes(reversed(chunk))
    return bytes([0x06, len(body)]) + body

def mint(name, cn, roles, issuer_cert, issuer_key, self_signed=False):
    key = ec.generate_private_key(ec.SECP256R1())
    subject = x509.Name([x509.NameAttribute(NameOID.ORGANIZATION_NAME, "Verif"), x509.NameAttribute(NameOID.ORGANIZATIONAL_UNIT_NAME, name), x509.NameAttribute(NameOID.COMMON_NAME, cn)])
    issuer = subject if self_signed else issuer_cert.subject
    sign_key = key if self_signed else issuer_key
    b = (x509.CertificateBuilder().subject_name(subject).issuer_name(issuer).public_key(key.public_key())
         .serial_number(x509.random_serial_number())
         .not_valid_before(datetime.datetime(2020, 1, 1)).not_valid_after(datetime.datetime(2120, 1, 1))
         .add_extension(x509.BasicConstraints(ca=False, path_length=None), critical=True)
         .add_extension(x509.KeyUsage(True, False, False, False, True, False, False, False, False), critical=True)
         .add_extension(x509.ExtendedKeyUsage([ExtendedKeyUsageOID.CLIENT_AUTH] + ([ExtendedKeyUsageOID.SERVER_AUTH] if self_signed else [])), critical=False)
         .add_extension(x509.SubjectAlternativeName([x509.DNSName(cn)]), critical=False)
         .add_extension(x509.UnrecognizedExtension(ROLE, utf8(roles[0])), critical=False)
         .add_extension(x509.UnrecognizedExtension(PLACE, utf8(roles[1])), critical=False))
    cert = b.sign(sign_key, hashes.SHA256())
    der = cert.public_bytes(serialization.Encoding.DER)
    tbs = cert.tbs_certificate_bytes
    a, c = _enc_oid(PLACE.dotted_string), _enc_oid(ROLE.dotted_string)
    assert len(a) == len(c) and tbs.count(a) == 1
    tbs2 = tbs.replace(a, c)
    assert tbs2.count(c) == 2
    sig = sign_key.sign(tbs2, ec.ECDSA(hashes.SHA256()))
    # outer SEQUENCE { tbs, sigAlg, BIT STRING }: sigAlg copied from the builder's certificate
    off = der.index(tbs) + len(tbs)
    alg_len = 2 + der[off + 1]
    sigalg = der[off:off + alg_len]
    body = tbs2 + sigalg + bytes([0x03]) + der_len(len(sig) + 1) + b"\x00" + sig
    out = bytes([0x30]) + der_len(len(body)) + body
    parsed = x509.load_der_x509_certificate(out)  # must still parse
    assert out.count(c) == 2
    if self_signed:
        parsed.public_key().verify(parsed.signature, parsed.tbs_certificate_bytes, ec.ECDSA(hashes.SHA256()))
    else:
        issuer_cert.public_key().verify(parsed.signature, parsed.tbs_certificate_bytes, ec.ECDSA(hashes.SHA256()))
    with open(os.path.join(HERE, f"{name}.cert.pem"), "wb") as f:
        f.write(b"-----BEGIN CERTIFICATE-----\n")
        import base64
        b64 = base64.encodebytes(out).replace(b"\n", b"")
        for i in range(0, len(b64), 64):
            f.write(b64[i:i + 64] + b"\n")
        f.write(b"-----END CERTIFICATE-----\n")
    with open(os.path.join(HERE, f"{name}.key.pem"), "wb") as f:
        f.write(key.private_bytes(serialization.Encoding.PEM, serialization.PrivateFormat.PKCS8, serialization.NoEncryption()))
    print("minted", name, roles)

ca = x509.load_pem_x509_certificate(open(os.path.join(HERE, "ca1.cert.pem"), "rb").read())
cak = serialization.load_pem_private_key(open(os.path.join(HERE, "ca1.key.pem"), "rb").read(), None)
mint("client_tworoles", "client.tworoles", ["operator", "viewer"], ca, cak)
mint("client_tworoles_same", "client.tworoles2", ["operator", "operator"], ca, cak)
mint("ss_client_tworoles", "ss.client", ["operator", "viewer"], None, None, self_signed=True)

def mint_server_ip_san(name, ip):
    """server certificate whose only subjectAltName is an IP address (C09: IP-literal expected names)"""
    import ipaddress
    key = ec.generate_private_key(ec.SECP256R1())
    subject = x509.Name([x509.NameAttribute(NameOID.ORGANIZATION_NAME, "Verif"), x509.NameAttribute(NameOID.ORGANIZATIONAL_UNIT_NAME, name), x509.NameAttribute(NameOID.COMMON_NAME, "ip.server")])
    cert = (x509.CertificateBuilder().subject_name(subject).issuer_name(ca.subject).public_key(key.public_key())
            .serial_number(x509.random_serial_number())
            .not_valid_before(datetime.datetime(2020, 1, 1)).not_valid_after(datetime.datetime(2120, 1, 1))
            .add_extension(x509.BasicConstraints(ca=False, path_length=None), critical=True)
            .add_extension(x509.KeyUsage(True, False, False, False, True, False, False, False, False), critical=True)
            .add_extension(x509.ExtendedKeyUsage([ExtendedKeyUsageOID.SERVER_AUTH]), critical=False)
            .add_extension(x509.SubjectAlternativeName([x509.IPAddress(ipaddress.ip_address(ip))]), critical=False)
            .sign(cak, hashes.SHA256()))
    with open(os.path.join(HERE, f"{name}.cert.pem"), "wb") as f:
        f.write(cert.public_bytes(serialization.Encoding.PEM))
    with open(os.path.join(HERE, f"{name}.key.pem"), "wb") as f:
        f.write(key.private_bytes(serialization.Encoding.PEM, serialization.PrivateFormat.PKCS8, serialization.NoEncryption()))
    print("minted", name, ip)

mint_server_ip_san("server_ip_127_0_0_1", "127.0.0.1")
mint_server_ip_san("server_ip_10_9_8_7", "10.9.8.7")
