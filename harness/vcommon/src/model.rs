//! Executable reference models written from the Modbus specifications and the property
//! statements (NOT from rodbus code): CRC, MBAP/RTU framing, request parsing, a reference
//! server over an instrumented point store, request encoding and response decoding.

use crate::rng::hash4;
use std::collections::BTreeMap;

// ---------------------------------------------------------------------------------------------
// CRC-16/MODBUS, bitwise (poly 0xA001 reflected, init 0xFFFF)
// ---------------------------------------------------------------------------------------------

pub fn crc16(data: &[u8]) -> u16 {
    let mut crc: u16 = 0xFFFF;
    for b in data {
        crc ^= *b as u16;
        for _ in 0..8 {
            if crc & 1 != 0 {
                crc = (crc >> 1) ^ 0xA001;
            } else {
                crc >>= 1;
            }
        }
    }
    crc
}

/// self-check against published vectors (Modbus serial line spec examples and the vectors
/// that also appear in the repository's own unit tests)
pub fn crc_self_check() -> bool {
    // 0x2A 01 00 10 00 13 -> crc bytes 7A 19 (low first)
    let a = crc16(&[0x2A, 0x01, 0x00, 0x10, 0x00, 0x13]) == 0x197A;
    // 01 03 00 00 00 0A -> C5 CD
    let b = crc16(&[0x01, 0x03, 0x00, 0x00, 0x00, 0x0A]) == 0xCDC5;
    // "123456789" -> 0x4B37
    let c = crc16(b"123456789") == 0x4B37;
    a && b && c
}

// ---------------------------------------------------------------------------------------------
// basic vocabulary
// ---------------------------------------------------------------------------------------------

#[derive(Copy, Clone, Debug, PartialEq, Eq, Hash, PartialOrd, Ord)]
pub enum Framing {
    Mbap,
    Rtu,
}

impl Framing {
    pub fn name(self) -> &'static str {
        match self {
            Framing::Mbap => "mbap",
            Framing::Rtu => "rtu",
        }
    }
}

#[derive(Copy, Clone, Debug, PartialEq, Eq, Hash, PartialOrd, Ord)]
pub enum Kind {
    ReadCoils,
    ReadDiscrete,
    ReadHolding,
    ReadInput,
    WriteSingleCoil,
    WriteSingleReg,
    WriteMultiCoils,
    WriteMultiRegs,
}

pub const ALL_KINDS: [Kind; 8] = [
    Kind::ReadCoils,
    Kind::ReadDiscrete,
    Kind::ReadHolding,
    Kind::ReadInput,
    Kind::WriteSingleCoil,
    Kind::WriteSingleReg,
    Kind::WriteMultiCoils,
    Kind::WriteMultiRegs,
];

impl Kind {
    pub fn fc(self) -> u8 {
        match self {
            Kind::ReadCoils => 1,
            Kind::ReadDiscrete => 2,
            Kind::ReadHolding => 3,
            Kind::ReadInput => 4,
            Kind::WriteSingleCoil => 5,
            Kind::WriteSingleReg => 6,
            Kind::WriteMultiCoils => 15,
            Kind::WriteMultiRegs => 16,
        }
    }
    pub fn from_fc(fc: u8) -> Option<Kind> {
        ALL_KINDS.iter().copied().find(|k| k.fc() == fc)
    }
    pub fn is_read(self) -> bool {
        matches!(
            self,
            Kind::ReadCoils | Kind::ReadDiscrete | Kind::ReadHolding | Kind::ReadInput
        )
    }
    pub fn is_bits(self) -> bool {
        matches!(
            self,
            Kind::ReadCoils | Kind::ReadDiscrete | Kind::WriteSingleCoil | Kind::WriteMultiCoils
        )
    }
    pub fn name(self) -> &'static str {
        match self {
            Kind::ReadCoils => "read_coils",
            Kind::ReadDiscrete => "read_discrete_inputs",
            Kind::ReadHolding => "read_holding_registers",
            Kind::ReadInput => "read_input_registers",
            Kind::WriteSingleCoil => "write_single_coil",
            Kind::WriteSingleReg => "write_single_register",
            Kind::WriteMultiCoils => "write_multiple_coils",
            Kind::WriteMultiRegs => "write_multiple_registers",
        }
    }
    /// protocol quantity limit for this function (reads and multi-writes)
    pub fn limit(self) -> u32 {
        match self {
            Kind::ReadCoils | Kind::ReadDiscrete => 2000,
            Kind::ReadHolding | Kind::ReadInput => 125,
            Kind::WriteMultiCoils => 1968,
            Kind::WriteMultiRegs => 123,
            _ => 1,
        }
    }
}

/// The four point tables
#[derive(Copy, Clone, Debug, PartialEq, Eq, Hash, PartialOrd, Ord)]
pub enum Table {
    Coil,
    Discrete,
    Holding,
    Input,
}

impl Table {
    pub fn idx(self) -> u64 {
        match self {
            Table::Coil => 0,
            Table::Discrete => 1,
            Table::Holding => 2,
            Table::Input => 3,
        }
    }
    pub fn of_read(kind: Kind) -> Table {
        match kind {
            Kind::ReadCoils => Table::Coil,
            Kind::ReadDiscrete => Table::Discrete,
            Kind::ReadHolding => Table::Holding,
            Kind::ReadInput => Table::Input,
            _ => panic!("not a read"),
        }
    }
}

// ---------------------------------------------------------------------------------------------
// request PDU parsing (server side view of the specification)
// ---------------------------------------------------------------------------------------------

#[derive(Clone, Debug, PartialEq, Eq)]
pub enum Req {
    Read { kind: Kind, start: u16, qty: u16 },
    WriteSingleCoil { addr: u16, value: bool },
    WriteSingleReg { addr: u16, value: u16 },
    WriteMultiCoils { start: u16, values: Vec<bool> },
    WriteMultiRegs { start: u16, values: Vec<u16> },
}

impl Req {
    pub fn kind(&self) -> Kind {
        match self {
            Req::Read { kind, .. } => *kind,
            Req::WriteSingleCoil { .. } => Kind::WriteSingleCoil,
            Req::WriteSingleReg { .. } => Kind::WriteSingleReg,
            Req::WriteMultiCoils { .. } => Kind::WriteMultiCoils,
            Req::WriteMultiRegs { .. } => Kind::WriteMultiRegs,
        }
    }
    pub fn start(&self) -> u16 {
        match self {
            Req::Read { start, .. } => *start,
            Req::WriteSingleCoil { addr, .. } => *addr,
            Req::WriteSingleReg { addr, .. } => *addr,
            Req::WriteMultiCoils { start, .. } => *start,
            Req::WriteMultiRegs { start, .. } => *start,
        }
    }
    pub fn count(&self) -> u16 {
        match self {
            Req::Read { qty, .. } => *qty,
            Req::WriteSingleCoil { .. } => 1,
            Req::WriteSingleReg { .. } => 1,
            Req::WriteMultiCoils { values, .. } => values.len() as u16,
            Req::WriteMultiRegs { values, .. } => values.len() as u16,
        }
    }
    pub fn is_write(&self) -> bool {
        !self.kind().is_read()
    }
    /// the request PDU per the application protocol
    pub fn encode(&self) -> Vec<u8> {
        let mut v = vec![self.kind().fc()];
        match self {
            Req::Read { start, qty, .. } => {
                v.extend_from_slice(&start.to_be_bytes());
                v.extend_from_slice(&qty.to_be_bytes());
            }
            Req::WriteSingleCoil { addr, value } => {
                v.extend_from_slice(&addr.to_be_bytes());
                v.extend_from_slice(if *value { &[0xFF, 0x00] } else { &[0x00, 0x00] });
            }
            Req::WriteSingleReg { addr, value } => {
                v.extend_from_slice(&addr.to_be_bytes());
                v.extend_from_slice(&value.to_be_bytes());
            }
            Req::WriteMultiCoils { start, values } => {
                v.extend_from_slice(&start.to_be_bytes());
                v.extend_from_slice(&(values.len() as u16).to_be_bytes());
                let packed = pack_bits(values);
                v.push(packed.len() as u8);
                v.extend_from_slice(&packed);
            }
            Req::WriteMultiRegs { start, values } => {
                v.extend_from_slice(&start.to_be_bytes());
                v.extend_from_slice(&(values.len() as u16).to_be_bytes());
                v.push((values.len() * 2) as u8);
                for r in values {
                    v.extend_from_slice(&r.to_be_bytes());
                }
            }
        }
        v
    }
    /// the normal (echo) response PDU of a successful write
    pub fn write_echo(&self) -> Vec<u8> {
        let mut v = vec![self.kind().fc()];
        match self {
            Req::WriteSingleCoil { .. } | Req::WriteSingleReg { .. } => return self.encode(),
            Req::WriteMultiCoils { start, values } => {
                v.extend_from_slice(&start.to_be_bytes());
                v.extend_from_slice(&(values.len() as u16).to_be_bytes());
            }
            Req::WriteMultiRegs { start, values } => {
                v.extend_from_slice(&start.to_be_bytes());
                v.extend_from_slice(&(values.len() as u16).to_be_bytes());
            }
            Req::Read { .. } => panic!("not a write"),
        }
        v
    }
}

/// LSB-first packing, zero padded
pub fn pack_bits(bits: &[bool]) -> Vec<u8> {
    let mut out = vec![0u8; bits.len().div_ceil(8)];
    for (i, b) in bits.iter().enumerate() {
        if *b {
            out[i / 8] |= 1 << (i % 8);
        }
    }
    out
}

pub fn unpack_bits(bytes: &[u8], n: usize) -> Vec<bool> {
    (0..n).map(|i| bytes[i / 8] & (1 << (i % 8)) != 0).collect()
}

#[derive(Clone, Debug, PartialEq, Eq)]
pub enum Parsed {
    /// no function code at all
    Empty,
    /// function code not one of the eight supported
    Unsupported(u8),
    /// supported function, syntactically invalid or beyond limits -> exception 03
    Invalid(Kind, &'static str),
    /// well-formed
    Valid(Req),
    /// well-formed except that the byte-count *field* disagrees with the (otherwise exactly
    /// right) amount of data: the property text does not determine the outcome
    ValidOrInvalid(Req),
}

fn be16(b: &[u8]) -> u16 {
    ((b[0] as u16) << 8) | b[1] as u16
}

pub fn parse_request(pdu: &[u8]) -> Parsed {
    if pdu.is_empty() {
        return Parsed::Empty;
    }
    let fc = pdu[0];
    let kind = match Kind::from_fc(fc) {
        None => return Parsed::Unsupported(fc),
        Some(k) => k,
    };
    let body = &pdu[1..];
    match kind {
        Kind::ReadCoils | Kind::ReadDiscrete | Kind::ReadHolding | Kind::ReadInput => {
            if body.len() != 4 {
                return Parsed::Invalid(kind, "length");
            }
            let start = be16(&body[0..2]);
            let qty = be16(&body[2..4]);
            if qty == 0 {
                return Parsed::Invalid(kind, "qty0");
            }
            if qty as u32 > kind.limit() {
                return Parsed::Invalid(kind, "limit");
            }
            if start as u32 + qty as u32 > 65536 {
                return Parsed::Invalid(kind, "overflow");
            }
            Parsed::Valid(Req::Read { kind, start, qty })
        }
        Kind::WriteSingleCoil => {
            if body.len() != 4 {
                return Parsed::Invalid(kind, "length");
            }
            let addr = be16(&body[0..2]);
            match be16(&body[2..4]) {
                0xFF00 => Parsed::Valid(Req::WriteSingleCoil { addr, value: true }),
                0x0000 => Parsed::Valid(Req::WriteSingleCoil { addr, value: false }),
                _ => Parsed::Invalid(kind, "coilvalue"),
            }
        }
        Kind::WriteSingleReg => {
            if body.len() != 4 {
                return Parsed::Invalid(kind, "length");
            }
            Parsed::Valid(Req::WriteSingleReg {
                addr: be16(&body[0..2]),
                value: be16(&body[2..4]),
            })
        }
        Kind::WriteMultiCoils | Kind::WriteMultiRegs => {
            if body.len() < 5 {
                return Parsed::Invalid(kind, "length");
            }
            let start = be16(&body[0..2]);
            let qty = be16(&body[2..4]);
            let bc = body[4] as usize;
            let data = &body[5..];
            if qty == 0 {
                return Parsed::Invalid(kind, "qty0");
            }
            if qty as u32 > kind.limit() {
                return Parsed::Invalid(kind, "limit");
            }
            if start as u32 + qty as u32 > 65536 {
                return Parsed::Invalid(kind, "overflow");
            }
            let need = if kind == Kind::WriteMultiCoils {
                (qty as usize).div_ceil(8)
            } else {
                2 * qty as usize
            };
            if data.len() != need {
                return Parsed::Invalid(kind, "datalen");
            }
            let req = if kind == Kind::WriteMultiCoils {
                Req::WriteMultiCoils {
                    start,
                    values: unpack_bits(data, qty as usize),
                }
            } else {
                Req::WriteMultiRegs {
                    start,
                    values: data.chunks(2).map(be16).collect(),
                }
            };
            if bc != need {
                Parsed::ValidOrInvalid(req)
            } else {
                Parsed::Valid(req)
            }
        }
    }
}

// ---------------------------------------------------------------------------------------------
// Instrumented point store: the application behind the handlers. Pure function of
// (seed, unit, table, address) plus the writes applied so far. Used twice: once behind the real
// handlers and once inside the reference server; the two copies evolve independently.
// ---------------------------------------------------------------------------------------------

#[derive(Clone, Debug, PartialEq, Eq)]
pub struct Store {
    pub seed: u64,
    pub unit: u8,
    /// 0 = never raises; otherwise roughly 1 address in `density` of a bad zone raises
    pub exc_density: u64,
    pub coils: BTreeMap<u16, bool>,
    pub holding: BTreeMap<u16, u16>,
}

pub const EXC_CODES: [u8; 8] = [0x02, 0x03, 0x04, 0x01, 0x06, 0x0B, 0x55, 0x00];

impl Store {
    pub fn new(seed: u64, unit: u8, exc_density: u64) -> Self {
        Store {
            seed,
            unit,
            exc_density,
            coils: BTreeMap::new(),
            holding: BTreeMap::new(),
        }
    }

    fn h(&self, table: Table, addr: u16, salt: u64) -> u64 {
        hash4(
            self.seed,
            ((self.unit as u64) << 8) | table.idx(),
            addr as u64,
            salt,
        )
    }

    /// exception raised when reading this address, if any
    pub fn read_exception(&self, table: Table, addr: u16) -> Option<u8> {
        if self.exc_density == 0 {
            return None;
        }
        // zones of 256 addresses; a zone is "bad" with probability 1/density
        let zone = self.h(table, addr >> 8, 1);
        if zone % self.exc_density != 0 {
            return None;
        }
        let x = self.h(table, addr, 2);
        if x % 5 == 0 {
            Some(EXC_CODES[((x >> 8) % EXC_CODES.len() as u64) as usize])
        } else {
            None
        }
    }

    pub fn read_bit(&self, table: Table, addr: u16) -> Result<bool, u8> {
        if let Some(ex) = self.read_exception(table, addr) {
            return Err(ex);
        }
        if table == Table::Coil {
            if let Some(v) = self.coils.get(&addr) {
                return Ok(*v);
            }
        }
        Ok(self.h(table, addr, 3) & 1 == 1)
    }

    pub fn read_reg(&self, table: Table, addr: u16) -> Result<u16, u8> {
        if let Some(ex) = self.read_exception(table, addr) {
            return Err(ex);
        }
        if table == Table::Holding {
            if let Some(v) = self.holding.get(&addr) {
                return Ok(*v);
            }
        }
        Ok((self.h(table, addr, 3) >> 16) as u16)
    }

    /// exception raised by a write handler for this request, if any
    pub fn write_exception(&self, kind: Kind, start: u16, count: u16) -> Option<u8> {
        if self.exc_density == 0 {
            return None;
        }
        let x = hash4(
            self.seed ^ 0x5555,
            ((self.unit as u64) << 8) | kind.fc() as u64,
            start as u64,
            count as u64,
        );
        if x % 6 == 0 {
            Some(EXC_CODES[((x >> 8) % EXC_CODES.len() as u64) as usize])
        } else {
            None
        }
    }

    /// apply a write request; returns the handler's verdict
    pub fn apply_write(&mut self, req: &Req) -> Result<(), u8> {
        if let Some(ex) = self.write_exception(req.kind(), req.start(), req.count()) {
            return Err(ex);
        }
        match req {
            Req::WriteSingleCoil { addr, value } => {
                self.coils.insert(*addr, *value);
            }
            Req::WriteSingleReg { addr, value } => {
                self.holding.insert(*addr, *value);
            }
            Req::WriteMultiCoils { start, values } => {
                for (i, v) in values.iter().enumerate() {
                    self.coils.insert(start.wrapping_add(i as u16), *v);
                }
            }
            Req::WriteMultiRegs { start, values } => {
                for (i, v) in values.iter().enumerate() {
                    self.holding.insert(start.wrapping_add(i as u16), *v);
                }
            }
            Req::Read { .. } => {}
        }
        Ok(())
    }
}

// ---------------------------------------------------------------------------------------------
// call log shared by the real handlers and the reference server
// ---------------------------------------------------------------------------------------------

#[derive(Clone, Debug, PartialEq, Eq)]
pub enum Call {
    /// authorization handler consulted: kind, unit, start (or index), count (None for single
    /// writes which carry only an index), role
    Auth {
        kind: Kind,
        unit: u8,
        start: u16,
        count: Option<u16>,
        role: String,
    },
    Read {
        unit: u8,
        table: Table,
        addr: u16,
    },
    WriteSingleCoil {
        unit: u8,
        addr: u16,
        value: bool,
    },
    WriteSingleReg {
        unit: u8,
        addr: u16,
        value: u16,
    },
    WriteMultiCoils {
        unit: u8,
        start: u16,
        count: u16,
        items: Vec<(u16, bool)>,
        hint_ok: bool,
    },
    WriteMultiRegs {
        unit: u8,
        start: u16,
        count: u16,
        items: Vec<(u16, u16)>,
        hint_ok: bool,
    },
}

impl Call {
    pub fn short(&self) -> String {
        match self {
            Call::Auth {
                kind,
                unit,
                start,
                count,
                role,
            } => format!("auth({},u{unit},{start},{count:?},{role:?})", kind.name()),
            Call::Read { unit, table, addr } => format!("read(u{unit},{table:?},{addr})"),
            Call::WriteSingleCoil { unit, addr, value } => format!("wsc(u{unit},{addr},{value})"),
            Call::WriteSingleReg { unit, addr, value } => format!("wsr(u{unit},{addr},{value})"),
            Call::WriteMultiCoils {
                unit,
                start,
                count,
                items,
                hint_ok,
            } => format!(
                "wmc(u{unit},{start},{count},n={},hint_ok={hint_ok})",
                items.len()
            ),
            Call::WriteMultiRegs {
                unit,
                start,
                count,
                items,
                hint_ok,
            } => format!(
                "wmr(u{unit},{start},{count},n={},hint_ok={hint_ok})",
                items.len()
            ),
        }
    }
}

/// What the reference server expects to find in the call log for one request
#[derive(Clone, Debug, PartialEq, Eq)]
pub enum Expect {
    /// exactly this call
    Exactly(Call),
    /// any number (including none) of reads of this table on this unit inside the range
    ReadsWithin {
        unit: u8,
        table: Table,
        start: u16,
        qty: u16,
    },
    /// exactly these calls, in any order (broadcast: one per unit)
    AnyOrder(Vec<Call>),
}

// ---------------------------------------------------------------------------------------------
// authorization policy (shared by the real handler wrapper and the model)
// ---------------------------------------------------------------------------------------------

#[derive(Clone, Debug, PartialEq, Eq)]
pub enum PolicyKind {
    /// pure pseudo-random function of (kind, unit, start, count, role)
    Pure,
    /// allow, deny, allow, deny ... per consultation
    Alternate,
    /// allow only the first consultation
    AllowOnce,
    /// deny only the first consultation
    DenyOnce,
    /// the built-in read-only policy (the real object is used on the rodbus side)
    ReadOnly,
    AllowAll,
    DenyAll,
}

#[derive(Clone, Debug)]
pub struct Policy {
    pub kind: PolicyKind,
    pub seed: u64,
    pub role: String,
    pub consultations: u64,
}

impl Policy {
    pub fn new(kind: PolicyKind, seed: u64, role: &str) -> Self {
        Policy {
            kind,
            seed,
            role: role.to_string(),
            consultations: 0,
        }
    }

    /// decide and advance the consultation counter
    pub fn decide(&mut self, kind: Kind, unit: u8, start: u16, count: Option<u16>, role: &str) -> bool {
        let n = self.consultations;
        self.consultations += 1;
        match self.kind {
            PolicyKind::Pure => {
                let mut r: u64 = 0xcbf2_9ce4_8422_2325;
                for b in role.bytes() {
                    r = (r ^ b as u64).wrapping_mul(0x100_0000_01b3);
                }
                let x = hash4(
                    self.seed ^ r,
                    ((unit as u64) << 8) | kind.fc() as u64,
                    start as u64,
                    count.map(|c| c as u64 + 1).unwrap_or(0),
                );
                x % 3 != 0
            }
            PolicyKind::Alternate => n % 2 == 0,
            PolicyKind::AllowOnce => n == 0,
            PolicyKind::DenyOnce => n != 0,
            PolicyKind::ReadOnly => kind.is_read(),
            PolicyKind::AllowAll => true,
            PolicyKind::DenyAll => false,
        }
    }
}

// ---------------------------------------------------------------------------------------------
// reference server
// ---------------------------------------------------------------------------------------------

#[derive(Clone, Debug)]
pub struct Alt {
    /// response PDU (None = silence)
    pub reply: Option<Vec<u8>>,
    pub expect: Vec<Expect>,
    /// write to apply to the model stores: (units, request)
    pub effect: Option<(Vec<u8>, Req)>,
    /// whether the authorization policy was consulted in this alternative
    pub consulted: bool,
    /// outcome class for evidence
    pub class: &'static str,
}

pub struct ServerModel {
    pub framing: Framing,
    pub units: BTreeMap<u8, Store>,
    pub auth: Option<Policy>,
}

fn exception_pdu(fc: u8, code: u8) -> Vec<u8> {
    vec![fc | 0x80, code]
}

impl ServerModel {
    pub fn new(framing: Framing, units: BTreeMap<u8, Store>, auth: Option<Policy>) -> Self {
        ServerModel {
            framing,
            units,
            auth,
        }
    }

    /// All outcomes the specification allows for this request in the current state, WITHOUT
    /// committing to any. `commit` must be called with the index the implementation took.
    pub fn alternatives(&self, unit: u8, pdu: &[u8]) -> Vec<Alt> {
        let broadcast = self.framing == Framing::Rtu && unit == 0;
        let configured = self.units.contains_key(&unit);
        // Multi-drop discipline (C17 / C01): only frames for a configured unit are answered;
        // broadcast is never answered. Authorization (C08) is the one stated exception:
        // a veto is answered even for an unconfigured unit.
        let silent_alt = |class: &'static str| Alt {
            reply: None,
            expect: vec![],
            effect: None,
            consulted: false,
            class,
        };
        match parse_request(pdu) {
            Parsed::Empty => vec![silent_alt("empty")],
            Parsed::Unsupported(fc) => {
                if broadcast || !configured {
                    vec![silent_alt("unsupported_not_addressed")]
                } else {
                    vec![Alt {
                        reply: Some(exception_pdu(fc, 0x01)),
                        expect: vec![],
                        effect: None,
                        consulted: false,
                        class: "ex01_unsupported",
                    }]
                }
            }
            Parsed::Invalid(kind, _) => vec![self.invalid_alt(kind, broadcast, configured)],
            Parsed::Valid(req) => self.valid_alts(unit, &req, broadcast, configured),
            Parsed::ValidOrInvalid(req) => {
                let kind = req.kind();
                let mut v = self.valid_alts(unit, &req, broadcast, configured);
                v.push(self.invalid_alt(kind, broadcast, configured));
                v
            }
        }
    }

    fn invalid_alt(&self, kind: Kind, broadcast: bool, configured: bool) -> Alt {
        if broadcast || !configured {
            Alt {
                reply: None,
                expect: vec![],
                effect: None,
                consulted: false,
                class: "invalid_not_addressed",
            }
        } else {
            Alt {
                reply: Some(exception_pdu(kind.fc(), 0x03)),
                expect: vec![],
                effect: None,
                consulted: false,
                class: "ex03",
            }
        }
    }

    fn valid_alts(&self, unit: u8, req: &Req, broadcast: bool, configured: bool) -> Vec<Alt> {
        if let Req::Read { kind, start, qty } = req {
            if !broadcast && configured {
                // would the policy allow it?
                let allowed = match &self.auth {
                    None => true,
                    Some(p) => {
                        let mut p = p.clone();
                        let role = p.role.clone();
                        p.decide(*kind, unit, *start, Some(*qty), &role)
                    }
                };
                if allowed {
                    return self.read_alts(unit, *kind, *start, *qty);
                }
            }
        }
        vec![self.valid_alt(unit, req, broadcast, configured)]
    }

    /// A read of a configured unit that is allowed: the data, or - when any address in the
    /// range raises - an exception reply. The first exception in address order is the
    /// preferred outcome; any other code raised inside the range is accepted too (the
    /// property only says "the exception they raise").
    fn read_alts(&self, unit: u8, kind: Kind, start: u16, qty: u16) -> Vec<Alt> {
        let store = &self.units[&unit];
        let table = Table::of_read(kind);
        let mut expect = vec![];
        let consulted = self.auth.is_some();
        if let Some(policy) = &self.auth {
            expect.push(Expect::Exactly(Call::Auth {
                kind,
                unit,
                start,
                count: Some(qty),
                role: policy.role.clone(),
            }));
        }
        expect.push(Expect::ReadsWithin {
            unit,
            table,
            start,
            qty,
        });
        let mut codes: Vec<u8> = vec![];
        let mut pdu;
        if kind.is_bits() {
            let mut bits = Vec::with_capacity(qty as usize);
            for i in 0..qty {
                match store.read_bit(table, start + i) {
                    Ok(b) => bits.push(b),
                    Err(ex) => {
                        if !codes.contains(&ex) {
                            codes.push(ex)
                        }
                    }
                }
            }
            let packed = pack_bits(&bits);
            pdu = vec![kind.fc(), packed.len() as u8];
            pdu.extend_from_slice(&packed);
        } else {
            pdu = vec![kind.fc(), (2 * qty) as u8];
            for i in 0..qty {
                match store.read_reg(table, start + i) {
                    Ok(r) => pdu.extend_from_slice(&r.to_be_bytes()),
                    Err(ex) => {
                        if !codes.contains(&ex) {
                            codes.push(ex)
                        }
                    }
                }
            }
        }
        if codes.is_empty() {
            return vec![Alt {
                reply: Some(pdu),
                expect,
                effect: None,
                consulted,
                class: "read_data",
            }];
        }
        codes
            .iter()
            .enumerate()
            .map(|(i, c)| Alt {
                reply: Some(exception_pdu(kind.fc(), *c)),
                expect: expect.clone(),
                effect: None,
                consulted,
                class: if i == 0 {
                    "read_handler_exception"
                } else {
                    "read_handler_exception_not_first"
                },
            })
            .collect()
    }

    fn valid_alt(&self, unit: u8, req: &Req, broadcast: bool, configured: bool) -> Alt {
        let kind = req.kind();
        let mut expect = vec![];
        let mut consulted = false;
        if let Some(policy) = &self.auth {
            consulted = true;
            let count = match req {
                Req::WriteSingleCoil { .. } | Req::WriteSingleReg { .. } => None,
                _ => Some(req.count()),
            };
            expect.push(Expect::Exactly(Call::Auth {
                kind,
                unit,
                start: req.start(),
                count,
                role: policy.role.clone(),
            }));
            let mut p = policy.clone();
            let allow = p.decide(kind, unit, req.start(), count, &policy.role);
            if !allow {
                return Alt {
                    reply: if broadcast {
                        None
                    } else {
                        Some(exception_pdu(kind.fc(), 0x01))
                    },
                    expect,
                    effect: None,
                    consulted,
                    class: if broadcast { "denied_broadcast" } else { "denied_ex01" },
                };
            }
        }

        if broadcast {
            // reads are ignored; writes go to every configured unit exactly once, no reply
            if kind.is_read() {
                return Alt {
                    reply: None,
                    expect,
                    effect: None,
                    consulted,
                    class: "broadcast_read_ignored",
                };
            }
            let units: Vec<u8> = self.units.keys().copied().collect();
            let calls: Vec<Call> = units.iter().map(|u| write_call(*u, req)).collect();
            expect.push(Expect::AnyOrder(calls));
            return Alt {
                reply: None,
                expect,
                effect: Some((units, req.clone())),
                consulted,
                class: "broadcast_write",
            };
        }

        if !configured {
            return Alt {
                reply: None,
                expect,
                effect: None,
                consulted,
                class: "unconfigured_silent",
            };
        }

        let store = &self.units[&unit];
        match req {
            Req::Read { .. } => {
                // handled by `read_alts` (several exception codes may be allowed)
                unreachable!("reads are expanded by read_alts")
            }
            _ => {
                expect.push(Expect::Exactly(write_call(unit, req)));
                let verdict = store.write_exception(req.kind(), req.start(), req.count());
                match verdict {
                    None => Alt {
                        reply: Some(req.write_echo()),
                        expect,
                        effect: Some((vec![unit], req.clone())),
                        consulted,
                        class: "write_echo",
                    },
                    Some(ex) => Alt {
                        reply: Some(exception_pdu(kind.fc(), ex)),
                        expect,
                        effect: Some((vec![unit], req.clone())),
                        consulted,
                        class: "write_handler_exception",
                    },
                }
            }
        }
    }

    /// commit to the alternative the implementation took
    pub fn commit(&mut self, alt: &Alt) {
        if alt.consulted {
            if let Some(p) = &mut self.auth {
                p.consultations += 1;
            }
        }
        if let Some((units, req)) = &alt.effect {
            for u in units {
                if let Some(store) = self.units.get_mut(u) {
                    let _ = store.apply_write(req);
                }
            }
        }
    }
}

pub fn write_call(unit: u8, req: &Req) -> Call {
    match req {
        Req::WriteSingleCoil { addr, value } => Call::WriteSingleCoil {
            unit,
            addr: *addr,
            value: *value,
        },
        Req::WriteSingleReg { addr, value } => Call::WriteSingleReg {
            unit,
            addr: *addr,
            value: *value,
        },
        Req::WriteMultiCoils { start, values } => Call::WriteMultiCoils {
            unit,
            start: *start,
            count: values.len() as u16,
            items: values
                .iter()
                .enumerate()
                .map(|(i, v)| (start.wrapping_add(i as u16), *v))
                .collect(),
            hint_ok: true,
        },
        Req::WriteMultiRegs { start, values } => Call::WriteMultiRegs {
            unit,
            start: *start,
            count: values.len() as u16,
            items: values
                .iter()
                .enumerate()
                .map(|(i, v)| (start.wrapping_add(i as u16), *v))
                .collect(),
            hint_ok: true,
        },
        Req::Read { .. } => panic!("not a write"),
    }
}

#[derive(Clone, Debug)]
pub struct CallMismatch {
    /// space-free structural signature: problem kind + call kind (+ count for multi-writes)
    pub sig: String,
    pub what: String,
}

impl Call {
    /// call kind with the argument that identifies the class of the call
    pub fn kind_sig(&self) -> String {
        match self {
            Call::Auth { kind, .. } => format!("auth_{}", kind.name()),
            Call::Read { table, .. } => format!("read_{table:?}").to_lowercase(),
            Call::WriteSingleCoil { .. } => "write_single_coil".into(),
            Call::WriteSingleReg { .. } => "write_single_register".into(),
            Call::WriteMultiCoils { count, .. } => format!("write_multiple_coils:count={count}"),
            Call::WriteMultiRegs { count, .. } => format!("write_multiple_registers:count={count}"),
        }
    }
    fn same_kind(&self, o: &Call) -> bool {
        std::mem::discriminant(self) == std::mem::discriminant(o)
    }
}

fn mismatch(ei: usize, pos: usize, expected: Option<&Call>, got: Option<&Call>) -> CallMismatch {
    match (expected, got) {
        (Some(e), Some(g)) if e.same_kind(g) => CallMismatch {
            sig: format!("wrong_arguments:{}", g.kind_sig()),
            what: format!(
                "expectation #{ei}: expected call {} but log[{pos}] is {}",
                e.short(),
                g.short()
            ),
        },
        (Some(e), Some(g)) => CallMismatch {
            sig: format!("unexpected_call:{}", g.kind_sig()),
            what: format!(
                "expectation #{ei}: expected call {} but log[{pos}] is {}",
                e.short(),
                g.short()
            ),
        },
        (Some(e), None) => CallMismatch {
            sig: format!("missing_call:{}", e.kind_sig()),
            what: format!(
                "expectation #{ei}: expected call {} but the log ended (missing call)",
                e.short()
            ),
        },
        (None, Some(g)) => CallMismatch {
            sig: format!("unexpected_call:{}", g.kind_sig()),
            what: format!("unexpected call log[{pos}] = {} (nothing more expected)", g.short()),
        },
        (None, None) => CallMismatch {
            sig: "internal".into(),
            what: "internal".into(),
        },
    }
}

/// Sequentially match an observed call log against expectations.
/// Returns the first mismatch.
pub fn match_calls(expect: &[Expect], log: &[Call]) -> Result<(), CallMismatch> {
    let mut pos = 0usize;
    for (ei, e) in expect.iter().enumerate() {
        match e {
            Expect::Exactly(c) => match log.get(pos) {
                Some(x) if x == c => pos += 1,
                other => return Err(mismatch(ei, pos, Some(c), other)),
            },
            Expect::ReadsWithin {
                unit,
                table,
                start,
                qty,
            } => {
                while let Some(Call::Read {
                    unit: u,
                    table: t,
                    addr,
                }) = log.get(pos)
                {
                    let inside = *addr >= *start && (*addr as u32) < *start as u32 + *qty as u32;
                    if u == unit && t == table && inside {
                        pos += 1;
                    } else {
                        break;
                    }
                }
            }
            Expect::AnyOrder(calls) => {
                let mut remaining: Vec<&Call> = calls.iter().collect();
                while !remaining.is_empty() {
                    match log.get(pos) {
                        Some(x) => {
                            if let Some(i) = remaining.iter().position(|c| *c == x) {
                                remaining.remove(i);
                                pos += 1;
                            } else {
                                return Err(mismatch(ei, pos, Some(remaining[0]), Some(x)));
                            }
                        }
                        None => return Err(mismatch(ei, pos, Some(remaining[0]), None)),
                    }
                }
            }
        }
    }
    if pos != log.len() {
        return Err(mismatch(expect.len(), pos, None, log.get(pos)));
    }
    Ok(())
}

// ---------------------------------------------------------------------------------------------
// framing
// ---------------------------------------------------------------------------------------------

pub fn mbap_frame(tx: u16, unit: u8, pdu: &[u8]) -> Vec<u8> {
    let mut v = Vec::with_capacity(7 + pdu.len());
    v.extend_from_slice(&tx.to_be_bytes());
    v.extend_from_slice(&[0, 0]);
    v.extend_from_slice(&((pdu.len() + 1) as u16).to_be_bytes());
    v.push(unit);
    v.extend_from_slice(pdu);
    v
}

/// raw header control for malformed-header tests
pub fn mbap_frame_raw(tx: u16, proto: u16, len_field: u16, unit: u8, pdu: &[u8]) -> Vec<u8> {
    let mut v = Vec::with_capacity(7 + pdu.len());
    v.extend_from_slice(&tx.to_be_bytes());
    v.extend_from_slice(&proto.to_be_bytes());
    v.extend_from_slice(&len_field.to_be_bytes());
    v.push(unit);
    v.extend_from_slice(pdu);
    v
}

pub fn rtu_frame(unit: u8, pdu: &[u8]) -> Vec<u8> {
    let mut v = Vec::with_capacity(3 + pdu.len());
    v.push(unit);
    v.extend_from_slice(pdu);
    let crc = crc16(&v);
    v.push((crc & 0xFF) as u8);
    v.push((crc >> 8) as u8);
    v
}

#[derive(Clone, Debug, PartialEq, Eq)]
pub struct MbapFrame {
    pub tx: u16,
    pub unit: u8,
    pub pdu: Vec<u8>,
    /// stream offset one past the frame's last byte
    pub end: usize,
}

#[derive(Clone, Debug, PartialEq, Eq)]
pub enum StreamEnd {
    /// the stream ended on a frame boundary or inside an incomplete frame
    Exhausted { leftover: usize },
    /// a malformed header starts at this offset; nothing after it may be interpreted
    Fatal { offset: usize, why: &'static str },
}

/// Split a byte stream into MBAP frames using only the length field.
pub fn mbap_split(stream: &[u8]) -> (Vec<MbapFrame>, StreamEnd) {
    let mut frames = vec![];
    let mut pos = 0usize;
    loop {
        if stream.len() - pos < 7 {
            return (
                frames,
                StreamEnd::Exhausted {
                    leftover: stream.len() - pos,
                },
            );
        }
        let h = &stream[pos..pos + 7];
        let tx = be16(&h[0..2]);
        let proto = be16(&h[2..4]);
        let len = be16(&h[4..6]) as usize;
        let unit = h[6];
        if proto != 0 {
            return (
                frames,
                StreamEnd::Fatal {
                    offset: pos,
                    why: "protocol_id",
                },
            );
        }
        if len == 0 {
            return (
                frames,
                StreamEnd::Fatal {
                    offset: pos,
                    why: "length_zero",
                },
            );
        }
        if len > 254 {
            return (
                frames,
                StreamEnd::Fatal {
                    offset: pos,
                    why: "length_too_big",
                },
            );
        }
        let pdu_len = len - 1;
        if stream.len() - pos - 7 < pdu_len {
            return (
                frames,
                StreamEnd::Exhausted {
                    leftover: stream.len() - pos,
                },
            );
        }
        let pdu = stream[pos + 7..pos + 7 + pdu_len].to_vec();
        pos += 7 + pdu_len;
        frames.push(MbapFrame {
            tx,
            unit,
            pdu,
            end: pos,
        });
    }
}

#[derive(Copy, Clone, Debug, PartialEq, Eq)]
pub enum RtuDir {
    Request,
    Response,
}

#[derive(Clone, Debug, PartialEq, Eq)]
pub enum RtuLen {
    /// need more bytes to know
    NeedMore,
    /// total frame length (address + pdu + crc)
    Total(usize),
    /// function code whose length cannot be derived: framing error
    UnknownFunction(u8),
    /// derived PDU exceeds 253 bytes: framing error
    TooBig,
}

/// Frame length of an RTU frame from its function code and byte count
pub fn rtu_frame_len(dir: RtuDir, bytes: &[u8]) -> RtuLen {
    if bytes.len() < 2 {
        return RtuLen::NeedMore;
    }
    let fc = bytes[1];
    // body length after the function code
    let body = if dir == RtuDir::Response && fc & 0x80 != 0 {
        1
    } else {
        match (dir, Kind::from_fc(fc)) {
            (_, None) => return RtuLen::UnknownFunction(fc),
            (RtuDir::Request, Some(k)) => match k {
                Kind::WriteMultiCoils | Kind::WriteMultiRegs => {
                    if bytes.len() < 7 {
                        return RtuLen::NeedMore;
                    }
                    5 + bytes[6] as usize
                }
                _ => 4,
            },
            (RtuDir::Response, Some(k)) => {
                if k.is_read() {
                    if bytes.len() < 3 {
                        return RtuLen::NeedMore;
                    }
                    1 + bytes[2] as usize
                } else {
                    4
                }
            }
        }
    };
    if 1 + body > 253 {
        return RtuLen::TooBig;
    }
    RtuLen::Total(1 + 1 + body + 2)
}

#[derive(Clone, Debug, PartialEq, Eq)]
pub enum RtuRx {
    NeedMore,
    /// CRC-valid frame: unit, pdu, total length consumed
    Frame { unit: u8, pdu: Vec<u8>, len: usize },
    /// the receiver must reject (and may drop the link): reason
    Reject(&'static str),
}

/// independent reference receiver for one RTU frame at the start of `bytes`
pub fn rtu_receive(dir: RtuDir, bytes: &[u8]) -> RtuRx {
    match rtu_frame_len(dir, bytes) {
        RtuLen::NeedMore => RtuRx::NeedMore,
        RtuLen::UnknownFunction(_) => RtuRx::Reject("unknown_function"),
        RtuLen::TooBig => RtuRx::Reject("too_big"),
        RtuLen::Total(n) => {
            if bytes.len() < n {
                return RtuRx::NeedMore;
            }
            let crc = crc16(&bytes[..n - 2]);
            let got = bytes[n - 2] as u16 | ((bytes[n - 1] as u16) << 8);
            if crc != got {
                return RtuRx::Reject("crc");
            }
            RtuRx::Frame {
                unit: bytes[0],
                pdu: bytes[1..n - 2].to_vec(),
                len: n,
            }
        }
    }
}

// ---------------------------------------------------------------------------------------------
// client side: request encoding and response decoding
// ---------------------------------------------------------------------------------------------

/// A request as submitted through a client API (may be invalid)
#[derive(Clone, Debug, PartialEq, Eq)]
pub enum ClientReq {
    Read { kind: Kind, start: u16, count: u16 },
    WriteSingleCoil { addr: u16, value: bool },
    WriteSingleReg { addr: u16, value: u16 },
    WriteMultiCoils { start: u16, values: Vec<bool> },
    WriteMultiRegs { start: u16, values: Vec<u16> },
}

impl ClientReq {
    pub fn kind(&self) -> Kind {
        match self {
            ClientReq::Read { kind, .. } => *kind,
            ClientReq::WriteSingleCoil { .. } => Kind::WriteSingleCoil,
            ClientReq::WriteSingleReg { .. } => Kind::WriteSingleReg,
            ClientReq::WriteMultiCoils { .. } => Kind::WriteMultiCoils,
            ClientReq::WriteMultiRegs { .. } => Kind::WriteMultiRegs,
        }
    }

    /// the protocol encoding, or None when the protocol requires rejection
    pub fn encode(&self) -> Option<Vec<u8>> {
        match self {
            ClientReq::Read { kind, start, count } => {
                if *count == 0
                    || *count as u32 > kind.limit()
                    || *start as u32 + *count as u32 > 65536
                {
                    return None;
                }
                Some(
                    Req::Read {
                        kind: *kind,
                        start: *start,
                        qty: *count,
                    }
                    .encode(),
                )
            }
            ClientReq::WriteSingleCoil { addr, value } => Some(
                Req::WriteSingleCoil {
                    addr: *addr,
                    value: *value,
                }
                .encode(),
            ),
            ClientReq::WriteSingleReg { addr, value } => Some(
                Req::WriteSingleReg {
                    addr: *addr,
                    value: *value,
                }
                .encode(),
            ),
            ClientReq::WriteMultiCoils { start, values } => {
                if values.is_empty()
                    || values.len() > 1968
                    || *start as usize + values.len() > 65536
                {
                    return None;
                }
                Some(
                    Req::WriteMultiCoils {
                        start: *start,
                        values: values.clone(),
                    }
                    .encode(),
                )
            }
            ClientReq::WriteMultiRegs { start, values } => {
                if values.is_empty() || values.len() > 123 || *start as usize + values.len() > 65536
                {
                    return None;
                }
                Some(
                    Req::WriteMultiRegs {
                        start: *start,
                        values: values.clone(),
                    }
                    .encode(),
                )
            }
        }
    }

    pub fn describe(&self) -> String {
        match self {
            ClientReq::Read { kind, start, count } => format!("{}({start},{count})", kind.name()),
            ClientReq::WriteSingleCoil { addr, value } => format!("write_single_coil({addr},{value})"),
            ClientReq::WriteSingleReg { addr, value } => {
                format!("write_single_register({addr},{value})")
            }
            ClientReq::WriteMultiCoils { start, values } => {
                format!("write_multiple_coils({start},n={})", values.len())
            }
            ClientReq::WriteMultiRegs { start, values } => {
                format!("write_multiple_registers({start},n={})", values.len())
            }
        }
    }
}

#[derive(Clone, Debug, PartialEq, Eq)]
pub enum RespExpect {
    Bits(Vec<(u16, bool)>),
    Regs(Vec<(u16, u16)>),
    /// successful write echo
    Echo,
    Exception(u8),
    /// must fail with an error that is not an exception
    Error,
    /// byte-count field disagrees with otherwise exact data: either the values or a
    /// non-exception error
    BitsOrError(Vec<(u16, bool)>),
    RegsOrError(Vec<(u16, u16)>),
}

/// Reference decoder for a response PDU to a (valid) request
pub fn decode_response(req: &ClientReq, pdu: &[u8]) -> RespExpect {
    if pdu.is_empty() {
        return RespExpect::Error;
    }
    let fc = req.kind().fc();
    if pdu[0] == fc | 0x80 {
        return if pdu.len() == 2 {
            RespExpect::Exception(pdu[1])
        } else {
            RespExpect::Error
        };
    }
    if pdu[0] != fc {
        return RespExpect::Error;
    }
    let body = &pdu[1..];
    match req {
        ClientReq::Read { kind, start, count } => {
            if body.is_empty() {
                return RespExpect::Error;
            }
            let bc = body[0] as usize;
            let data = &body[1..];
            if kind.is_bits() {
                let need = (*count as usize).div_ceil(8);
                if data.len() != need {
                    return RespExpect::Error;
                }
                let vals: Vec<(u16, bool)> = unpack_bits(data, *count as usize)
                    .into_iter()
                    .enumerate()
                    .map(|(i, b)| (start + i as u16, b))
                    .collect();
                if bc != need {
                    RespExpect::BitsOrError(vals)
                } else {
                    RespExpect::Bits(vals)
                }
            } else {
                let need = 2 * *count as usize;
                if data.len() != need {
                    return RespExpect::Error;
                }
                let vals: Vec<(u16, u16)> = data
                    .chunks(2)
                    .enumerate()
                    .map(|(i, c)| (start + i as u16, be16(c)))
                    .collect();
                if bc != need {
                    RespExpect::RegsOrError(vals)
                } else {
                    RespExpect::Regs(vals)
                }
            }
        }
        ClientReq::WriteSingleCoil { addr, value } => {
            let want = Req::WriteSingleCoil {
                addr: *addr,
                value: *value,
            }
            .encode();
            if pdu == want.as_slice() {
                RespExpect::Echo
            } else {
                RespExpect::Error
            }
        }
        ClientReq::WriteSingleReg { addr, value } => {
            let want = Req::WriteSingleReg {
                addr: *addr,
                value: *value,
            }
            .encode();
            if pdu == want.as_slice() {
                RespExpect::Echo
            } else {
                RespExpect::Error
            }
        }
        ClientReq::WriteMultiCoils { start, values } => {
            let mut want = vec![fc];
            want.extend_from_slice(&start.to_be_bytes());
            want.extend_from_slice(&(values.len() as u16).to_be_bytes());
            if pdu == want.as_slice() {
                RespExpect::Echo
            } else {
                RespExpect::Error
            }
        }
        ClientReq::WriteMultiRegs { start, values } => {
            let mut want = vec![fc];
            want.extend_from_slice(&start.to_be_bytes());
            want.extend_from_slice(&(values.len() as u16).to_be_bytes());
            if pdu == want.as_slice() {
                RespExpect::Echo
            } else {
                RespExpect::Error
            }
        }
    }
}

#[cfg(test)]
mod tests {
    use super::*;
    #[test]
    fn crc_vectors() {
        assert!(crc_self_check());
    }
    #[test]
    fn split() {
        let mut s = mbap_frame(1, 2, &[3, 0, 0, 0, 1]);
        s.extend(mbap_frame(2, 2, &[3, 0, 0, 0, 1]));
        let (f, e) = mbap_split(&s);
        assert_eq!(f.len(), 2);
        assert_eq!(e, StreamEnd::Exhausted { leftover: 0 });
    }
}
