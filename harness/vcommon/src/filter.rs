//! rodbus-independent description of address filters, sources and an independent matcher
use crate::rng::Rng;
use std::net::{IpAddr, Ipv4Addr, Ipv6Addr};

pub const OCTETS: [u8; 7] = [0, 1, 2, 127, 128, 254, 255];

/// rodbus-independent description of a filter
#[derive(Clone, Debug)]
pub enum F {
    Any,
    Exact(IpAddr),
    AnyOf(Vec<IpAddr>),
    /// four fields, None = '*'
    Wildcard([Option<u8>; 4]),
}

impl F {
    pub fn matches(&self, a: IpAddr) -> bool {
        match self {
            F::Any => true,
            F::Exact(x) => *x == a,
            F::AnyOf(v) => v.contains(&a),
            F::Wildcard(f) => match a {
                IpAddr::V4(v4) => v4.octets().iter().zip(f.iter()).all(|(o, p)| p.map(|p| p == *o).unwrap_or(true)),
                IpAddr::V6(_) => false,
            },
        }
    }
    pub fn wildcard_string(f: &[Option<u8>; 4]) -> String {
        f.iter().map(|x| x.map(|v| v.to_string()).unwrap_or("*".into())).collect::<Vec<_>>().join(".")
    }
    pub fn class(&self) -> &'static str {
        match self {
            F::Any => "any",
            F::Exact(IpAddr::V4(_)) => "exact_v4",
            F::Exact(IpAddr::V6(_)) => "exact_v6",
            F::AnyOf(_) => "any_of",
            F::Wildcard(_) => "wildcard",
        }
    }
}

pub fn gen_source(rng: &mut Rng) -> Ipv4Addr {
    loop {
        let a = *rng.pick(&OCTETS);
        let b = *rng.pick(&OCTETS);
        let c = if rng.chance(1, 4) { rng.u8() } else { *rng.pick(&OCTETS) };
        if (a, b, c) == (0, 0, 0) || (a, b, c) == (255, 255, 255) {
            continue;
        }
        return Ipv4Addr::new(127, a, b, c);
    }
}

/// The first few filters of every campaign are fixed special values: addresses that mean
/// "everything" in other contexts (bind addresses) but are ordinary, unmatched values in a filter.
pub fn gen_filter_indexed(rng: &mut Rng, sources: &[Ipv4Addr], i: u64) -> F {
    let unspec4 = IpAddr::V4(Ipv4Addr::UNSPECIFIED);
    let unspec6 = IpAddr::V6(Ipv6Addr::UNSPECIFIED);
    match i {
        0 => F::Exact(unspec4),
        1 => F::Exact(unspec6),
        2 => F::AnyOf(vec![unspec4, unspec6, IpAddr::V4(Ipv4Addr::BROADCAST)]),
        3 => F::Exact(IpAddr::V6(Ipv4Addr::LOCALHOST.to_ipv6_mapped())),
        4 => F::Wildcard([Some(0), Some(0), Some(0), Some(0)]),
        // a set without members has no member (Rust API only: the C ABI cannot build one)
        5 => F::AnyOf(vec![]),
        _ => gen_filter(rng, sources),
    }
}

pub fn gen_filter(rng: &mut Rng, sources: &[Ipv4Addr]) -> F {
    match rng.below(10) {
        0 => F::Any,
        1 => F::Exact(IpAddr::V4(*rng.pick(sources))),
        2 => F::Exact(IpAddr::V4(gen_source(rng))),
        3 => F::Exact(IpAddr::V6(Ipv6Addr::LOCALHOST)),
        4 | 5 => {
            let n = 1 + rng.usize_below(5);
            let mut v = vec![];
            for _ in 0..n {
                v.push(match rng.below(4) {
                    0 => IpAddr::V6(Ipv6Addr::LOCALHOST),
                    1 => IpAddr::V4(*rng.pick(sources)),
                    _ => IpAddr::V4(gen_source(rng)),
                });
            }
            F::AnyOf(v)
        }
        _ => {
            // wildcard: derive from a source so that matches are frequent, then perturb
            let s = rng.pick(sources).octets();
            let mut f = [None; 4];
            for i in 0..4 {
                f[i] = match rng.below(6) {
                    0 | 1 => None,
                    2 => Some(*rng.pick(&OCTETS)),
                    _ => Some(s[i]),
                };
            }
            if rng.chance(1, 5) {
                f[0] = *rng.pick(&[Some(126), Some(127), Some(128), None]);
            }
            F::Wildcard(f)
        }
    }
}

