//! External legs of a check (Miri, AddressSanitizer builds, fuzzers): run a command with a
//! wall-clock limit, capture its output.

use std::io::Read;
use std::process::{Command, Stdio};
use std::time::{Duration, Instant};

pub struct LegResult {
    /// None = timed out / could not start
    pub code: Option<i32>,
    pub output: String,
    pub wall: Duration,
}

pub fn run_leg(program: &str, args: &[&str], envs: &[(&str, &str)], cwd: Option<&str>, limit: Duration) -> LegResult {
    let t0 = Instant::now();
    let mut cmd = Command::new(program);
    cmd.args(args).stdin(Stdio::null()).stdout(Stdio::piped()).stderr(Stdio::piped());
    for (k, v) in envs {
        cmd.env(k, v);
    }
    if let Some(d) = cwd {
        cmd.current_dir(d);
    }
    let mut child = match cmd.spawn() {
        Ok(c) => c,
        Err(e) => {
            return LegResult { code: None, output: format!("cannot start {program}: {e}"), wall: t0.elapsed() };
        }
    };
    let mut out = child.stdout.take().unwrap();
    let mut err = child.stderr.take().unwrap();
    let h1 = std::thread::spawn(move || {
        let mut s = String::new();
        let _ = out.read_to_string(&mut s);
        s
    });
    let h2 = std::thread::spawn(move || {
        let mut s = String::new();
        let _ = err.read_to_string(&mut s);
        s
    });
    let code = loop {
        match child.try_wait() {
            Ok(Some(st)) => break st.code().or(Some(-1)),
            Ok(None) => {
                if t0.elapsed() > limit {
                    let _ = child.kill();
                    let _ = child.wait();
                    break None;
                }
                std::thread::sleep(Duration::from_millis(100));
            }
            Err(_) => break None,
        }
    };
    let mut output = h1.join().unwrap_or_default();
    output.push_str(&h2.join().unwrap_or_default());
    LegResult { code, output, wall: t0.elapsed() }
}
