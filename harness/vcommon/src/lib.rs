pub mod filter;
pub mod model;
pub mod report;
pub mod rng;
pub mod legs;
