//! Evidence collection, violation reporting, known-findings filter, exit codes.

use serde_json::{json, Map, Value};
use std::collections::{BTreeMap, BTreeSet};
use std::io::Write;
use std::path::PathBuf;
use std::time::Instant;

pub const EXIT_OK: i32 = 0;
pub const EXIT_VIOLATION: i32 = 1;
pub const EXIT_INCONCLUSIVE: i32 = 2;

#[derive(Copy, Clone, Debug, PartialEq, Eq)]
pub enum Tier {
    Quick,
    Thorough,
}

impl Tier {
    pub fn name(self) -> &'static str {
        match self {
            Tier::Quick => "quick",
            Tier::Thorough => "thorough",
        }
    }
    pub fn pick<T>(self, quick: T, thorough: T) -> T {
        match self {
            Tier::Quick => quick,
            Tier::Thorough => thorough,
        }
    }
}

#[derive(Clone, Debug)]
pub struct Args {
    pub check: String,
    pub tier: Tier,
    pub seed: u64,
    pub replay: Option<String>,
    pub jobs: usize,
    pub extra: BTreeMap<String, String>,
}

pub fn verif_root() -> PathBuf {
    PathBuf::from(std::env::var("VERIF_ROOT").unwrap_or_else(|_| "/verif".to_string()))
}

/// `<check> [--tier quick|thorough] [--seed N] [--replay path] [--jobs N] [--key value]...`
pub fn parse_args() -> Args {
    let mut it = std::env::args().skip(1);
    let check = it.next().unwrap_or_else(|| {
        eprintln!("usage: <engine> <check> [--tier quick|thorough] [--seed N] [--replay file]");
        std::process::exit(EXIT_INCONCLUSIVE);
    });
    let mut tier = match std::env::var("VERIF_TIER").ok().as_deref() {
        Some("thorough") => Tier::Thorough,
        _ => Tier::Quick,
    };
    let mut tier_explicit = false;
    let mut seed: u64 = std::env::var("VERIF_SEED")
        .ok()
        .and_then(|s| s.trim().parse::<i64>().ok())
        .map(|x| x as u64)
        .unwrap_or(1);
    let mut replay = None;
    let mut jobs = std::thread::available_parallelism()
        .map(|x| x.get())
        .unwrap_or(4)
        .min(16);
    let mut extra = BTreeMap::new();
    while let Some(a) = it.next() {
        match a.as_str() {
            "--tier" => {
                tier = match it.next().as_deref() {
                    Some("thorough") => Tier::Thorough,
                    _ => Tier::Quick,
                };
                tier_explicit = true;
            }
            "--seed" => {
                seed = it
                    .next()
                    .and_then(|s| s.parse::<i64>().ok())
                    .map(|x| x as u64)
                    .unwrap_or(seed)
            }
            "--replay" => replay = it.next(),
            "--jobs" => jobs = it.next().and_then(|s| s.parse().ok()).unwrap_or(jobs),
            x if x.starts_with("--") => {
                let v = it.next().unwrap_or_default();
                extra.insert(x[2..].to_string(), v);
            }
            _ => {}
        }
    }
    let _ = tier_explicit;
    Args {
        check,
        tier,
        seed,
        replay,
        jobs: jobs.max(1),
        extra,
    }
}

/// One refuting observation
#[derive(Clone, Debug)]
pub struct Violation {
    /// exact, space-free signature identifying the failing input / call site / history
    pub sig: String,
    /// one-line human description
    pub what: String,
    /// everything needed to re-execute the case
    pub replay: Value,
}

/// What a run observed. Mergeable so worker threads can each keep one.
#[derive(Clone, Debug, Default)]
pub struct Evidence {
    pub evaluations: u64,
    pub classes: BTreeMap<String, u64>,
    pub samples: Vec<Value>,
    pub counters: BTreeMap<String, u64>,
    pub sets: BTreeMap<String, BTreeSet<String>>,
    pub maxima: BTreeMap<String, u64>,
    pub violations: Vec<Violation>,
    pub inconclusive: Vec<String>,
}

pub const MAX_SAMPLES: usize = 6;
pub const MAX_KEPT_VIOLATIONS: usize = 64;

impl Evidence {
    pub fn new() -> Self {
        Self::default()
    }
    pub fn eval(&mut self) {
        self.evaluations += 1;
    }
    pub fn class(&mut self, key: impl Into<String>) {
        *self.classes.entry(key.into()).or_insert(0) += 1;
    }
    pub fn count(&mut self, key: &str, n: u64) {
        *self.counters.entry(key.to_string()).or_insert(0) += n;
    }
    pub fn max(&mut self, key: &str, n: u64) {
        let e = self.maxima.entry(key.to_string()).or_insert(0);
        if n > *e {
            *e = n;
        }
    }
    pub fn set(&mut self, key: &str, member: impl Into<String>) {
        let s = self.sets.entry(key.to_string()).or_default();
        if s.len() < 100_000 {
            s.insert(member.into());
        }
    }
    pub fn sample(&mut self, v: Value) {
        if self.samples.len() < MAX_SAMPLES {
            self.samples.push(v);
        }
    }
    pub fn violation(&mut self, sig: impl Into<String>, what: impl Into<String>, replay: Value) {
        let sig = sig.into();
        if self.violations.len() < MAX_KEPT_VIOLATIONS
            || !self.violations.iter().any(|v| v.sig == sig)
        {
            if self.violations.len() < 4 * MAX_KEPT_VIOLATIONS {
                self.violations.push(Violation {
                    sig,
                    what: what.into(),
                    replay,
                });
            }
        }
        self.count("violating_observations", 1);
    }
    pub fn inconclusive(&mut self, why: impl Into<String>) {
        if self.inconclusive.len() < 32 {
            self.inconclusive.push(why.into());
        }
    }
    pub fn merge(&mut self, o: Evidence) {
        self.evaluations += o.evaluations;
        for (k, v) in o.classes {
            *self.classes.entry(k).or_insert(0) += v;
        }
        for s in o.samples {
            self.sample(s);
        }
        for (k, v) in o.counters {
            *self.counters.entry(k).or_insert(0) += v;
        }
        for (k, v) in o.sets {
            let e = self.sets.entry(k).or_default();
            for m in v {
                if e.len() < 100_000 {
                    e.insert(m);
                }
            }
        }
        for (k, v) in o.maxima {
            self.max(&k, v);
        }
        self.violations.extend(o.violations);
        self.inconclusive.extend(o.inconclusive);
    }
}

impl Evidence {
    pub fn to_json(&self) -> Value {
        json!({
            "evaluations": self.evaluations,
            "classes": self.classes,
            "samples": self.samples,
            "counters": self.counters,
            "sets": self.sets.iter().map(|(k, v)| (k.clone(), v.iter().cloned().collect::<Vec<_>>())).collect::<BTreeMap<_, _>>(),
            "maxima": self.maxima,
            "violations": self.violations.iter().map(|v| json!({"sig": v.sig, "what": v.what, "replay": v.replay})).collect::<Vec<_>>(),
            "inconclusive": self.inconclusive,
        })
    }

    pub fn from_json(v: &Value) -> Evidence {
        let mut e = Evidence::new();
        e.evaluations = v["evaluations"].as_u64().unwrap_or(0);
        if let Some(m) = v["classes"].as_object() {
            for (k, x) in m {
                e.classes.insert(k.clone(), x.as_u64().unwrap_or(0));
            }
        }
        if let Some(a) = v["samples"].as_array() {
            e.samples = a.clone();
        }
        if let Some(m) = v["counters"].as_object() {
            for (k, x) in m {
                e.counters.insert(k.clone(), x.as_u64().unwrap_or(0));
            }
        }
        if let Some(m) = v["maxima"].as_object() {
            for (k, x) in m {
                e.maxima.insert(k.clone(), x.as_u64().unwrap_or(0));
            }
        }
        if let Some(m) = v["sets"].as_object() {
            for (k, x) in m {
                let s = e.sets.entry(k.clone()).or_default();
                for i in x.as_array().cloned().unwrap_or_default() {
                    if let Some(t) = i.as_str() {
                        s.insert(t.to_string());
                    }
                }
            }
        }
        if let Some(a) = v["violations"].as_array() {
            for x in a {
                e.violations.push(Violation {
                    sig: x["sig"].as_str().unwrap_or("?").to_string(),
                    what: x["what"].as_str().unwrap_or("").to_string(),
                    replay: x["replay"].clone(),
                });
            }
        }
        if let Some(a) = v["inconclusive"].as_array() {
            for x in a {
                if let Some(t) = x.as_str() {
                    e.inconclusive.push(t.to_string());
                }
            }
        }
        e
    }
}

pub struct Meta {
    pub property_id: &'static str,
    pub level: &'static str,
    pub rule: String,
    pub assumptions: Vec<String>,
    pub exhaustive: Option<bool>,
    /// the run is inconclusive (exit 2) unless each named counter reaches its floor
    pub floors: Vec<(String, u64)>,
    /// minimum number of distinct classes
    pub min_classes: u64,
}

struct Known {
    findings: Vec<(String, String, String)>, // property, sig, text
}

fn load_known() -> Known {
    let path = verif_root().join("known_findings.txt");
    let mut findings = vec![];
    if let Ok(text) = std::fs::read_to_string(path) {
        for line in text.lines() {
            let line = line.trim();
            if let Some(rest) = line.strip_prefix("finding:") {
                let mut prop = String::new();
                let mut sig = String::new();
                let mut text = vec![];
                for tok in rest.split_whitespace() {
                    if let Some(p) = tok.strip_prefix("property=") {
                        if prop.is_empty() {
                            prop = p.to_string();
                            continue;
                        }
                    }
                    if let Some(s) = tok.strip_prefix("sig=") {
                        if sig.is_empty() {
                            sig = s.to_string();
                            continue;
                        }
                    }
                    text.push(tok);
                }
                if !prop.is_empty() && !sig.is_empty() {
                    findings.push((prop, sig, text.join(" ")));
                }
            }
        }
    }
    Known { findings }
}

/// Write evidence, print VIOLATION / KNOWN-FINDING lines, return the exit code.
pub fn finish(args: &Args, meta: Meta, ev: Evidence, started: Instant) -> i32 {
    let known = load_known();
    let root = verif_root();
    let mut new_violations: Vec<&Violation> = vec![];
    let mut known_hit: BTreeMap<String, (String, u64)> = BTreeMap::new();
    for v in &ev.violations {
        if let Some((_, sig, text)) = known
            .findings
            .iter()
            .find(|(p, s, _)| p == meta.property_id && *s == v.sig)
        {
            let e = known_hit
                .entry(sig.clone())
                .or_insert_with(|| (text.clone(), 0));
            e.1 += 1;
        } else {
            new_violations.push(v);
        }
    }

    for (sig, (text, n)) in &known_hit {
        println!(
            "KNOWN-FINDING: property={} sig={} {} (observed {} time(s) in this run)",
            meta.property_id, sig, text, n
        );
    }

    let mut printed: BTreeSet<String> = BTreeSet::new();
    let replay_dir = root.join("out").join("replay");
    let _ = std::fs::create_dir_all(&replay_dir);
    let mut n = 0;
    for v in &new_violations {
        if !printed.insert(v.sig.clone()) {
            continue;
        }
        if n >= 20 {
            break;
        }
        let path = replay_dir.join(format!(
            "{}-{}-{}-{}.json",
            meta.property_id,
            args.tier.name(),
            args.seed,
            n
        ));
        let doc = json!({
            "property": meta.property_id,
            "check": args.check,
            "sig": v.sig,
            "what": v.what,
            "seed": args.seed,
            "tier": args.tier.name(),
            "case": v.replay,
        });
        let _ = std::fs::write(&path, serde_json::to_string_pretty(&doc).unwrap());
        println!("  violation: sig={} :: {}", v.sig, v.what);
        println!(
            "VIOLATION property={} replay={}",
            meta.property_id,
            path.display()
        );
        n += 1;
    }

    // inconclusive conditions
    let mut inconclusive = ev.inconclusive.clone();
    for (k, floor) in &meta.floors {
        let got = match k.strip_prefix("distinct_") {
            Some(set) if ev.sets.contains_key(set) => ev.sets[set].len() as u64,
            _ => ev.counters.get(k).copied().unwrap_or(0),
        };
        if got < *floor {
            inconclusive.push(format!("counter {k}={got} below floor {floor}"));
        }
    }
    let distinct = ev.classes.len() as u64;
    if distinct < meta.min_classes.max(2) {
        inconclusive.push(format!(
            "only {distinct} distinct classes observed (floor {})",
            meta.min_classes.max(2)
        ));
    }
    if ev.evaluations == 0 {
        inconclusive.push("no evaluations".to_string());
    }

    // evidence
    let mut cov = Map::new();
    cov.insert("evaluations".into(), json!(ev.evaluations));
    cov.insert("distinct_nontrivial".into(), json!(distinct));
    cov.insert("rule".into(), json!(meta.rule));
    let mut samples = ev.samples.clone();
    if samples.is_empty() {
        // every check records concrete cases; if none of the sampled slots was hit in this run
        // fall back to the observed class keys themselves (each is a case that was executed)
        for (k, v) in ev.classes.iter().take(4) {
            samples.push(json!({"observed_case_class": k, "times": v}));
        }
    }
    cov.insert("samples".into(), Value::Array(samples));
    if let Some(x) = meta.exhaustive {
        cov.insert("exhaustive".into(), json!(x));
    }
    // at most 400 class keys are written out: evenly spaced over the sorted key space when there are
    // more (not the first 400, which would hide whole dimensions); `class_groups` always gives the
    // complete picture, aggregated by the first two fields of the key
    let mut classes = Map::new();
    let total = ev.classes.len();
    let step = (total + 399) / 400;
    for (i, (k, v)) in ev.classes.iter().enumerate() {
        if step <= 1 || i % step == 0 {
            classes.insert(k.clone(), json!(v));
        }
    }
    cov.insert("classes_total".into(), json!(total));
    cov.insert("classes_listed".into(), json!(classes.len()));
    cov.insert("classes".into(), Value::Object(classes));
    let mut groups: std::collections::BTreeMap<String, (u64, u64)> = Default::default();
    for (k, v) in ev.classes.iter() {
        let prefix = k.split('|').take(2).collect::<Vec<_>>().join("|");
        let g = groups.entry(prefix).or_default();
        g.0 += 1;
        g.1 += *v as u64;
    }
    let mut gmap = Map::new();
    for (k, (n, c)) in groups.into_iter().take(600) {
        gmap.insert(k, json!({"classes": n, "observations": c}));
    }
    cov.insert("class_groups".into(), Value::Object(gmap));
    let mut counters = Map::new();
    for (k, v) in &ev.counters {
        counters.insert(k.clone(), json!(v));
    }
    for (k, v) in &ev.maxima {
        counters.insert(format!("max_{k}"), json!(v));
    }
    for (k, v) in &ev.sets {
        counters.insert(format!("distinct_{k}"), json!(v.len()));
    }
    cov.insert("observed".into(), Value::Object(counters));
    cov.insert(
        "known_findings_observed".into(),
        json!(known_hit
            .iter()
            .map(|(k, v)| json!({"sig": k, "count": v.1}))
            .collect::<Vec<_>>()),
    );
    if !inconclusive.is_empty() {
        cov.insert("inconclusive".into(), json!(inconclusive));
    }
    let doc = json!({
        "property_id": meta.property_id,
        "tier": args.tier.name(),
        "seed": args.seed as i64,
        "level": meta.level,
        "coverage": Value::Object(cov),
        "assumptions": meta.assumptions,
        "wall_s": started.elapsed().as_secs_f64(),
        "violations": printed.len(),
    });
    let evdir = root.join("evidence");
    let _ = std::fs::create_dir_all(&evdir);
    let path = evdir.join(format!("{}.json", meta.property_id));
    if let Err(e) = std::fs::write(&path, serde_json::to_string_pretty(&doc).unwrap() + "\n") {
        eprintln!("cannot write evidence {}: {e}", path.display());
        return EXIT_INCONCLUSIVE;
    }

    println!(
        "{} {} seed={} evaluations={} distinct_classes={} violations={} known={} wall={:.1}s",
        meta.property_id,
        args.tier.name(),
        args.seed,
        ev.evaluations,
        distinct,
        printed.len(),
        known_hit.len(),
        started.elapsed().as_secs_f64()
    );
    let _ = std::io::stdout().flush();

    if !printed.is_empty() {
        EXIT_VIOLATION
    } else if !inconclusive.is_empty() {
        for i in &inconclusive {
            println!("INCONCLUSIVE: {i}");
        }
        EXIT_INCONCLUSIVE
    } else {
        EXIT_OK
    }
}

/// hex dump helper for samples / replays
pub fn hex(bytes: &[u8]) -> String {
    let mut s = String::with_capacity(bytes.len() * 2);
    for b in bytes {
        s.push_str(&format!("{b:02x}"));
    }
    s
}

pub fn unhex(s: &str) -> Vec<u8> {
    let s: Vec<u8> = s.bytes().filter(|b| b.is_ascii_hexdigit()).collect();
    s.chunks(2)
        .filter(|c| c.len() == 2)
        .map(|c| u8::from_str_radix(std::str::from_utf8(c).unwrap(), 16).unwrap())
        .collect()
}
