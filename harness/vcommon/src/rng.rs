//! Deterministic PRNG (splitmix64 seeding + xoshiro256**). No external crates.

#[derive(Clone, Debug)]
pub struct Rng {
    s: [u64; 4],
}

fn splitmix(x: &mut u64) -> u64 {
    *x = x.wrapping_add(0x9E37_79B9_7F4A_7C15);
    let mut z = *x;
    z = (z ^ (z >> 30)).wrapping_mul(0xBF58_476D_1CE4_E5B9);
    z = (z ^ (z >> 27)).wrapping_mul(0x94D0_49BB_1331_11EB);
    z ^ (z >> 31)
}

impl Rng {
    pub fn new(seed: u64) -> Self {
        let mut x = seed;
        let s = [
            splitmix(&mut x),
            splitmix(&mut x),
            splitmix(&mut x),
            splitmix(&mut x),
        ];
        Rng { s }
    }

    /// derive an independent generator for sub-case `n`
    pub fn sub(seed: u64, stream: u64, n: u64) -> Self {
        let mut x = seed ^ stream.wrapping_mul(0xD6E8_FEB8_6659_FD93);
        let a = splitmix(&mut x);
        let mut y = a ^ n.wrapping_mul(0xA076_1D64_78BD_642F);
        Rng::new(splitmix(&mut y))
    }

    pub fn next_u64(&mut self) -> u64 {
        let result = self.s[1].wrapping_mul(5).rotate_left(7).wrapping_mul(9);
        let t = self.s[1] << 17;
        self.s[2] ^= self.s[0];
        self.s[3] ^= self.s[1];
        self.s[1] ^= self.s[2];
        self.s[0] ^= self.s[3];
        self.s[2] ^= t;
        self.s[3] = self.s[3].rotate_left(45);
        result
    }

    pub fn u8(&mut self) -> u8 {
        (self.next_u64() >> 32) as u8
    }

    pub fn u16(&mut self) -> u16 {
        (self.next_u64() >> 32) as u16
    }

    /// uniform in 0..n (n > 0)
    pub fn below(&mut self, n: u64) -> u64 {
        assert!(n > 0);
        // multiply-shift; bias is irrelevant for our purposes
        ((self.next_u64() as u128 * n as u128) >> 64) as u64
    }

    pub fn usize_below(&mut self, n: usize) -> usize {
        self.below(n as u64) as usize
    }

    /// uniform in lo..=hi
    pub fn range(&mut self, lo: u64, hi: u64) -> u64 {
        assert!(lo <= hi);
        lo + self.below(hi - lo + 1)
    }

    /// true with probability num/den
    pub fn chance(&mut self, num: u64, den: u64) -> bool {
        self.below(den) < num
    }

    pub fn pick<'a, T>(&mut self, items: &'a [T]) -> &'a T {
        &items[self.usize_below(items.len())]
    }

    pub fn bytes(&mut self, n: usize) -> Vec<u8> {
        let mut v = Vec::with_capacity(n);
        while v.len() < n {
            let x = self.next_u64().to_le_bytes();
            let take = (n - v.len()).min(8);
            v.extend_from_slice(&x[..take]);
        }
        v
    }

    pub fn shuffle<T>(&mut self, items: &mut [T]) {
        for i in (1..items.len()).rev() {
            let j = self.usize_below(i + 1);
            items.swap(i, j);
        }
    }
}

/// stateless hash used for pure functions of (seed, a, b, c)
pub fn hash4(seed: u64, a: u64, b: u64, c: u64) -> u64 {
    let mut x = seed ^ a.wrapping_mul(0x9E37_79B9_7F4A_7C15);
    let h1 = splitmix(&mut x);
    let mut y = h1 ^ b.wrapping_mul(0xC2B2_AE3D_27D4_EB4F);
    let h2 = splitmix(&mut y);
    let mut z = h2 ^ c.wrapping_mul(0x1656_67B1_9E37_79F9);
    splitmix(&mut z)
}
