//! TLS: real rodbus TLS endpoints against an independent peer (CPython ssl / OpenSSL).
//! C09 (grid) and the TLS variants of C16.

use crate::c16::{gen_filter, gen_source, F};
use rodbus::client::*;
use rodbus::server::*;
use rodbus::*;
use serde_json::{json, Value};
use std::net::{IpAddr, Ipv4Addr, SocketAddr};
use std::path::PathBuf;
use std::sync::{Arc, Mutex};
use std::time::{Duration, Instant};
use vcommon::report::*;
use vcommon::rng::Rng;

pub fn fixture(name: &str) -> PathBuf {
    verif_root().join("fixtures").join("pki").join(name)
}

fn peer_script() -> PathBuf {
    verif_root().join("peers").join("tls_peer.py")
}

/// run the python peer to completion, return its JSON line
pub async fn run_peer(args: Vec<String>) -> Value {
    tokio::task::spawn_blocking(move || {
        let out = std::process::Command::new("python3")
            .arg(peer_script())
            .args(&args)
            .stdin(std::process::Stdio::null())
            .output();
        match out {
            Err(e) => json!({"spawn_error": e.to_string()}),
            Ok(o) => {
                let text = String::from_utf8_lossy(&o.stdout);
                let last = text.lines().rev().find(|l| l.trim_start().starts_with('{')).unwrap_or("{}");
                serde_json::from_str(last).unwrap_or(json!({"parse_error": text.to_string(), "stderr": String::from_utf8_lossy(&o.stderr).to_string()}))
            }
        }
    })
    .await
    .unwrap_or(json!({"join_error": true}))
}

pub struct PeerServer {
    child: std::process::Child,
    rest: std::thread::JoinHandle<String>,
}

/// start the python peer as a server; returns it and its port once it is listening
pub async fn start_peer_server(args: Vec<String>) -> Option<(PeerServer, u16)> {
    tokio::task::spawn_blocking(move || {
        use std::io::{BufRead, BufReader};
        let mut child = std::process::Command::new("python3")
            .arg(peer_script())
            .arg("server")
            .args(&args)
            .stdin(std::process::Stdio::null())
            .stdout(std::process::Stdio::piped())
            .stderr(std::process::Stdio::null())
            .spawn()
            .ok()?;
        let stdout = child.stdout.take()?;
        let mut reader = BufReader::new(stdout);
        let mut first = String::new();
        reader.read_line(&mut first).ok()?;
        let port: u16 = first.trim().strip_prefix("LISTENING ")?.trim().parse().ok()?;
        let rest = std::thread::spawn(move || {
            let mut last = String::new();
            for l in reader.lines().map_while(Result::ok) {
                if l.trim_start().starts_with('{') {
                    last = l;
                }
            }
            last
        });
        Some((PeerServer { child, rest }, port))
    })
    .await
    .ok()?
}

pub async fn finish_peer_server(mut peer: PeerServer) -> Value {
    tokio::task::spawn_blocking(move || {
        let t0 = Instant::now();
        loop {
            match peer.child.try_wait() {
                Ok(Some(_)) => break,
                Ok(None) if t0.elapsed() > Duration::from_secs(20) => {
                    let _ = peer.child.kill();
                    let _ = peer.child.wait();
                    break;
                }
                Ok(None) => std::thread::sleep(Duration::from_millis(20)),
                Err(_) => break,
            }
        }
        let s = peer.rest.join().unwrap_or_default();
        serde_json::from_str(&s).unwrap_or(json!({"parse_error": s}))
    })
    .await
    .unwrap_or(json!({}))
}

/// application handler that records every write it is asked to perform
pub struct Recording {
    pub writes: Arc<Mutex<Vec<(u16, u16)>>>,
}
impl RequestHandler for Recording {
    fn read_holding_register(&self, _a: u16) -> Result<u16, ExceptionCode> {
        Ok(0x1234)
    }
    fn write_single_register(&mut self, v: Indexed<u16>) -> Result<(), ExceptionCode> {
        self.writes.lock().unwrap().push((v.index, v.value));
        Ok(())
    }
    fn write_multiple_registers(&mut self, v: WriteRegisters) -> Result<(), ExceptionCode> {
        let mut w = self.writes.lock().unwrap();
        for x in v.iterator {
            w.push((x.index, x.value));
        }
        Ok(())
    }
}

/// authorization handler that allows everything and records the role it was given
pub struct RoleRecorder {
    pub roles: Arc<Mutex<Vec<String>>>,
}
impl AuthorizationHandler for RoleRecorder {
    fn read_holding_registers(&self, _u: UnitId, _r: AddressRange, role: &str) -> Authorization {
        self.roles.lock().unwrap().push(role.to_string());
        Authorization::Allow
    }
    fn write_single_register(&self, _u: UnitId, _i: u16, role: &str) -> Authorization {
        self.roles.lock().unwrap().push(role.to_string());
        Authorization::Allow
    }
}

pub struct TlsServer {
    pub handle: ServerHandle,
    pub addr: SocketAddr,
    pub writes: Arc<Mutex<Vec<(u16, u16)>>>,
    pub roles: Arc<Mutex<Vec<String>>>,
    pub task: tokio::task::JoinHandle<()>,
}

pub async fn start_tls_server(self_signed: bool, min13: bool, authz: bool, filter: AddressFilter) -> Result<TlsServer, String> {
    start_tls_server_expecting(self_signed, min13, authz, filter, "ss_client").await
}

/// `expected_peer`: in self-signed mode, the fixture name of the one client certificate the server accepts
pub async fn start_tls_server_expecting(self_signed: bool, min13: bool, authz: bool, filter: AddressFilter, expected_peer: &str) -> Result<TlsServer, String> {
    start_tls_server_bound("127.0.0.1:0", self_signed, min13, authz, filter, expected_peer).await
}

/// the same server listening on `bind` (e.g. "[::1]:0")
pub async fn start_tls_server_bound(bind: &str, self_signed: bool, min13: bool, authz: bool, filter: AddressFilter, expected_peer: &str) -> Result<TlsServer, String> {
    let (peer, local, key) = if self_signed {
        (fixture(&format!("{expected_peer}.cert.pem")), fixture("ss_server.cert.pem"), fixture("ss_server.key.pem"))
    } else {
        (fixture("ca1.cert.pem"), fixture("server_valid.cert.pem"), fixture("server_valid.key.pem"))
    };
    let cfg = TlsServerConfig::new(
        &peer,
        &local,
        &key,
        None,
        if min13 { MinTlsVersion::V1_3 } else { MinTlsVersion::V1_2 },
        if self_signed { CertificateMode::SelfSigned } else { CertificateMode::AuthorityBased },
    )
    .map_err(|e| format!("TlsServerConfig: {e}"))?;
    let writes = Arc::new(Mutex::new(vec![]));
    let roles = Arc::new(Mutex::new(vec![]));
    let map = ServerHandlerMap::single(UnitId::new(1), Recording { writes: writes.clone() }.wrap());
    let listener = tokio::net::TcpListener::bind(bind).await.map_err(|e| e.to_string())?;
    let addr = listener.local_addr().unwrap();
    let (handle, task) = if authz {
        create_tls_server_task_with_authz(8, listener, map, Arc::new(RoleRecorder { roles: roles.clone() }), cfg, filter, DecodeLevel::nothing())
    } else {
        create_tls_server_task(8, listener, map, cfg, filter, DecodeLevel::nothing())
    };
    let task = tokio::spawn(task.run());
    Ok(TlsServer { handle, addr, writes, roles, task })
}

fn s(x: &str) -> String {
    x.to_string()
}

fn p(x: PathBuf) -> String {
    x.display().to_string()
}

/// Modbus write single register (unit 1, address 7, value 0xBEEF), transaction 0x0909
pub const WRITE_REQ_HEX: &str = "090900000006010600 07beef";

fn write_req_hex() -> String {
    WRITE_REQ_HEX.replace(' ', "")
}

fn is_modbus_reply(v: &Value) -> bool {
    v["reply_hex"].as_str().map(|h| h.starts_with("0909000000060106")).unwrap_or(false)
}

// ------------------------------------------------------------------------------------------
// C16: TLS and TLS+authz variants of the address filter
// ------------------------------------------------------------------------------------------

pub fn c16_tls(args: &Args, rt: &tokio::runtime::Runtime, ev: &mut Evidence) {
    let seed = args.seed;
    let nfilters = args.tier.pick(12u64, 60);
    let nsrc = args.tier.pick(4usize, 8);
    let results = rt.block_on(async {
        let mut hs = vec![];
        for i in 0..nfilters {
            hs.push(tokio::spawn(async move {
                let mut ev = Evidence::new();
                let mut rng = Rng::sub(seed, 2116, i);
                let mut sources: Vec<Ipv4Addr> = (0..nsrc).map(|_| gen_source(&mut rng)).collect();
                sources.push(Ipv4Addr::new(127, 0, 0, 1));
                let f = loop {
                    let f = vcommon::filter::gen_filter_indexed(&mut rng, &sources, i);
                    // keep a mix, avoid spending every server on Any
                    if !matches!(f, F::Any) || i % 5 == 0 {
                        break f;
                    }
                };
                let authz = i % 2 == 1;
                let Some(filter) = crate::c16::to_rodbus(&f) else { return ev };
                let srv = match start_tls_server(false, false, authz, filter).await {
                    Ok(s) => s,
                    Err(e) => {
                        ev.inconclusive(format!("cannot start TLS server: {e}"));
                        return ev;
                    }
                };
                let variant = if authz { "tls_authz" } else { "tls" };
                for src in &sources {
                    let want = f.matches(IpAddr::V4(*src));
                    // probe 1: no TLS at all, just read: a refused peer sees EOF with zero bytes,
                    // an admitted one sees the server waiting for its ClientHello
                    let raw = run_peer(vec![s("raw"), s("--port"), srv.addr.port().to_string(), s("--src"), src.to_string(), s("--wait"), s("0.7")]).await;
                    // probe 2: full handshake with a valid certificate + one Modbus write
                    let tls = run_peer(vec![
                        s("client"), s("--port"), srv.addr.port().to_string(), s("--src"), src.to_string(),
                        s("--ca"), p(fixture("ca1.cert.pem")), s("--cert"), p(fixture("client_operator.cert.pem")), s("--key"), p(fixture("client_operator.key.pem")),
                        s("--servername"), s("test.server"), s("--send"), write_req_hex(), s("--wait"), s("2"),
                    ]).await;
                    if raw["error"].as_str().map(|e| e.starts_with("connect")).unwrap_or(false) {
                        ev.count("source_unusable:bind_or_connect", 1);
                        continue;
                    }
                    ev.eval();
                    ev.count("tls_connections_observed", 2);
                    let raw_end = raw["read_end"].as_str().unwrap_or("?").to_string();
                    let raw_bytes = raw["reply_hex"].as_str().unwrap_or("").len() / 2;
                    let served = is_modbus_reply(&tls);
                    ev.class(format!("{variant}|rust_api|{}|v4|{}", f.class(), if want { "match" } else { "no_match" }));
                    let rep = json!({"filter": format!("{f:?}"), "source": src.to_string(), "variant": variant, "raw": raw, "tls": tls});
                    if want {
                        if !served {
                            ev.violation(format!("{variant}:rust_api:{}:matching_peer_not_served", f.class()), format!("filter {f:?} matches {src} but the TLS peer got no Modbus reply: {tls}"), rep.clone());
                        }
                        if raw_end == "eof" {
                            ev.violation(format!("{variant}:rust_api:{}:matching_peer_closed_before_handshake", f.class()), format!("filter {f:?} matches {src} but the server closed the connection immediately"), rep.clone());
                        }
                    } else {
                        if served {
                            ev.violation(format!("{variant}:rust_api:{}:non_matching_peer_served", f.class()), format!("filter {f:?} does not match {src} but the peer completed a handshake and got a Modbus reply"), rep.clone());
                        }
                        if !(raw_end == "eof" && raw_bytes == 0) {
                            ev.violation(format!("{variant}:rust_api:{}:non_matching_peer_not_closed_silently", f.class()), format!("filter {f:?} does not match {src}: expected EOF before any byte, got end={raw_end} bytes={raw_bytes}"), rep.clone());
                        }
                        if tls["handshake"] == "ok" && tls["version"].is_string() && tls["reply_hex"].as_str().map(|h| !h.is_empty()).unwrap_or(false) {
                            ev.violation(format!("{variant}:rust_api:{}:non_matching_peer_received_bytes", f.class()), "a refused peer received application bytes".to_string(), rep.clone());
                        }
                    }
                }
                if !srv.writes.lock().unwrap().iter().all(|w| *w == (7, 0xBEEF)) {
                    ev.violation(format!("{variant}:handler_saw_unexpected_write"), "unexpected write".to_string(), json!({}));
                }
                drop(srv.handle);
                let _ = tokio::time::timeout(Duration::from_secs(5), srv.task).await;
                ev
            }));
        }
        let mut out = vec![];
        for h in hs {
            if let Ok(e) = h.await {
                out.push(e);
            }
        }
        out
    });
    for e in results {
        ev.merge(e);
    }
    // an IPv6 peer (::1) against TLS and TLS+authz servers listening on ::1
    let v6 = IpAddr::V6(std::net::Ipv6Addr::LOCALHOST);
    let filters = vec![
        F::Wildcard([None, None, None, None]),
        F::Wildcard([Some(127), None, None, None]),
        F::Exact(IpAddr::V4(Ipv4Addr::LOCALHOST)),
        F::Exact(v6),
        F::AnyOf(vec![IpAddr::V4(Ipv4Addr::new(127, 0, 0, 9)), v6]),
        F::AnyOf(vec![IpAddr::V4(Ipv4Addr::new(127, 0, 0, 9)), IpAddr::V6(std::net::Ipv6Addr::new(0, 0, 0, 0, 0, 0, 0, 2))]),
        F::Any,
    ];
    let results = rt.block_on(async {
        let mut hs = vec![];
        for f in filters {
            for authz in [false, true] {
                let f = f.clone();
                hs.push(tokio::spawn(async move {
                    let mut ev = Evidence::new();
                    let Some(filter) = crate::c16::to_rodbus(&f) else { return ev };
                    let srv = match start_tls_server_bound("[::1]:0", false, false, authz, filter, "ss_client").await {
                        Ok(s) => s,
                        Err(_) => {
                            ev.count("ipv6_loopback_unavailable", 1);
                            return ev;
                        }
                    };
                    let variant = if authz { "tls_authz" } else { "tls" };
                    let want = f.matches(v6);
                    let raw = run_peer(vec![s("raw"), s("--host"), s("::1"), s("--port"), srv.addr.port().to_string(), s("--wait"), s("0.7")]).await;
                    let tls = run_peer(vec![
                        s("client"), s("--host"), s("::1"), s("--port"), srv.addr.port().to_string(),
                        s("--ca"), p(fixture("ca1.cert.pem")), s("--cert"), p(fixture("client_operator.cert.pem")), s("--key"), p(fixture("client_operator.key.pem")),
                        s("--servername"), s("test.server"), s("--send"), write_req_hex(), s("--wait"), s("2"),
                    ]).await;
                    if raw["error"].as_str().map(|e| e.starts_with("connect")).unwrap_or(false) {
                        ev.count("ipv6_loopback_unavailable", 1);
                        return ev;
                    }
                    ev.eval();
                    ev.count("tls_connections_observed", 2);
                    ev.count("tls_ipv6_connections_observed", 2);
                    let raw_end = raw["read_end"].as_str().unwrap_or("?").to_string();
                    let raw_bytes = raw["reply_hex"].as_str().unwrap_or("").len() / 2;
                    let served = is_modbus_reply(&tls);
                    ev.class(format!("{variant}|rust_api|{}|v6|{}", f.class(), if want { "match" } else { "no_match" }));
                    let rep = json!({"filter": format!("{f:?}"), "source": "::1", "variant": variant, "raw": raw, "tls": tls});
                    if want && (!served || raw_end == "eof") {
                        ev.violation(format!("{variant}:rust_api:{}:v6:matching_peer_not_served", f.class()), format!("filter {f:?} matches ::1 but the TLS peer got no Modbus reply (plain connection ended with {raw_end})"), rep.clone());
                    } else if !want && (served || !(raw_end == "eof" && raw_bytes == 0)) {
                        ev.violation(format!("{variant}:rust_api:{}:v6:non_matching_peer_{}", f.class(), if served { "served" } else { "not_closed_silently" }), format!("filter {f:?} does not match ::1: served={served}, plain connection end={raw_end} bytes={raw_bytes}"), rep.clone());
                    }
                    drop(srv.handle);
                    let _ = tokio::time::timeout(Duration::from_secs(5), srv.task).await;
                    ev
                }));
            }
        }
        let mut out = vec![];
        for h in hs {
            if let Ok(e) = h.await {
                out.push(e);
            }
        }
        out
    });
    for e in results {
        ev.merge(e);
    }
}

// ------------------------------------------------------------------------------------------
// C09: the grid
// ------------------------------------------------------------------------------------------

#[derive(Copy, Clone, Debug, PartialEq, Eq)]
enum Cert {
    Valid,
    WrongAuthority,
    WrongName,
    Expired,
    NotYetValid,
    RoleLess,
    OtherRole,
    /// two Modbus role extensions with different roles (fixtures/pki/mint_extra.py)
    TwoRoles,
    /// two Modbus role extensions carrying the same role (authority mode only)
    TwoRolesSame,
    /// authority mode: a client certificate WITHOUT a role, issued by an intermediate authority that
    /// itself carries a role extension; the client presents leaf + intermediate (fixtures/pki/mint_chain.py)
    ChainLeafNoRole,
    /// ... and a leaf with the role "viewer" under the same intermediate (whose own role is "operator")
    ChainLeafViewer,
    /// client role, authority mode, expected server name is the IP literal "127.0.0.1":
    /// the certificate's only subjectAltName is IP:127.0.0.1
    IpNameMatch,
    /// ... the certificate only carries DNS:test.server
    IpNameDnsOnlyCert,
    /// ... the certificate carries IP:10.9.8.7
    IpNameOtherIp,
}

const OFFERS: [(&str, &str, &str); 3] = [("1.2", "1.2", "tls12_only"), ("1.3", "1.3", "tls13_only"), ("1.2", "1.3", "both")];

struct StateLog {
    tx: tokio::sync::mpsc::UnboundedSender<ClientState>,
}
impl Listener<ClientState> for StateLog {
    fn update(&mut self, v: ClientState) -> MaybeAsync<()> {
        let _ = self.tx.send(v);
        MaybeAsync::ready(())
    }
}

/// rodbus as TLS server, python as client presenting `cert`
async fn cell_server(min13: bool, self_signed: bool, authz: bool, offer: (&'static str, &'static str, &'static str), cert: Cert) -> Evidence {
    let mut ev = Evidence::new();
    // in self-signed mode the two-role certificate is the configured (byte-identical) one, so that only
    // the role extraction can refuse it
    // ... and likewise for the validity and role cells: the server is configured with the very certificate
    // the peer presents, so that what is wrong with it is its validity period / its role, not its identity
    // ("a byte-identical match of the configured self-signed certificate, within its validity period")
    let expected_peer = match cert {
        Cert::TwoRoles => "ss_client_tworoles",
        Cert::Expired => "ss_client_expired",
        Cert::NotYetValid => "ss_client_not_yet",
        Cert::RoleLess => "ss_client_norole",
        Cert::OtherRole => "ss_client_viewer",
        _ => "ss_client",
    };
    let srv = match start_tls_server_expecting(self_signed, min13, authz, AddressFilter::Any, expected_peer).await {
        Ok(s) => s,
        Err(e) => {
            ev.inconclusive(format!("cannot start TLS server: {e}"));
            return ev;
        }
    };
    // which client certificate does the peer present?
    let (c, k) = match (self_signed, cert) {
        (false, Cert::Valid) => ("client_operator", "client_operator"),
        (false, Cert::OtherRole) => ("client_viewer", "client_viewer"),
        (false, Cert::RoleLess) => ("client_norole", "client_norole"),
        (false, Cert::TwoRoles) => ("client_tworoles", "client_tworoles"),
        (false, Cert::TwoRolesSame) => ("client_tworoles_same", "client_tworoles_same"),
        (true, Cert::TwoRoles) => ("ss_client_tworoles", "ss_client_tworoles"),
        (true, Cert::TwoRolesSame) => return ev,
        (false, Cert::ChainLeafNoRole) => ("client_chain_norole", "client_chain_norole"),
        (false, Cert::ChainLeafViewer) => ("client_chain_viewer", "client_chain_viewer"),
        (true, Cert::ChainLeafNoRole) | (true, Cert::ChainLeafViewer) => return ev,
        (false, Cert::WrongAuthority) => ("client_wrong_ca", "client_wrong_ca"),
        (false, Cert::Expired) => ("client_expired", "client_expired"),
        (false, Cert::NotYetValid) => ("client_not_yet", "client_not_yet"),
        (true, Cert::Valid) => ("ss_client", "ss_client"),
        (true, Cert::WrongAuthority) => ("ss_client_other", "ss_client_other"),
        // (WrongAuthority: the server is configured with ss_client and the peer presents another certificate)
        (true, Cert::OtherRole) => ("ss_client_viewer", "ss_client_viewer"),
        (true, Cert::RoleLess) => ("ss_client_norole", "ss_client_norole"),
        (true, Cert::Expired) => ("ss_client_expired", "ss_client_expired"),
        (true, Cert::NotYetValid) => ("ss_client_not_yet", "ss_client_not_yet"),
        // name checks are a client-side matter
        (_, Cert::WrongName) | (_, Cert::IpNameMatch) | (_, Cert::IpNameDnsOnlyCert) | (_, Cert::IpNameOtherIp) => return ev,
    };
    let ca = if self_signed { "ss_server.cert.pem" } else { "ca1.cert.pem" };
    let res = run_peer(vec![
        s("client"), s("--port"), srv.addr.port().to_string(),
        s("--ca"), p(fixture(ca)), s("--cert"), p(fixture(&format!("{c}.cert.pem"))), s("--key"), p(fixture(&format!("{k}.key.pem"))),
        s("--min"), s(offer.0), s("--max"), s(offer.1),
        s("--servername"), s(if self_signed { "ss.server" } else { "test.server" }),
        s("--send"), write_req_hex(), s("--wait"), s("2"),
    ]).await;
    // and raw Modbus bytes with no TLS at all
    let raw = run_peer(vec![s("raw"), s("--port"), srv.addr.port().to_string(), s("--send"), write_req_hex(), s("--wait"), s("0.5")]).await;
    tokio::time::sleep(Duration::from_millis(50)).await;

    // truth table
    let min = if min13 { 13 } else { 12 };
    let offers_ok = match offer.2 {
        "tls12_only" => min <= 12,
        _ => true,
    };
    // in self-signed mode the only acceptable certificate is the configured one, byte for byte
    let cert_ok = match (self_signed, cert) {
        (false, Cert::Valid) | (false, Cert::OtherRole) | (false, Cert::ChainLeafViewer) => true,
        // the role is the client certificate's own: an authority's extension is not the peer's role
        (false, Cert::ChainLeafNoRole) => !authz,
        // without an authorization handler the role is never looked at; with one, "exactly the single
        // role extension" means none and two are both refused
        (false, Cert::RoleLess) | (false, Cert::TwoRoles) | (false, Cert::TwoRolesSame) | (true, Cert::TwoRoles) => !authz,
        (true, Cert::Valid) | (true, Cert::OtherRole) => true,
        (true, Cert::RoleLess) => !authz,
        _ => false,
    };
    let admit = offers_ok && cert_ok;
    let want_version = if offer.2 == "tls12_only" { "TLSv1.2" } else { "TLSv1.3" };
    let served = is_modbus_reply(&res);
    let writes = srv.writes.lock().unwrap().clone();
    let roles = srv.roles.lock().unwrap().clone();
    let cell = format!(
        "rodbus_server|min{}|{}|{}|peer_offers_{}|cert_{:?}",
        if min13 { "1.3" } else { "1.2" },
        if self_signed { "self_signed" } else { "authority" },
        if authz { "authz" } else { "no_authz" },
        offer.2,
        cert
    );
    ev.eval();
    ev.count("handshakes_attempted", 1);
    ev.class(format!("{cell}|{}", if admit { "admit" } else { "refuse" }));
    let rep = json!({"cell": cell, "peer": res, "raw_peer": raw, "writes_seen_by_handler": writes.len(), "roles": roles});
    if admit {
        if !served {
            ev.violation(format!("{cell}:valid_peer_refused"), format!("a valid peer offering {} was not admitted: {}", offer.2, res), rep.clone());
        } else {
            ev.count("admitted_as_expected", 1);
            if res["version"].as_str() != Some(want_version) {
                ev.violation(format!("{cell}:negotiated_{}", res["version"].as_str().unwrap_or("none")), format!("negotiated {} but the highest common version is {want_version}", res["version"]), rep.clone());
            }
            if writes != vec![(7, 0xBEEF)] {
                ev.violation(format!("{cell}:write_not_delivered_once"), format!("the admitted peer's write reached the handler {} times", writes.len()), rep.clone());
            }
            if authz {
                let want_role = if cert == Cert::OtherRole || cert == Cert::ChainLeafViewer { "viewer" } else { "operator" };
                if roles != vec![want_role.to_string()] {
                    ev.violation(format!("{cell}:role_delivered_{:?}", roles), format!("the authorization handler received roles {roles:?}, the certificate carries {want_role:?}"), rep.clone());
                } else {
                    ev.count("roles_checked", 1);
                }
            }
        }
    } else {
        if served || !writes.is_empty() || !roles.is_empty() {
            let why = if !offers_ok { "below_minimum_version" } else { "invalid_certificate" };
            ev.violation(
                format!("{cell}:admitted_{why}"),
                format!("the peer must not be admitted ({why}) but: modbus reply={served}, negotiated={}, handler writes={}, authz calls={}", res["version"], writes.len(), roles.len()),
                rep.clone(),
            );
        } else {
            ev.count("refused_as_expected", 1);
        }
    }
    // plaintext Modbus must never be processed by a TLS endpoint
    if raw["reply_hex"].as_str().map(|h| h.starts_with("0909")).unwrap_or(false) {
        ev.violation(format!("{cell}:plaintext_modbus_answered"), "a Modbus request sent without TLS was answered".to_string(), rep.clone());
    }
    drop(srv.handle);
    let _ = tokio::time::timeout(Duration::from_secs(5), srv.task).await;
    ev
}

/// rodbus as TLS client, python as server presenting `cert`
async fn cell_client(min13: bool, self_signed: bool, offer: (&'static str, &'static str, &'static str), cert: Cert) -> Evidence {
    let mut ev = Evidence::new();
    let (c, ca_for_peer) = match (self_signed, cert) {
        (false, Cert::Valid) => ("server_valid", "ca1.cert.pem"),
        (false, Cert::WrongAuthority) => ("server_wrong_ca", "ca1.cert.pem"),
        (false, Cert::WrongName) => ("server_wrong_name", "ca1.cert.pem"),
        (false, Cert::Expired) => ("server_expired", "ca1.cert.pem"),
        (false, Cert::NotYetValid) => ("server_not_yet", "ca1.cert.pem"),
        (false, Cert::IpNameMatch) => ("server_ip_127_0_0_1", "ca1.cert.pem"),
        (false, Cert::IpNameDnsOnlyCert) => ("server_valid", "ca1.cert.pem"),
        (false, Cert::IpNameOtherIp) => ("server_ip_10_9_8_7", "ca1.cert.pem"),
        (true, Cert::Valid) => ("ss_server", "ss_client.cert.pem"),
        (true, Cert::WrongAuthority) => ("ss_server_other", "ss_client.cert.pem"),
        (true, Cert::Expired) => ("ss_server_expired", "ss_client.cert.pem"),
        (true, Cert::NotYetValid) => ("ss_server_not_yet", "ss_client.cert.pem"),
        _ => return ev,
    };
    let Some((child, port)) = start_peer_server(vec![
        s("--ca"), p(fixture(ca_for_peer)), s("--cert"), p(fixture(&format!("{c}.cert.pem"))), s("--key"), p(fixture(&format!("{c}.key.pem"))),
        s("--min"), s(offer.0), s("--max"), s(offer.1), s("--wait"), s("3"), s("--accept-wait"), s("8"),
    ]).await else {
        ev.inconclusive("python TLS server did not start");
        return ev;
    };
    let min = if min13 { MinTlsVersion::V1_3 } else { MinTlsVersion::V1_2 };
    // in self-signed mode the client is configured with the EXPECTED certificate. For the
    // validity cells that is the presented one (so only its validity period is wrong); for the
    // wrong-certificate cell it is ss_server while the peer presents another one.
    let cfg = if self_signed {
        let expected = match cert {
            Cert::Expired => "ss_server_expired.cert.pem",
            Cert::NotYetValid => "ss_server_not_yet.cert.pem",
            _ => "ss_server.cert.pem",
        };
        TlsClientConfig::self_signed(&fixture(expected), &fixture("ss_client.cert.pem"), &fixture("ss_client.key.pem"), None, min)
    } else {
        let expected_name = if matches!(cert, Cert::IpNameMatch | Cert::IpNameDnsOnlyCert | Cert::IpNameOtherIp) { "127.0.0.1" } else { "test.server" };
        TlsClientConfig::full_pki(Some(expected_name.to_string()), &fixture("ca1.cert.pem"), &fixture("client_operator.cert.pem"), &fixture("client_operator.key.pem"), None, min)
    };
    let cfg = match cfg {
        Ok(c) => c,
        Err(e) => {
            ev.inconclusive(format!("TlsClientConfig: {e}"));
            let _ = finish_peer_server(child).await;
            return ev;
        }
    };
    let (tx, mut states) = tokio::sync::mpsc::unbounded_channel();
    let (channel, task) = create_tls_client_task_with_options(
        HostAddr::ip(IpAddr::V4(Ipv4Addr::LOCALHOST), port),
        doubling_retry_strategy(Duration::from_secs(30), Duration::from_secs(30)),
        cfg,
        Some(Box::new(StateLog { tx })),
        ClientOptions::default(),
    );
    let jh = tokio::spawn(task.run());
    let _ = channel.enable().await;
    // wait for Connected or a wait state
    let mut connected = false;
    let t0 = Instant::now();
    while t0.elapsed() < Duration::from_secs(8) {
        match tokio::time::timeout(Duration::from_millis(200), states.recv()).await {
            Ok(Some(ClientState::Connected)) => {
                connected = true;
                break;
            }
            Ok(Some(ClientState::WaitAfterFailedConnect(_))) | Ok(Some(ClientState::WaitAfterDisconnect(_))) => break,
            Ok(None) => break,
            _ => {}
        }
    }
    let result = if connected {
        Some(
            channel
                .write_single_register(RequestParam::new(UnitId::new(1), Duration::from_secs(2)), Indexed::new(7, 0xBEEF))
                .await,
        )
    } else {
        None
    };
    let _ = channel.shutdown().await;
    let _ = tokio::time::timeout(Duration::from_secs(5), jh).await;
    let peer = finish_peer_server(child).await;

    let minv = if min13 { 13 } else { 12 };
    let offers_ok = match offer.2 {
        "tls12_only" => minv <= 12,
        _ => true,
    };
    let cert_ok = cert == Cert::Valid || cert == Cert::IpNameMatch;
    let admit = offers_ok && cert_ok;
    let want_version = if offer.2 == "tls12_only" { "TLSv1.2" } else { "TLSv1.3" };
    let cell = format!(
        "rodbus_client|min{}|{}|peer_offers_{}|cert_{:?}",
        if min13 { "1.3" } else { "1.2" },
        if self_signed { "self_signed" } else { "authority" },
        offer.2,
        cert
    );
    ev.eval();
    ev.count("handshakes_attempted", 1);
    ev.class(format!("{cell}|{}", if admit { "admit" } else { "refuse" }));
    let got_request = peer["request_hex"].as_str().map(|h| !h.is_empty()).unwrap_or(false);
    let rep = json!({"cell": cell, "peer": peer, "connected": connected, "result": format!("{result:?}")});
    if admit {
        let ok = matches!(result, Some(Ok(_)));
        if !ok {
            ev.violation(format!("{cell}:valid_peer_refused"), format!("a valid server offering {} was not accepted: connected={connected} result={result:?} peer={peer}", offer.2), rep.clone());
        } else {
            ev.count("admitted_as_expected", 1);
            if peer["version"].as_str() != Some(want_version) {
                ev.violation(format!("{cell}:negotiated_{}", peer["version"].as_str().unwrap_or("none")), format!("negotiated {} but the highest common version is {want_version}", peer["version"]), rep.clone());
            }
        }
    } else if connected || got_request || matches!(result, Some(Ok(_))) {
        let why = if !offers_ok { "below_minimum_version" } else { "invalid_certificate" };
        ev.violation(
            format!("{cell}:admitted_{why}"),
            format!("the server must not be accepted ({why}) but: Connected reported={connected}, Modbus bytes sent to it={got_request}, negotiated={}", peer["version"]),
            rep.clone(),
        );
    } else {
        ev.count("refused_as_expected", 1);
    }
    ev
}

pub fn c09(args: &Args) -> i32 {
    let started = Instant::now();
    let rt = tokio::runtime::Builder::new_multi_thread().worker_threads(8).enable_all().build().unwrap();
    let mut ev = Evidence::new();
    // make sure the peer can run at all
    if !peer_script().exists() {
        ev.inconclusive("peers/tls_peer.py missing");
    }
    let mut cells: Vec<(bool, bool, bool, bool, usize, Cert)> = vec![];
    for min13 in [false, true] {
        for self_signed in [false, true] {
            for (oi, _) in OFFERS.iter().enumerate() {
                for cert in [Cert::Valid, Cert::WrongAuthority, Cert::Expired, Cert::NotYetValid, Cert::RoleLess, Cert::OtherRole, Cert::TwoRoles, Cert::TwoRolesSame, Cert::ChainLeafNoRole, Cert::ChainLeafViewer] {
                    if self_signed && matches!(cert, Cert::TwoRolesSame | Cert::ChainLeafNoRole | Cert::ChainLeafViewer) {
                        continue;
                    }
                    for authz in [false, true] {
                        cells.push((true, min13, self_signed, authz, oi, cert));
                    }
                }
                for cert in [Cert::Valid, Cert::WrongAuthority, Cert::WrongName, Cert::Expired, Cert::NotYetValid, Cert::IpNameMatch, Cert::IpNameDnsOnlyCert, Cert::IpNameOtherIp] {
                    if self_signed && matches!(cert, Cert::WrongName | Cert::IpNameMatch | Cert::IpNameDnsOnlyCert | Cert::IpNameOtherIp) {
                        continue; // no name check in self-signed mode
                    }
                    cells.push((false, min13, self_signed, false, oi, cert));
                }
            }
        }
    }
    ev.count("grid_cells", cells.len() as u64);
    let batch = 10;
    let mut i = 0;
    while i < cells.len() {
        let hi = (i + batch).min(cells.len());
        let part: Vec<_> = cells[i..hi].to_vec();
        let results = rt.block_on(async {
            let mut hs = vec![];
            for (server_role, min13, ss, authz, oi, cert) in part {
                hs.push(tokio::spawn(async move {
                    if server_role {
                        cell_server(min13, ss, authz, OFFERS[oi], cert).await
                    } else {
                        cell_client(min13, ss, OFFERS[oi], cert).await
                    }
                }));
            }
            let mut out = vec![];
            for h in hs {
                if let Ok(e) = h.await {
                    out.push(e);
                }
            }
            out
        });
        for e in results {
            ev.merge(e);
        }
        i = hi;
    }
    // session resumption with a certificate that has expired meanwhile (minted at run time)
    for tls13 in [false, true] {
        for server_role in [true, false] {
            let mut e = Evidence::new();
            let problems = rt.block_on(async { if server_role { crate::c09resume::server_role(tls13, &mut e).await } else { crate::c09resume::client_role(tls13, &mut e).await } });
            ev.merge(e);
            for (sig, what) in problems {
                ev.violation(sig, what, json!({"leg": "resumption", "tls13": tls13, "rodbus_is_server": server_role}));
            }
        }
    }
    ev.sample(json!({"cell_example": "rodbus_server|min1.3|authority|authz|peer_offers_tls12_only|cert_Valid -> refuse", "peer": "CPython ssl (OpenSSL), pinned min/max version; sends a Modbus write right after its own Finished"}));
    let meta = Meta {
        property_id: "C09",
        level: "fault_enumeration",
        rule: "one evaluation = one cell of the grid {min 1.2, 1.3} x {authority, self-signed} x {authz, no authz (server role)} x {rodbus as server, rodbus as client} x peer offers {TLS1.2 only, TLS1.3 only, both} x peer certificate {valid, wrong authority / other certificate, wrong name (client role), expired, not yet valid, role-less, other role, two role extensions (different / equal), a role-less / viewer leaf presented with its intermediate authority which itself carries the role operator; client role with an IP-literal expected name: certificate with that IP as subjectAltName / DNS name only / another IP}: a real handshake between the rodbus endpoint and an independent TLS stack (CPython ssl/OpenSSL) which then sends a Modbus write; plus plaintext Modbus sent to the TLS port. Oracle: truth table from the cell coordinates (admit iff certificate valid for the mode and a version >= minimum is offered; negotiated version = highest common), handler/authorization logs must be empty in refused cells, role delivered = role extension of the certificate. Every cell is run: the grid is enumerated completely. distinct = cells".into(),
        assumptions: vec![
            "validity periods of the fixtures are checked against today's clock (2010-2011 expired, 2100-2110 not yet valid); the resumption leg mints a certificate that expires during the run".into(),
            "certificates with two role extensions are minted by DER surgery (fixtures/pki/mint_extra.py); a role extension that is not a UTF8String is not tested".into(),
        ],
        exhaustive: Some(true),
        floors: vec![
            ("handshakes_attempted".into(), 268),
            ("admitted_as_expected".into(), 40),
            ("refused_as_expected".into(), 100),
            ("roles_checked".into(), 8),
            ("resumption_scenarios".into(), 0),
        ],
        min_classes: 268,
    };
    finish(args, meta, ev, started)
}
