//! Raw-socket helpers for the black-box engine.

use std::net::{IpAddr, SocketAddr};
use std::time::Duration;
use tokio::io::{AsyncReadExt, AsyncWriteExt};
use tokio::net::{TcpSocket, TcpStream};
use vcommon::model::mbap_frame;

#[derive(Clone, Debug, PartialEq, Eq)]
pub enum Probe {
    /// a well-formed reply carrying our transaction id arrived
    Alive(Vec<u8>),
    /// EOF or reset
    Closed,
    /// nothing within the wait
    Silent,
    /// bytes arrived that are not a reply to the probe
    Other(Vec<u8>),
}

impl Probe {
    pub fn name(&self) -> &'static str {
        match self {
            Probe::Alive(_) => "alive",
            Probe::Closed => "closed",
            Probe::Silent => "silent",
            Probe::Other(_) => "other",
        }
    }
}

/// connect, optionally binding the source address first
pub async fn connect_from(src: Option<IpAddr>, dst: SocketAddr) -> std::io::Result<TcpStream> {
    let sock = if dst.is_ipv4() { TcpSocket::new_v4()? } else { TcpSocket::new_v6()? };
    if let Some(ip) = src {
        sock.bind(SocketAddr::new(ip, 0))?;
    }
    let s = tokio::time::timeout(Duration::from_secs(5), sock.connect(dst))
        .await
        .map_err(|_| std::io::Error::new(std::io::ErrorKind::TimedOut, "connect timeout"))??;
    s.set_nodelay(true).ok();
    Ok(s)
}

/// read one MBAP frame (or EOF / timeout)
pub async fn read_frame(s: &mut TcpStream, wait: Duration) -> Probe {
    let mut buf = vec![];
    let deadline = tokio::time::Instant::now() + wait;
    loop {
        if buf.len() >= 7 {
            let len = ((buf[4] as usize) << 8) | buf[5] as usize;
            if buf.len() >= 6 + len {
                return Probe::Alive(buf);
            }
        }
        let mut tmp = [0u8; 512];
        match tokio::time::timeout_at(deadline, s.read(&mut tmp)).await {
            Err(_) => {
                return if buf.is_empty() { Probe::Silent } else { Probe::Other(buf) };
            }
            Ok(Ok(0)) => return if buf.is_empty() { Probe::Closed } else { Probe::Other(buf) },
            Ok(Ok(n)) => buf.extend_from_slice(&tmp[..n]),
            Ok(Err(_)) => return Probe::Closed,
        }
    }
}

/// send a sentinel read (unit, holding register 0, count 1) with a unique transaction id
pub async fn probe(s: &mut TcpStream, tx: u16, unit: u8, wait: Duration) -> Probe {
    let req = mbap_frame(tx, unit, &[3, 0, 0, 0, 1]);
    if s.write_all(&req).await.is_err() {
        return Probe::Closed;
    }
    match read_frame(s, wait).await {
        Probe::Alive(f) => {
            if f.len() >= 8 && f[0] == (tx >> 8) as u8 && f[1] == tx as u8 && f[6] == unit && f[7] & 0x7F == 3 {
                Probe::Alive(f)
            } else {
                Probe::Other(f)
            }
        }
        other => other,
    }
}

/// wait until the peer closes (EOF/reset); Silent if it does not within `wait`
pub async fn expect_closed(s: &mut TcpStream, wait: Duration) -> Probe {
    let mut tmp = [0u8; 512];
    let mut got = vec![];
    let deadline = tokio::time::Instant::now() + wait;
    loop {
        match tokio::time::timeout_at(deadline, s.read(&mut tmp)).await {
            Err(_) => return if got.is_empty() { Probe::Silent } else { Probe::Other(got) },
            Ok(Ok(0)) => return if got.is_empty() { Probe::Closed } else { Probe::Other(got) },
            Ok(Ok(n)) => got.extend_from_slice(&tmp[..n]),
            Ok(Err(_)) => return if got.is_empty() { Probe::Closed } else { Probe::Other(got) },
        }
    }
}

static NEXT_PORT: std::sync::atomic::AtomicU32 = std::sync::atomic::AtomicU32::new(0);

/// A loopback port reserved for one script. Ports come from a private range below the
/// ephemeral range and are never handed out twice in one process, so a listener that is
/// deliberately closed ("connection refused") cannot be replaced by somebody else's.
pub fn free_port(ip: IpAddr) -> u16 {
    let salt = (std::process::id() % 97) * 131;
    loop {
        let k = NEXT_PORT.fetch_add(1, std::sync::atomic::Ordering::SeqCst);
        let port = 12_000 + ((k + salt) % 18_000) as u16;
        if std::net::TcpListener::bind(SocketAddr::new(ip, port)).is_ok() {
            return port;
        }
    }
}

/// minimal application for black-box servers: holding register 0 of every unit reads 0x1234
pub struct Fixed;
impl rodbus::server::RequestHandler for Fixed {
    fn read_holding_register(&self, address: u16) -> Result<u16, rodbus::ExceptionCode> {
        if address < 16 {
            Ok(0x1234)
        } else {
            Err(rodbus::ExceptionCode::IllegalDataAddress)
        }
    }
    fn write_single_register(&mut self, _v: rodbus::Indexed<u16>) -> Result<(), rodbus::ExceptionCode> {
        Ok(())
    }
}
