//! C16: only peers matching the address filter are ever served (Rust API; the C ABI variants
//! and TLS handshakes live in the ffi engine / tls module and report into the same evidence).

use crate::net::*;
use rodbus::server::*;
use rodbus::*;
use serde_json::json;
use std::collections::HashSet;
use std::net::{IpAddr, Ipv4Addr, Ipv6Addr, SocketAddr};
use std::str::FromStr;
use std::time::{Duration, Instant};
use vcommon::report::*;
use vcommon::rng::Rng;

pub use vcommon::filter::*;

pub fn to_rodbus(f: &F) -> Option<AddressFilter> {
    Some(match f {
        F::Any => AddressFilter::Any,
        F::Exact(x) => AddressFilter::Exact(*x),
        F::AnyOf(v) => AddressFilter::AnyOf(v.iter().copied().collect::<HashSet<_>>()),
        F::Wildcard(w) => AddressFilter::WildcardIpv4(WildcardIPv4::from_str(&F::wildcard_string(w)).ok()?),
    })
}

/// is a TCP server with this filter serving this source?
pub async fn observe_tcp(addr: SocketAddr, src: IpAddr, tx: u16) -> Result<Probe, String> {
    let mut s = connect_from(Some(src), addr).await.map_err(|e| format!("connect from {src}: {e}"))?;
    Ok(probe(&mut s, tx, 1, Duration::from_secs(3)).await)
}

// ------------------------------------------------------------------------------------------
// wildcard parser: three-valued oracle
// ------------------------------------------------------------------------------------------

#[derive(Debug, PartialEq)]
pub enum ParseOracle {
    MustAccept([Option<u8>; 4]),
    MustReject,
    DontCare,
}

pub fn parse_oracle(s: &str) -> ParseOracle {
    let fields: Vec<&str> = s.split('.').collect();
    if fields.len() != 4 {
        return ParseOracle::MustReject;
    }
    let mut out = [None; 4];
    let mut dontcare = false;
    for (i, f) in fields.iter().enumerate() {
        if *f == "*" {
            out[i] = None;
            continue;
        }
        let digits = f.strip_prefix('+').unwrap_or(f);
        let plus = f.starts_with('+');
        if digits.is_empty() || !digits.bytes().all(|b| b.is_ascii_digit()) {
            return ParseOracle::MustReject;
        }
        let trimmed = digits.trim_start_matches('0');
        let value: u32 = if trimmed.is_empty() { 0 } else if trimmed.len() > 3 { 1000 } else { trimmed.parse().unwrap() };
        if value > 255 {
            return ParseOracle::MustReject;
        }
        if plus || (digits.len() > 1 && digits.starts_with('0')) {
            // "+1", "007": the grammar text ("a number 0-255") does not settle these
            dontcare = true;
        }
        out[i] = Some(value as u8);
    }
    if dontcare {
        ParseOracle::DontCare
    } else {
        ParseOracle::MustAccept(out)
    }
}

fn fields_of_debug(w: &WildcardIPv4) -> Option<[Option<u8>; 4]> {
    // WildcardIPv4 { b3: Some(172), b2: None, b1: ..., b0: ... }
    let d = format!("{w:?}");
    let mut out = [None; 4];
    for (i, name) in ["b3:", "b2:", "b1:", "b0:"].iter().enumerate() {
        let p = d.find(name)? + name.len();
        let rest = d[p..].trim_start();
        if rest.starts_with("None") {
            out[i] = None;
        } else if let Some(r) = rest.strip_prefix("Some(") {
            let end = r.find(')')?;
            out[i] = Some(r[..end].parse().ok()?);
        } else {
            return None;
        }
    }
    Some(out)
}

fn check_parse(s: &str, ev: &mut Evidence) {
    let got = WildcardIPv4::from_str(s);
    ev.count("parser_strings", 1);
    match (parse_oracle(s), &got) {
        (ParseOracle::MustAccept(f), Ok(w)) => {
            ev.count("parser_accepts", 1);
            if fields_of_debug(w) != Some(f) {
                ev.violation(
                    "wildcard_parser:wrong_fields",
                    format!("\"{s}\" parsed as {w:?}, expected fields {f:?}"),
                    json!({"string": s}),
                );
            }
        }
        (ParseOracle::MustAccept(_), Err(_)) => ev.violation(
            "wildcard_parser:canonical_string_rejected",
            format!("\"{s}\" is four dot-separated fields of '*' or 0-255 but was rejected"),
            json!({"string": s}),
        ),
        (ParseOracle::MustReject, Ok(w)) => ev.violation(
            format!("wildcard_parser:accepted_invalid:{}", invalid_class(s)),
            format!("\"{s}\" is not a valid wildcard but parsed as {w:?}"),
            json!({"string": s}),
        ),
        (ParseOracle::MustReject, Err(_)) => ev.count("parser_rejects", 1),
        (ParseOracle::DontCare, _) => ev.count("parser_dont_care", 1),
    }
}

fn invalid_class(s: &str) -> &'static str {
    let n = s.split('.').count();
    if n < 4 {
        "too_few_fields"
    } else if n > 4 {
        "too_many_fields"
    } else if s.split('.').any(|f| f.is_empty()) {
        "empty_field"
    } else if s.bytes().any(|b| !(b.is_ascii_digit() || b == b'.' || b == b'*' || b == b'+')) {
        "bad_character"
    } else {
        "bad_number"
    }
}

pub fn parser_campaign(args: &Args, ev: &mut Evidence) -> bool {
    // exhaustive strings over a small alphabet up to a length, then grammar-based longer ones
    const ALPHA: &[u8] = b"0125*.+-a 69";
    let maxlen = args.tier.pick(5usize, 7);
    let mut buf = vec![];
    fn rec(buf: &mut Vec<u8>, maxlen: usize, ev: &mut Evidence) {
        check_parse(std::str::from_utf8(buf).unwrap(), ev);
        if buf.len() == maxlen {
            return;
        }
        for c in ALPHA {
            buf.push(*c);
            rec(buf, maxlen, ev);
            buf.pop();
        }
    }
    rec(&mut buf, maxlen, ev);
    ev.count("parser_exhaustive_alphabet_length", maxlen as u64);
    let mut rng = Rng::sub(args.seed, 1116, 0);
    let pieces = ["*", "0", "1", "9", "10", "99", "100", "127", "199", "200", "249", "250", "255", "256", "260", "300", "999", "1000", "", " ", "+1", "-1", "007", "0255", "00", "1 ", " 1", "a", "**", "*1", "1*", "0x1", "1e1", "٣"];
    for _ in 0..args.tier.pick(200_000, 3_000_000) {
        let nf = match rng.below(10) {
            0 => 3,
            1 => 5,
            2 => rng.usize_below(8),
            _ => 4,
        };
        let s: Vec<&str> = (0..nf).map(|_| *rng.pick(&pieces)).collect();
        let mut s = s.join(".");
        if rng.chance(1, 20) {
            s.push('.');
        }
        if rng.chance(1, 20) {
            s.insert(0, '.');
        }
        check_parse(&s, ev);
    }
    ev.class("parser|must_accept");
    ev.class("parser|must_reject");
    ev.class("parser|dont_care");
    true
}

pub fn run(args: &Args) -> i32 {
    let started = Instant::now();
    let seed = args.seed;
    let mut ev = Evidence::new();
    parser_campaign(args, &mut ev);

    let rt = tokio::runtime::Builder::new_multi_thread().worker_threads(8).enable_all().build().unwrap();
    let nfilters = args.tier.pick(60u64, 1500);
    let nsrc = args.tier.pick(10usize, 24);
    let batch = 16u64;
    let mut n = 0u64;
    while n < nfilters {
        let hi = (n + batch).min(nfilters);
        let results = rt.block_on(async {
            let mut hs = vec![];
            for i in n..hi {
                hs.push(tokio::spawn(async move {
                    let mut rng = Rng::sub(seed, 116, i);
                    let mut ev = Evidence::new();
                    let mut sources: Vec<Ipv4Addr> = (0..nsrc).map(|_| gen_source(&mut rng)).collect();
                    sources.push(Ipv4Addr::new(127, 0, 0, 1));
                    let f = vcommon::filter::gen_filter_indexed(&mut rng, &sources, i);
                    let Some(filter) = to_rodbus(&f) else {
                        ev.inconclusive(format!("canonical wildcard string did not parse: {f:?}"));
                        return ev;
                    };
                    let map = ServerHandlerMap::single(UnitId::new(1), Fixed.wrap());
                    // IPv4 listener
                    let l4 = tokio::net::TcpListener::bind("127.0.0.1:0").await.unwrap();
                    let a4 = l4.local_addr().unwrap();
                    let (h4, t4) = create_tcp_server_task(8, l4, map.clone(), filter.clone(), DecodeLevel::nothing());
                    let j4 = tokio::spawn(t4.run());
                    let l6 = tokio::net::TcpListener::bind("[::1]:0").await.unwrap();
                    let a6 = l6.local_addr().unwrap();
                    let (h6, t6) = create_tcp_server_task(8, l6, map.clone(), filter.clone(), DecodeLevel::nothing());
                    let j6 = tokio::spawn(t6.run());
                    let mut tx = 100u16;
                    let mut targets: Vec<(SocketAddr, IpAddr)> = sources.iter().map(|s| (a4, IpAddr::V4(*s))).collect();
                    targets.push((a6, IpAddr::V6(Ipv6Addr::LOCALHOST)));
                    for (addr, src) in targets {
                        tx += 1;
                        let want = f.matches(src);
                        match observe_tcp(addr, src, tx).await {
                            Err(e) => ev.count(&format!("source_unusable:{}", if e.contains("connect from") { "bind_or_connect" } else { "other" }), 1),
                            Ok(p) => {
                                ev.eval();
                                ev.count("connections_observed", 1);
                                let served = matches!(p, Probe::Alive(_));
                                let refused_silently = matches!(p, Probe::Closed);
                                ev.class(format!("tcp|rust_api|{}|{}|{}", f.class(), if src.is_ipv4() { "v4" } else { "v6" }, if want { "match" } else { "no_match" }));
                                if want && !served {
                                    ev.violation(
                                        format!("tcp:rust_api:{}:matching_peer_not_served:{}", f.class(), p.name()),
                                        format!("filter {f:?} matches {src} but the connection was {}", p.name()),
                                        json!({"n": i, "filter": format!("{f:?}"), "source": src.to_string()}),
                                    );
                                } else if !want && !refused_silently {
                                    ev.violation(
                                        format!("tcp:rust_api:{}:non_matching_peer_{}", f.class(), if served { "served" } else { p.name() }),
                                        format!("filter {f:?} does not match {src} but the connection was {} (bytes received: {:?})", p.name(), p),
                                        json!({"n": i, "filter": format!("{f:?}"), "source": src.to_string()}),
                                    );
                                }
                                if i < 2 && ev.samples.len() < 3 {
                                    ev.sample(json!({"filter": format!("{f:?}"), "source": src.to_string(), "expected_served": want, "observed": p.name()}));
                                }
                            }
                        }
                    }
                    drop(h4);
                    drop(h6);
                    let _ = tokio::time::timeout(Duration::from_secs(5), j4).await;
                    let _ = tokio::time::timeout(Duration::from_secs(5), j6).await;
                    ev
                }));
            }
            let mut out = vec![];
            for h in hs {
                if let Ok(e) = h.await {
                    out.push(e);
                }
            }
            out
        });
        for e in results {
            ev.merge(e);
        }
        n = hi;
    }
    crate::tls::c16_tls(args, &rt, &mut ev);
    // C-ABI variants run in the ffi engine (separate process: it owns its own runtime)
    {
        let exe = std::env::current_exe().ok().and_then(|p| p.parent().map(|d| d.join("vffi")));
        let out = verif_root().join("out").join(format!("c16ffi-{}.json", std::process::id()));
        let _ = std::fs::create_dir_all(verif_root().join("out"));
        match exe {
            Some(exe) if exe.exists() => {
                let st = std::process::Command::new(&exe)
                    .arg("c16ffi")
                    .arg("--tier")
                    .arg(args.tier.name())
                    .arg("--seed")
                    .arg((args.seed as i64).to_string())
                    .arg("--out")
                    .arg(&out)
                    .stdout(std::process::Stdio::null())
                    .status();
                match (st, std::fs::read_to_string(&out).ok().and_then(|t| serde_json::from_str::<serde_json::Value>(&t).ok())) {
                    (Ok(s), Some(v)) if s.success() => {
                        let e = Evidence::from_json(&v);
                        ev.count("c_abi_connections_observed", e.counters.get("connections_observed").copied().unwrap_or(0) + e.counters.get("tls_connections_observed").copied().unwrap_or(0));
                        ev.merge(e);
                    }
                    _ => ev.inconclusive("the ffi engine did not deliver its part of the C16 evidence"),
                }
                let _ = std::fs::remove_file(&out);
            }
            _ => ev.inconclusive("vffi binary not found next to vnet"),
        }
    }
    let meta = Meta {
        property_id: "C16",
        level: "exploration",
        rule: "network: one evaluation = one connection from a chosen loopback source address (127.a.b.c with a,b,c on {0,1,2,127,128,254,255}, or ::1) to a real server (TCP, TLS, TLS+authz; Rust API here, C ABI in the ffi engine) configured with a generated filter (any, exact v4/v6, sets of 1-5 mixed addresses, wildcards with literal/'*' fields incl. first field 126/127/128/*); served = sentinel reply / completed handshake, refused = EOF before any byte; compared with an independent matcher. parser: every string over the alphabet {0 1 2 5 6 9 * . + - a space} up to the stated length plus grammar-generated longer ones, three-valued oracle (must accept with these fields / must reject / don't care for '+N' and leading zeros). distinct = (transport, api, filter class, address family, match)".into(),
        assumptions: vec![
            "loopback aliases 127.a.b.c can be bound as source addresses on this host".into(),
            "'+1' and leading zeros ('007') in a wildcard field are don't-care".into(),
        ],
        exhaustive: None,
        floors: vec![
            ("connections_observed".into(), args.tier.pick(500, 20_000)),
            ("parser_strings".into(), args.tier.pick(400_000, 10_000_000)),
            ("tls_connections_observed".into(), args.tier.pick(60, 600)),
            ("c_abi_connections_observed".into(), args.tier.pick(60, 800)),
        ],
        min_classes: 12,
    };
    finish(args, meta, ev, started)
}
