//! Serial (pty) legs: PortState life-cycle (C13), strategy calls of the serial client and the
//! RTU server task (C14), RTU frames over a real tty (C06).

use rodbus::client::*;
use rodbus::server::*;
use rodbus::*;
use serde_json::json;
use std::os::fd::RawFd;
use std::sync::{Arc, Mutex};
use std::time::{Duration, Instant};
use tokio::sync::mpsc;
use vcommon::model::{crc16, rtu_frame};
use vcommon::report::*;

/// master side of a pseudo terminal; the slave path is handed to rodbus
pub struct Pty {
    pub master: RawFd,
    pub slave_path: String,
}

impl Pty {
    pub fn open() -> Option<Pty> {
        unsafe {
            let m = libc::posix_openpt(libc::O_RDWR | libc::O_NOCTTY);
            if m < 0 {
                return None;
            }
            if libc::grantpt(m) != 0 || libc::unlockpt(m) != 0 {
                libc::close(m);
                return None;
            }
            let mut buf = [0 as libc::c_char; 128];
            if libc::ptsname_r(m, buf.as_mut_ptr(), buf.len()) != 0 {
                libc::close(m);
                return None;
            }
            let path = std::ffi::CStr::from_ptr(buf.as_ptr()).to_string_lossy().to_string();
            // raw mode on the master, non-blocking reads
            let mut t: libc::termios = std::mem::zeroed();
            if libc::tcgetattr(m, &mut t) == 0 {
                libc::cfmakeraw(&mut t);
                libc::tcsetattr(m, libc::TCSANOW, &t);
            }
            let fl = libc::fcntl(m, libc::F_GETFL);
            libc::fcntl(m, libc::F_SETFL, fl | libc::O_NONBLOCK);
            Some(Pty { master: m, slave_path: path })
        }
    }
    /// Open and close the slave once. From then on a read on the master fails with EIO exactly while
    /// nobody holds the slave open, which makes "is the port really open" observable from outside.
    pub fn open_primed() -> Option<Pty> {
        let p = Pty::open()?;
        let c = std::ffi::CString::new(p.slave_path.clone()).ok()?;
        unsafe {
            let fd = libc::open(c.as_ptr(), libc::O_RDWR | libc::O_NOCTTY);
            if fd < 0 {
                return None;
            }
            libc::close(fd);
        }
        Some(p)
    }
    /// Some(true): somebody holds the slave open; Some(false): nobody does (primed pty only)
    pub fn slave_open(&self) -> Option<bool> {
        let mut buf = [0u8; 64];
        let n = unsafe { libc::read(self.master, buf.as_mut_ptr() as *mut libc::c_void, buf.len()) };
        if n >= 0 {
            return Some(true);
        }
        match std::io::Error::last_os_error().raw_os_error() {
            Some(libc::EIO) => Some(false),
            Some(libc::EAGAIN) => Some(true),
            _ => None,
        }
    }
    /// poll until the slave is (not) held open; returns the instant of the observation
    pub fn wait_slave(&self, open: bool, limit: Duration) -> Option<Instant> {
        let t0 = Instant::now();
        while t0.elapsed() < limit {
            if self.slave_open() == Some(open) {
                return Some(Instant::now());
            }
            std::thread::sleep(Duration::from_millis(1));
        }
        None
    }
    pub fn write(&self, data: &[u8]) -> bool {
        let mut off = 0;
        let t0 = Instant::now();
        while off < data.len() && t0.elapsed() < Duration::from_secs(2) {
            let n = unsafe { libc::write(self.master, data[off..].as_ptr() as *const libc::c_void, data.len() - off) };
            if n > 0 {
                off += n as usize;
            } else {
                std::thread::sleep(Duration::from_millis(1));
            }
        }
        off == data.len()
    }
    /// read whatever arrives until `quiet` passes without new bytes or `limit` elapses
    pub fn read_for(&self, limit: Duration, quiet: Duration) -> Vec<u8> {
        let mut out = vec![];
        let t0 = Instant::now();
        let mut last = Instant::now();
        let mut buf = [0u8; 512];
        while t0.elapsed() < limit {
            let n = unsafe { libc::read(self.master, buf.as_mut_ptr() as *mut libc::c_void, buf.len()) };
            if n > 0 {
                out.extend_from_slice(&buf[..n as usize]);
                last = Instant::now();
            } else {
                if !out.is_empty() && last.elapsed() > quiet {
                    break;
                }
                std::thread::sleep(Duration::from_millis(1));
            }
        }
        out
    }
}

impl Drop for Pty {
    fn drop(&mut self) {
        unsafe { libc::close(self.master) };
    }
}

fn settings() -> SerialSettings {
    SerialSettings { baud_rate: 115_200, ..Default::default() }
}

struct PortGate {
    tx: mpsc::UnboundedSender<(PortState, Instant)>,
}
impl Listener<PortState> for PortGate {
    fn update(&mut self, v: PortState) -> MaybeAsync<()> {
        let _ = self.tx.send((v, Instant::now()));
        MaybeAsync::ready(())
    }
}

#[derive(Clone, Debug, PartialEq)]
pub enum SCall {
    Reset,
    Fail(Duration),
    Disconnect(Duration),
}
struct LogStrategy {
    inner: Box<dyn RetryStrategy>,
    log: Arc<Mutex<Vec<SCall>>>,
}
impl RetryStrategy for LogStrategy {
    fn reset(&mut self) {
        self.inner.reset();
        self.log.lock().unwrap().push(SCall::Reset);
    }
    fn after_failed_connect(&mut self) -> Duration {
        let d = self.inner.after_failed_connect();
        self.log.lock().unwrap().push(SCall::Fail(d));
        d
    }
    fn after_disconnect(&mut self) -> Duration {
        let d = self.inner.after_disconnect();
        self.log.lock().unwrap().push(SCall::Disconnect(d));
        d
    }
}

fn port_name(s: &PortState) -> &'static str {
    match s {
        PortState::Disabled => "Disabled",
        PortState::Wait(_) => "Wait",
        PortState::Open => "Open",
        PortState::Shutdown => "Shutdown",
    }
}

fn port_legal(prev: Option<&PortState>, next: &PortState) -> bool {
    use PortState::*;
    match (prev, next) {
        (None, Disabled) => true,
        (None, _) => false,
        (Some(Shutdown), _) => false,
        (Some(Disabled), Open) | (Some(Disabled), Wait(_)) | (Some(Disabled), Shutdown) => true,
        (Some(Open), Wait(_)) | (Some(Open), Disabled) | (Some(Open), Shutdown) => true,
        (Some(Wait(_)), Open) | (Some(Wait(_)), Wait(_)) | (Some(Wait(_)), Disabled) | (Some(Wait(_)), Shutdown) => true,
        _ => false,
    }
}

/// serial client: life-cycle + strategy calls. `scenario` 0: unopenable path, 1: pty that is
/// later closed, ended by shutdown (even k) or by dropping the handle (odd k)
pub async fn serial_client(scenario: usize, k: usize, ev: &mut Evidence) -> Vec<(String, String)> {
    let mut problems = vec![];
    let pty = if scenario == 1 { Pty::open() } else { None };
    if scenario == 1 && pty.is_none() {
        ev.count("pty_unavailable", 1);
        return problems;
    }
    let path = pty.as_ref().map(|p| p.slave_path.clone()).unwrap_or("/dev/verif-no-such-port".to_string());
    let log = Arc::new(Mutex::new(vec![]));
    let (tx, mut rx) = mpsc::unbounded_channel();
    let min = Duration::from_millis(15);
    let max = Duration::from_millis(60);
    let (channel, task) = create_rtu_client_task(
        &path,
        settings(),
        4,
        Box::new(LogStrategy { inner: doubling_retry_strategy(min, max), log: log.clone() }),
        DecodeLevel::nothing(),
        Some(Box::new(PortGate { tx })),
    );
    let jh = tokio::spawn(task.run());
    let mut states: Vec<(PortState, Instant)> = vec![];
    let mut pull = |states: &mut Vec<(PortState, Instant)>, rx: &mut mpsc::UnboundedReceiver<(PortState, Instant)>| {
        while let Ok(x) = rx.try_recv() {
            states.push(x);
        }
    };
    tokio::time::sleep(Duration::from_millis(30)).await;
    // a request while disabled fails fast
    let r0 = channel.read_coils(RequestParam::new(UnitId::new(1), Duration::from_millis(100)), AddressRange::try_from(0, 1).unwrap()).await;
    if r0 != Err(RequestError::NoConnection) {
        problems.push(("serial:request_while_disabled".into(), format!("request on a disabled serial channel completed with {r0:?}")));
    }
    let _ = channel.enable().await;
    tokio::time::sleep(Duration::from_millis(if scenario == 0 { 220 } else { 80 })).await;
    pull(&mut states, &mut rx);
    if scenario == 0 {
        let r = channel.read_coils(RequestParam::new(UnitId::new(1), Duration::from_millis(100)), AddressRange::try_from(0, 1).unwrap()).await;
        if r != Err(RequestError::NoConnection) {
            problems.push(("serial:request_while_waiting".into(), format!("request while the port cannot be opened completed with {r:?}")));
        }
    } else if let Some(p) = &pty {
        // port is open: a request goes out on the wire with a correct CRC and times out
        let ch2 = channel.clone();
        let req = tokio::spawn(async move { ch2.read_holding_registers(RequestParam::new(UnitId::new(9), Duration::from_millis(120)), AddressRange::try_from(3, 2).unwrap()).await });
        let p_master = p.master;
        let seen = tokio::task::spawn_blocking(move || {
            let tmp = Pty { master: p_master, slave_path: String::new() };
            let v = tmp.read_for(Duration::from_millis(400), Duration::from_millis(30));
            std::mem::forget(tmp);
            v
        })
        .await
        .unwrap_or_default();
        let want = rtu_frame(9, &[3, 0, 3, 0, 2]);
        if seen != want {
            problems.push(("serial:client_request_bytes".into(), format!("serial client emitted {} expected {}", hex(&seen), hex(&want))));
        } else {
            ev.count("serial_frames_crc_checked", 1);
        }
        let _ = req.await;
        // lose the port: closing the master makes reads fail
        drop(pty);
        tokio::time::sleep(Duration::from_millis(150)).await;
        pull(&mut states, &mut rx);
    }
    // end the task
    if k % 2 == 0 {
        let _ = channel.shutdown().await;
    } else {
        drop(channel);
    }
    let joined = tokio::time::timeout(Duration::from_secs(10), jh).await;
    if joined.is_err() {
        problems.push((format!("serial:task_did_not_terminate:scenario{scenario}"), "serial client task still running 10 s after shutdown / handle drop".into()));
    }
    tokio::time::sleep(Duration::from_millis(10)).await;
    pull(&mut states, &mut rx);
    // automaton
    let mut prev: Option<PortState> = None;
    for (s, _) in &states {
        if !port_legal(prev.as_ref(), s) {
            problems.push((format!("serial:illegal_transition:{}->{}", prev.as_ref().map(port_name).unwrap_or("start"), port_name(s)), format!("port listener path {:?}", states.iter().map(|x| port_name(&x.0)).collect::<Vec<_>>())));
            break;
        }
        prev = Some(*s);
    }
    ev.count("port_notifications", states.len() as u64);
    let names: Vec<&str> = states.iter().map(|x| port_name(&x.0)).collect();
    ev.class(format!("serial_client|scenario{scenario}|{}", names.iter().take(4).cloned().collect::<Vec<_>>().join(">")));
    if names.last() != Some(&"Shutdown") || names.iter().filter(|n| **n == "Shutdown").count() != 1 {
        problems.push(("serial:shutdown_not_last_and_once".into(), format!("port listener path {names:?}")));
    }
    let calls = log.lock().unwrap().clone();
    ev.count("strategy_calls_observed", calls.len() as u64);
    if scenario == 0 {
        // every attempt fails: Wait(min), Wait(2min), Wait(4min=max), Wait(max) ...
        if names.len() < 3 || names[1] != "Wait" {
            problems.push(("serial:no_wait_after_failed_open".into(), format!("port listener path {names:?}")));
        }
        let mut k2 = 0u32;
        for c in &calls {
            match c {
                SCall::Fail(d) => {
                    let want = (min * 2u32.pow(k2)).min(max);
                    k2 += 1;
                    if *d != want {
                        problems.push(("serial:strategy_delay".into(), format!("failed open #{k2}: strategy returned {d:?}, expected {want:?}")));
                        break;
                    }
                }
                other => {
                    problems.push((format!("serial:unexpected_strategy_call_{other:?}").replace(' ', ""), format!("unopenable port: strategy calls {calls:?}")));
                    break;
                }
            }
        }
        // announced == returned, and consecutive Wait notifications are at least the delay apart
        let waits: Vec<(Duration, Instant)> = states.iter().filter_map(|(s, t)| if let PortState::Wait(d) = s { Some((*d, *t)) } else { None }).collect();
        for (i, w) in waits.iter().enumerate() {
            if let Some(SCall::Fail(d)) = calls.get(i) {
                if *d != w.0 {
                    problems.push(("serial:announced_delay_differs".into(), format!("Wait({:?}) announced, strategy returned {d:?}", w.0)));
                }
                ev.count("announced_delays_checked", 1);
            }
            if let Some(n) = waits.get(i + 1) {
                ev.count("waits_measured", 1);
                if n.1.duration_since(w.1) + Duration::from_millis(1) < w.0 {
                    problems.push(("serial:next_attempt_earlier_than_announced".into(), format!("Wait({:?}) but the next attempt came after {:?}", w.0, n.1.duration_since(w.1))));
                }
            }
        }
    } else {
        // open ok -> reset first; after the loss -> after_disconnect
        if calls.first() != Some(&SCall::Reset) {
            problems.push(("serial:no_reset_after_open".into(), format!("strategy calls {calls:?}")));
        }
        if !calls.iter().any(|c| matches!(c, SCall::Disconnect(d) if *d == min)) {
            problems.push(("serial:no_after_disconnect_after_port_loss".into(), format!("strategy calls {calls:?}; states {names:?}")));
        }
        if !names.contains(&"Open") {
            problems.push(("serial:port_never_open".into(), format!("states {names:?}")));
        }
    }
    problems
}

struct Regs;
impl RequestHandler for Regs {
    fn read_holding_register(&self, a: u16) -> Result<u16, ExceptionCode> {
        Ok(a.wrapping_mul(3))
    }
}

/// like `Regs`, but reading register 0x0777 blocks until the gate is opened (or 5 s have passed), and
/// single-register writes are recorded
struct GatedRegs {
    entered: Arc<std::sync::atomic::AtomicBool>,
    gate: Arc<(Mutex<bool>, std::sync::Condvar)>,
    writes: Arc<Mutex<Vec<(u16, u16, Instant)>>>,
}
impl RequestHandler for GatedRegs {
    fn read_holding_register(&self, a: u16) -> Result<u16, ExceptionCode> {
        if a == 0x0777 {
            self.entered.store(true, std::sync::atomic::Ordering::SeqCst);
            let (m, cv) = &*self.gate;
            let g = m.lock().unwrap();
            let t = Instant::now();
            let r = cv.wait_timeout_while(g, Duration::from_secs(5), |open| !*open);
            if std::env::var("VERIF_DEBUG").is_ok() {
                eprintln!("gated read returned after {:?} timed_out={:?}", t.elapsed(), r.map(|x| x.1.timed_out()).ok());
            }
        }
        Ok(a.wrapping_mul(3))
    }
    fn write_single_register(&mut self, v: Indexed<u16>) -> Result<(), ExceptionCode> {
        if std::env::var("VERIF_DEBUG").is_ok() {
            eprintln!("write handler {v:?}");
        }
        self.writes.lock().unwrap().push((v.index, v.value, Instant::now()));
        Ok(())
    }
}

/// RTU server on a pty: valid frames answered with a correct CRC, corrupted frames ignored,
/// strategy calls reset / after_disconnect
pub async fn rtu_server_pty(frames: usize, seed: u64, ev: &mut Evidence) -> Vec<(String, String)> {
    let mut problems = vec![];
    let Some(pty) = Pty::open() else {
        ev.count("pty_unavailable", 1);
        return problems;
    };
    let log = Arc::new(Mutex::new(vec![]));
    let map = ServerHandlerMap::single(UnitId::new(7), Regs.wrap());
    let (handle, task) = create_rtu_server_task(
        &pty.slave_path,
        settings(),
        Box::new(LogStrategy { inner: doubling_retry_strategy(Duration::from_millis(5), Duration::from_millis(20)), log: log.clone() }),
        map,
        DecodeLevel::nothing(),
    );
    let jh = tokio::spawn(task.run());
    tokio::time::sleep(Duration::from_millis(50)).await;
    let pty = Arc::new(pty);
    let mut rng = vcommon::rng::Rng::sub(seed, 2206, 0);
    for i in 0..frames {
        let start = rng.below(1000) as u16;
        let qty = 1 + rng.below(20) as u16;
        let good = rtu_frame(7, &[3, (start >> 8) as u8, start as u8, 0, qty as u8]);
        let corrupt = i % 3 == 1;
        let mut f = good.clone();
        if corrupt {
            // keep the function code intact: the derived length stays the same, so the
            // receiver sees a complete frame with a wrong CRC (a changed length would leave it
            // waiting for bytes and swallow the next frame - legitimate on a serial line)
            let nbits = f.len() * 8;
            let pick = |rng: &mut vcommon::rng::Rng| loop {
                let bit = rng.usize_below(nbits);
                if bit / 8 != 1 {
                    return bit;
                }
            };
            let bit = pick(&mut rng);
            f[bit / 8] ^= 1 << (bit % 8);
            if rng.chance(1, 3) {
                let bit = pick(&mut rng);
                f[bit / 8] ^= 1 << (bit % 8);
            }
            if f == good {
                continue;
            }
        }
        // A valid frame may hit the short window in which the server has closed and is
        // re-opening the port after an earlier bad frame (bytes written then are lost by the
        // tty): an unanswered valid frame is retried; only a wrong answer, or silence on
        // every attempt, counts.
        let mut reply = vec![];
        for attempt in 0..(if corrupt { 1 } else { 3 }) {
            let p2 = pty.clone();
            let f2 = f.clone();
            reply = tokio::task::spawn_blocking(move || {
                p2.write(&f2);
                p2.read_for(Duration::from_millis(if corrupt { 150 } else { 600 }), Duration::from_millis(15))
            })
            .await
            .unwrap_or_default();
            if !reply.is_empty() || corrupt {
                break;
            }
            ev.count("pty_valid_frame_retries", 1);
            tokio::time::sleep(Duration::from_millis(300 * (attempt + 1))).await;
        }
        ev.eval();
        if corrupt {
            ev.count("pty_corrupted_frames", 1);
            // whatever the corruption did to the length, a reply may only come if the bytes
            // happen to form a CRC-valid frame (they do not: checked by the reference)
            let valid = matches!(vcommon::model::rtu_receive(vcommon::model::RtuDir::Request, &f), vcommon::model::RtuRx::Frame { .. });
            if !reply.is_empty() && !valid {
                problems.push(("pty:reply_to_corrupted_frame".into(), format!("corrupted frame {} was answered with {}", hex(&f), hex(&reply))));
            }
            // the session drops the port on a bad frame: give it time to reopen
            tokio::time::sleep(Duration::from_millis(120)).await;
            let p3 = pty.clone();
            let _ = tokio::task::spawn_blocking(move || p3.read_for(Duration::from_millis(5), Duration::from_millis(2))).await;
        } else {
            ev.count("pty_valid_frames", 1);
            let mut pdu = vec![3u8, (2 * qty) as u8];
            for k in 0..qty {
                pdu.extend_from_slice(&(start + k).wrapping_mul(3).to_be_bytes());
            }
            let want = rtu_frame(7, &pdu);
            if reply != want {
                problems.push(("pty:valid_frame_reply".into(), format!("request {} answered with {} expected {}", hex(&good), hex(&reply), hex(&want))));
            } else {
                ev.count("serial_frames_crc_checked", 1);
                let n = reply.len();
                debug_assert_eq!(crc16(&reply[..n - 2]), reply[n - 2] as u16 | ((reply[n - 1] as u16) << 8));
            }
        }
    }
    ev.class("rtu_server|pty|valid_and_corrupted_frames");
    let calls = log.lock().unwrap().clone();
    ev.count("strategy_calls_observed", calls.len() as u64);
    if calls.first() != Some(&SCall::Reset) {
        problems.push(("rtu_server:no_reset_after_open".into(), format!("strategy calls {:?}", &calls[..calls.len().min(6)])));
    }
    // every bad frame ends the session: after_disconnect(min) then reopen -> reset
    for w in calls.windows(2) {
        if let SCall::Disconnect(d) = &w[0] {
            if *d != Duration::from_millis(5) || w[1] != SCall::Reset {
                problems.push(("rtu_server:strategy_sequence".into(), format!("strategy calls {:?}", &calls[..calls.len().min(8)])));
                break;
            }
        }
    }
    let _ = handle.shutdown().await;
    if tokio::time::timeout(Duration::from_secs(10), jh).await.is_err() {
        problems.push(("rtu_server:task_did_not_terminate".into(), "RTU server task still running 10 s after shutdown".into()));
    }
    problems
}

fn unique_link(tag: &str) -> String {
    static N: std::sync::atomic::AtomicU64 = std::sync::atomic::AtomicU64::new(0);
    format!("/tmp/verif-tty-{}-{}-{}", std::process::id(), tag, N.fetch_add(1, std::sync::atomic::Ordering::SeqCst))
}

fn point_link(link: &str, target: &str) -> bool {
    let tmp = format!("{link}.new");
    let _ = std::fs::remove_file(&tmp);
    std::os::unix::fs::symlink(target, &tmp).is_ok() && std::fs::rename(&tmp, link).is_ok()
}

async fn next_port_state(rx: &mut mpsc::UnboundedReceiver<(PortState, Instant)>, want: &str, limit: Duration, seen: &mut Vec<&'static str>) -> Option<(PortState, Instant)> {
    let t0 = Instant::now();
    while t0.elapsed() < limit {
        match tokio::time::timeout(Duration::from_millis(50), rx.recv()).await {
            Ok(Some((s, t))) => {
                seen.push(port_name(&s));
                if port_name(&s) == want {
                    return Some((s, t));
                }
            }
            Ok(None) => return None,
            Err(_) => {}
        }
    }
    None
}

/// Serial client on a port that opens, is disabled / enabled, disappears and comes back (a symlink
/// that is re-pointed from one pty to another): the port must really be closed after a disable,
/// requests during the wait after the loss fail with no-connection, the port is re-opened no earlier
/// than the announced delay after the loss (measured from outside, at the pty master).
pub async fn serial_client_reopen(k: usize, ev: &mut Evidence) -> Vec<(String, String)> {
    let mut problems = vec![];
    let (Some(a), Some(b)) = (Pty::open_primed(), Pty::open_primed()) else {
        ev.count("pty_unavailable", 1);
        return problems;
    };
    let link = unique_link("client");
    if !point_link(&link, &a.slave_path) {
        ev.count("pty_unavailable", 1);
        return problems;
    }
    let min = Duration::from_millis(*[250u64, 400][k % 2..].first().unwrap());
    let max = Duration::from_millis(1000);
    let log = Arc::new(Mutex::new(vec![]));
    let (tx, mut rx) = mpsc::unbounded_channel();
    let (channel, task) = create_rtu_client_task(&link, settings(), 4, Box::new(LogStrategy { inner: doubling_retry_strategy(min, max), log: log.clone() }), DecodeLevel::nothing(), Some(Box::new(PortGate { tx })));
    let jh = tokio::spawn(task.run());
    let mut seen: Vec<&'static str> = vec![];
    let a = Arc::new(a);
    let b = Arc::new(b);
    let fail = |problems: &mut Vec<(String, String)>, sig: &str, what: String| problems.push((sig.to_string(), what));
    let mut a_closed_by_hand = false;
    'script: {
        let _ = channel.enable().await;
        if next_port_state(&mut rx, "Open", Duration::from_secs(3), &mut seen).await.is_none() {
            fail(&mut problems, "serial:port_never_open", format!("states {seen:?}"));
            break 'script;
        }
        let a2 = a.clone();
        if tokio::task::spawn_blocking(move || a2.wait_slave(true, Duration::from_secs(2))).await.ok().flatten().is_none() {
            ev.inconclusive("serial reopen leg: Open announced but the pty does not show the slave as held");
            break 'script;
        }
        // disable while open: Disabled is announced and the port is really released
        let _ = channel.disable().await;
        if next_port_state(&mut rx, "Disabled", Duration::from_secs(3), &mut seen).await.is_none() {
            fail(&mut problems, "serial:no_disabled_after_disable", format!("states {seen:?}"));
            break 'script;
        }
        let a2 = a.clone();
        if tokio::task::spawn_blocking(move || a2.wait_slave(false, Duration::from_secs(2))).await.ok().flatten().is_none() {
            fail(&mut problems, "serial:port_still_open_after_disable", "the channel reports Disabled but still holds the serial port open 2 s later".to_string());
            break 'script;
        }
        ev.count("serial_port_released_after_disable", 1);
        let _ = channel.enable().await;
        if next_port_state(&mut rx, "Open", Duration::from_secs(3), &mut seen).await.is_none() {
            fail(&mut problems, "serial:no_open_after_enable", format!("states {seen:?}"));
            break 'script;
        }
        // the port disappears: the link now leads to another device, the first one is hung up
        if !point_link(&link, &b.slave_path) {
            ev.inconclusive("serial reopen leg: cannot re-point the symlink");
            break 'script;
        }
        let t_kill = Instant::now();
        unsafe { libc::close(a.master) };
        a_closed_by_hand = true;
        let Some((PortState::Wait(d), _)) = next_port_state(&mut rx, "Wait", Duration::from_secs(3), &mut seen).await else {
            fail(&mut problems, "serial:no_wait_after_port_loss", format!("states {seen:?}"));
            break 'script;
        };
        if d != min {
            fail(&mut problems, "serial:delay_after_port_loss", format!("Wait({d:?}) announced after a lost port, the strategy's minimum is {min:?}"));
        }
        // a request during that wait fails with no-connection
        let r = channel.read_coils(RequestParam::new(UnitId::new(1), Duration::from_millis(100)), AddressRange::try_from(0, 1).unwrap()).await;
        ev.count("serial_requests_during_wait_after_loss", 1);
        if r != Err(RequestError::NoConnection) {
            fail(&mut problems, &format!("serial:request_during_wait_after_loss:{}", match &r { Ok(_) => "ok".to_string(), Err(e) => format!("{e:?}").split('(').next().unwrap().to_string() }), format!("a request submitted while the serial channel was waiting to re-open a lost port completed with {r:?}"));
        }
        let b2 = b.clone();
        let Some(t_open) = tokio::task::spawn_blocking(move || b2.wait_slave(true, Duration::from_secs(5))).await.ok().flatten() else {
            fail(&mut problems, "serial:port_not_reopened", format!("the port was not re-opened within 5 s after it came back; states {seen:?}"));
            break 'script;
        };
        ev.count("serial_reopen_waits_measured", 1);
        // the loss happened at or after t_kill, the open at or before t_open
        if t_open.duration_since(t_kill) < min {
            fail(&mut problems, "serial:reopened_before_announced_delay", format!("Wait({d:?}) announced, but the port was opened again {:?} after it was lost", t_open.duration_since(t_kill)));
        }
        if next_port_state(&mut rx, "Open", Duration::from_secs(3), &mut seen).await.is_none() {
            fail(&mut problems, "serial:no_open_after_reopen", format!("states {seen:?}"));
            break 'script;
        }
        // and it works: a request appears on the new device
        let ch2 = channel.clone();
        let req = tokio::spawn(async move { ch2.read_holding_registers(RequestParam::new(UnitId::new(9), Duration::from_millis(150)), AddressRange::try_from(3, 2).unwrap()).await });
        let b2 = b.clone();
        let seen_bytes = tokio::task::spawn_blocking(move || b2.read_for(Duration::from_millis(500), Duration::from_millis(30))).await.unwrap_or_default();
        let _ = req.await;
        if seen_bytes != rtu_frame(9, &[3, 0, 3, 0, 2]) {
            fail(&mut problems, "serial:client_request_bytes_after_reopen", format!("after the re-open the client emitted {}", hex(&seen_bytes)));
        } else {
            ev.count("serial_frames_crc_checked", 1);
        }
    }
    let _ = channel.shutdown().await;
    if tokio::time::timeout(Duration::from_secs(10), jh).await.is_err() {
        problems.push(("serial:task_did_not_terminate:reopen".into(), "serial client task still running 10 s after shutdown".into()));
    }
    let _ = std::fs::remove_file(&link);
    // `a`'s descriptor may already be closed by hand: do not close it twice
    if a_closed_by_hand {
        if let Ok(p) = Arc::try_unwrap(a) {
            std::mem::forget(p);
        }
    }
    ev.class(format!("serial_client|reopen|{}", seen.iter().take(8).cloned().collect::<Vec<_>>().join(">")));
    problems
}

/// RTU server whose port disappears and comes back: the re-open happens no earlier than the
/// strategy's delay after the loss (measured at the pty master), and the server answers again.
pub async fn rtu_server_reopen(k: usize, ev: &mut Evidence) -> Vec<(String, String)> {
    let mut problems = vec![];
    let (Some(a), Some(b)) = (Pty::open_primed(), Pty::open_primed()) else {
        ev.count("pty_unavailable", 1);
        return problems;
    };
    let link = unique_link("server");
    if !point_link(&link, &a.slave_path) {
        ev.count("pty_unavailable", 1);
        return problems;
    }
    let min = Duration::from_millis(*[300u64, 450][k % 2..].first().unwrap());
    let log = Arc::new(Mutex::new(vec![]));
    let entered = Arc::new(std::sync::atomic::AtomicBool::new(false));
    let gate = Arc::new((Mutex::new(false), std::sync::Condvar::new()));
    let writes = Arc::new(Mutex::new(vec![]));
    let map = ServerHandlerMap::single(UnitId::new(7), GatedRegs { entered: entered.clone(), gate: gate.clone(), writes: writes.clone() }.wrap());
    let (handle, task) = create_rtu_server_task(&link, settings(), Box::new(LogStrategy { inner: doubling_retry_strategy(min, Duration::from_secs(2)), log: log.clone() }), map, DecodeLevel::nothing());
    // the server gets a runtime of its own: one of its handlers blocks its thread on purpose (k = 2, 5, ...),
    // which must not hold up the timers of this script
    let Ok(server_rt) = tokio::runtime::Builder::new_multi_thread().worker_threads(1).enable_all().build() else {
        ev.inconclusive("rtu server reopen leg: cannot build a runtime");
        return problems;
    };
    let jh = server_rt.spawn(task.run());
    let a = Arc::new(a);
    let b = Arc::new(b);
    let mut a_closed_by_hand = false;
    'script: {
        let a2 = a.clone();
        if tokio::task::spawn_blocking(move || a2.wait_slave(true, Duration::from_secs(3))).await.ok().flatten().is_none() {
            problems.push(("rtu_server:port_never_opened".into(), "the RTU server did not open its port within 3 s".into()));
            break 'script;
        }
        // let it serve for longer than the delay, and check that it does serve
        tokio::time::sleep(min + Duration::from_millis(100)).await;
        let good = rtu_frame(7, &[3, 0, 5, 0, 2]);
        let want = rtu_frame(7, &[3, 4, 0, 15, 0, 18]);
        let (a2, g2) = (a.clone(), good.clone());
        let reply = tokio::task::spawn_blocking(move || {
            a2.write(&g2);
            a2.read_for(Duration::from_millis(600), Duration::from_millis(15))
        })
        .await
        .unwrap_or_default();
        if reply != want {
            problems.push(("rtu_server:valid_frame_reply".into(), format!("request {} answered with {}", hex(&good), hex(&reply))));
            break 'script;
        }
        // the beginning of a frame is still on its way when the port goes away: the new port is a new
        // stream and must not inherit it
        if k % 2 == 1 && k % 3 != 2 {
            let a2 = a.clone();
            let _ = tokio::task::spawn_blocking(move || a2.write(&[7, 3, 0])).await;
            tokio::time::sleep(Duration::from_millis(40)).await;
            ev.count("rtu_server_port_lost_mid_frame", 1);
        }
        // k = 2, 5, ...: the port goes away while a request is being answered and a second, complete
        // request is already buffered behind it: that request was received on the old port and must
        // neither be executed nor answered on the new one
        let stale_request = k % 3 == 2;
        if stale_request {
            let mut both = rtu_frame(7, &[3, 0x07, 0x77, 0, 1]);
            both.extend_from_slice(&rtu_frame(7, &[6, 0, 9, 0xBE, 0xEF]));
            let a2 = a.clone();
            let _ = tokio::task::spawn_blocking(move || a2.write(&both)).await;
            let t0 = Instant::now();
            while !entered.load(std::sync::atomic::Ordering::SeqCst) && t0.elapsed() < Duration::from_secs(3) {
                tokio::time::sleep(Duration::from_millis(5)).await;
            }
            if !entered.load(std::sync::atomic::Ordering::SeqCst) {
                ev.inconclusive("rtu server reopen leg: the gated read never reached the handler");
                break 'script;
            }
            tokio::time::sleep(Duration::from_millis(60)).await;
            ev.count("rtu_server_port_lost_while_answering", 1);
        }
        if !point_link(&link, &b.slave_path) {
            ev.inconclusive("rtu server reopen leg: cannot re-point the symlink");
            break 'script;
        }
        let t_kill = Instant::now();
        unsafe { libc::close(a.master) };
        a_closed_by_hand = true;
        if stale_request {
            // let the handler return: the reply cannot be written any more
            let (m, cv) = &*gate;
            *m.lock().unwrap() = true;
            cv.notify_all();
        }
        let b2 = b.clone();
        let Some(t_open) = tokio::task::spawn_blocking(move || b2.wait_slave(true, Duration::from_secs(6))).await.ok().flatten() else {
            problems.push(("rtu_server:port_not_reopened".into(), "the RTU server did not re-open its port within 6 s after it came back".into()));
            break 'script;
        };
        ev.count("rtu_server_reopen_waits_measured", 1);
        let calls = log.lock().unwrap().clone();
        let announced = calls.iter().rev().find_map(|c| match c {
            SCall::Disconnect(d) | SCall::Fail(d) => Some(*d),
            _ => None,
        });
        if t_open.duration_since(t_kill) < min {
            problems.push(("rtu_server:reopened_before_strategy_delay".into(), format!("the strategy returned {announced:?} after the port was lost, but the port was opened again {:?} after the loss", t_open.duration_since(t_kill))));
        }
        tokio::time::sleep(Duration::from_millis(50)).await;
        if stale_request {
            // nobody has sent anything on the new port yet
            let b2 = b.clone();
            let unsolicited = tokio::task::spawn_blocking(move || b2.read_for(Duration::from_millis(400), Duration::from_millis(15))).await.unwrap_or_default();
            // (executed on the old opening, before the loss was noticed, is an ordinary race; executed
            // after the new opening is the old stream leaking into the new one)
            if let Some(x) = writes.lock().unwrap().first() {
                ev.sample(json!({"rtu_server_reopen_stale_request": {"write_executed_ms_after_port_loss": x.2.saturating_duration_since(t_kill).as_millis() as u64, "write_executed_ms_before_port_loss": t_kill.saturating_duration_since(x.2).as_millis() as u64, "reopened_ms_after_port_loss": t_open.duration_since(t_kill).as_millis() as u64}}));
            }
            // the old session ends within milliseconds of the loss (its reply cannot be written) and the
            // server then waits `min` (>= 300 ms) before it opens the port again: what runs in the second
            // half of that wait or later runs on the new opening
            let w: Vec<(u16, u16)> = writes.lock().unwrap().iter().filter(|x| x.2 > t_kill + min / 2).map(|x| (x.0, x.1)).collect();
            if !unsolicited.is_empty() || !w.is_empty() {
                problems.push((
                    "rtu_server:no_service_after_reopen:request_of_old_port_executed".into(),
                    format!("a write request received on the old port (behind a request whose reply could no longer be written) was carried over to the re-opened port: handler writes after the re-open {w:?}, bytes sent on the new port before any request: {}", hex(&unsolicited)),
                ));
            }
        }
        let (b2, g2) = (b.clone(), good.clone());
        let reply = tokio::task::spawn_blocking(move || {
            b2.write(&g2);
            b2.read_for(Duration::from_millis(600), Duration::from_millis(15))
        })
        .await
        .unwrap_or_default();
        if reply != want {
            problems.push(("rtu_server:no_service_after_reopen".into(), format!("after the re-open, request {} was answered with {}", hex(&good), hex(&reply))));
        } else {
            ev.count("serial_frames_crc_checked", 1);
        }
    }
    let _ = handle.shutdown().await;
    if tokio::time::timeout(Duration::from_secs(10), jh).await.is_err() {
        problems.push(("rtu_server:task_did_not_terminate".into(), "RTU server task still running 10 s after shutdown".into()));
    }
    server_rt.shutdown_background();
    let _ = std::fs::remove_file(&link);
    if a_closed_by_hand {
        if let Ok(p) = Arc::try_unwrap(a) {
            std::mem::forget(p);
        }
    }
    ev.class("rtu_server|pty|port_lost_and_back");
    problems
}

/// A port speed the driver happens to accept although it makes no sense (0 baud on a pty): whatever
/// the channel does with it, its task must not die - the listener still ends with Shutdown.
pub async fn serial_odd_settings(ev: &mut Evidence) -> Vec<(String, String)> {
    let mut problems = vec![];
    for baud in [0u32, 1, u32::MAX] {
        let Some(pty) = Pty::open() else {
            ev.count("pty_unavailable", 1);
            return problems;
        };
        let (tx, mut rx) = mpsc::unbounded_channel();
        let (channel, task) = create_rtu_client_task(
            &pty.slave_path,
            SerialSettings { baud_rate: baud, ..Default::default() },
            4,
            doubling_retry_strategy(Duration::from_millis(20), Duration::from_millis(40)),
            DecodeLevel::nothing(),
            Some(Box::new(PortGate { tx })),
        );
        let jh = tokio::spawn(task.run());
        let _ = channel.enable().await;
        tokio::time::sleep(Duration::from_millis(150)).await;
        let r = tokio::time::timeout(Duration::from_secs(3), channel.read_coils(RequestParam::new(UnitId::new(1), Duration::from_millis(50)), AddressRange::try_from(0, 1).unwrap())).await;
        let _ = channel.shutdown().await;
        let end = tokio::time::timeout(Duration::from_secs(5), jh).await;
        let mut names = vec![];
        while let Ok((s, _)) = rx.try_recv() {
            names.push(port_name(&s));
        }
        ev.eval();
        ev.count("serial_odd_settings_scripts", 1);
        ev.class(format!("serial_client|baud={baud}|{}", names.iter().take(3).cloned().collect::<Vec<_>>().join(">")));
        match end {
            Ok(Ok(_)) => {}
            Ok(Err(e)) => problems.push((format!("serial:task_{}:baud={baud}", if e.is_panic() { "panicked" } else { "cancelled" }), format!("serial client task with baud rate {baud} ended abnormally: {e}; states {names:?}; request result {r:?}"))),
            Err(_) => problems.push((format!("serial:task_did_not_terminate:baud={baud}"), format!("states {names:?}"))),
        }
        if names.last() != Some(&"Shutdown") {
            problems.push((format!("serial:shutdown_not_last:baud={baud}"), format!("port listener path {names:?}")));
        }
    }
    problems
}

pub fn merge(ev: &mut Evidence, problems: Vec<(String, String)>, what: &str) {
    for (sig, text) in problems {
        ev.violation(sig, text, json!({"leg": what}));
    }
}

/// The 3.5-character silence the serial client keeps before it transmits is the library's own
/// business: it must not eat into a request's response timeout (C12: the timeout runs from
/// transmission), must not be reported as an I/O error that closes the port, and whatever arrives
/// during it arrives while no request is outstanding (C11: dropped, never a result).
/// `scenario` 0: short timeouts against a peer that answers at once (1200 baud, gap 32 ms);
/// 1: a late reply to a timed-out request delivered inside the gap of the next one (300 baud, 128 ms).
pub async fn serial_gap(scenario: usize, k: usize, ev: &mut Evidence) -> Vec<(String, String)> {
    let mut problems = vec![];
    let Some(pty) = Pty::open() else {
        ev.count("pty_unavailable", 1);
        return problems;
    };
    let pty = Arc::new(pty);
    let baud = if scenario == 0 { 1200 } else { 300 };
    let (tx, mut rx) = mpsc::unbounded_channel();
    let (mut channel, task) = create_rtu_client_task(
        &pty.slave_path,
        SerialSettings { baud_rate: baud, ..Default::default() },
        8,
        doubling_retry_strategy(Duration::from_millis(200), Duration::from_millis(200)),
        DecodeLevel::nothing(),
        Some(Box::new(PortGate { tx })),
    );
    let jh = tokio::spawn(task.run());
    let _ = channel.enable().await;
    let mut seen: Vec<&'static str> = vec![];
    if next_port_state(&mut rx, "Open", Duration::from_secs(3), &mut seen).await.is_none() {
        ev.inconclusive("serial gap leg: the port never opened");
        return problems;
    }
    ev.count("serial_gap_scenarios", 1);
    ev.class(format!("serial_gap|scenario{scenario}|baud={baud}"));
    let stop = Arc::new(std::sync::atomic::AtomicBool::new(false));
    let range = AddressRange::try_from(0, 1).unwrap();
    if scenario == 0 {
        // the peer answers every complete request (8 bytes) at once, with the request's position as value
        let (p2, stop2) = (pty.clone(), stop.clone());
        let peer = std::thread::spawn(move || {
            let mut got = vec![];
            let mut answered = 0u16;
            let mut buf = [0u8; 256];
            while !stop2.load(std::sync::atomic::Ordering::SeqCst) {
                let n = unsafe { libc::read(p2.master, buf.as_mut_ptr() as *mut libc::c_void, buf.len()) };
                if n > 0 {
                    got.extend_from_slice(&buf[..n as usize]);
                    while got.len() >= 8 * (answered as usize + 1) {
                        answered += 1;
                        p2.write(&rtu_frame(1, &[3, 2, (answered >> 8) as u8, answered as u8]));
                    }
                } else {
                    std::thread::sleep(Duration::from_micros(200));
                }
            }
            answered
        });
        let timeout = Duration::from_millis([5u64, 10, 20][k % 3]);
        let n = 5usize;
        let mut results = vec![];
        for _ in 0..n {
            results.push(channel.read_holding_registers(RequestParam::new(UnitId::new(1), timeout), range).await);
        }
        tokio::time::sleep(Duration::from_millis(100)).await;
        stop.store(true, std::sync::atomic::Ordering::SeqCst);
        let answered = peer.join().unwrap_or(0);
        while let Ok((s, _)) = rx.try_recv() {
            seen.push(port_name(&s));
        }
        ev.class(format!("serial_gap|scenario0|timeout={}ms|transmitted={answered}", timeout.as_millis()));
        for (i, r) in results.iter().enumerate() {
            ev.count("serial_gap_requests", 1);
            match r {
                Ok(_) | Err(RequestError::ResponseTimeout) => {}
                Err(e) => {
                    problems.push((
                        format!("serial_gap:request_failed:{}", format!("{e:?}").split('(').next().unwrap()),
                        format!("request #{i} of {n} back-to-back requests (timeout {timeout:?}, 1200 baud: 32 ms of silence between frames) to a peer that answers at once failed with {e:?}; results {results:?}; port states {seen:?}"),
                    ));
                    break; // what follows is a consequence
                }
            }
        }
        if answered as usize != n {
            problems.push(("serial_gap:request_not_transmitted".into(), format!("{n} requests were submitted (timeout {timeout:?}), {answered} reached the peer; results {results:?}; port states {seen:?}")));
        }
        if seen.iter().any(|s| *s == "Wait") {
            problems.push(("serial_gap:port_closed".into(), format!("the port was closed although no I/O failed; port states {seen:?}; results {results:?}")));
        }
    } else {
        // request 1 times out; its reply comes late, while request 2 waits for the line to be silent
        let (p2, stop2) = (pty.clone(), stop.clone());
        let peer = std::thread::spawn(move || {
            // returns (bytes of request 2 present when the late reply was written, total bytes received)
            let mut got = vec![];
            let mut buf = [0u8; 256];
            let mut late_sent: Option<usize> = None;
            let mut t_first: Option<Instant> = None;
            while !stop2.load(std::sync::atomic::Ordering::SeqCst) {
                let n = unsafe { libc::read(p2.master, buf.as_mut_ptr() as *mut libc::c_void, buf.len()) };
                if n > 0 {
                    got.extend_from_slice(&buf[..n as usize]);
                    if got.len() >= 8 && t_first.is_none() {
                        t_first = Some(Instant::now());
                    }
                } else {
                    std::thread::sleep(Duration::from_micros(200));
                }
                if let (Some(t), None) = (t_first, late_sent) {
                    if t.elapsed() >= Duration::from_millis(40) {
                        // nothing of request 2 has been transmitted if only request 1 is here
                        late_sent = Some(got.len() - 8);
                        p2.write(&rtu_frame(1, &[3, 2, 0xDE, 0xAD]));
                    }
                }
            }
            (late_sent, got.len())
        });
        let r1 = channel.read_holding_registers(RequestParam::new(UnitId::new(1), Duration::from_millis(10)), range).await;
        let r2 = channel.read_holding_registers(RequestParam::new(UnitId::new(1), Duration::from_millis(600)), range).await;
        stop.store(true, std::sync::atomic::Ordering::SeqCst);
        let (late_sent, total) = peer.join().unwrap_or((None, 0));
        ev.count("serial_gap_requests", 2);
        match (late_sent, &r2) {
            (Some(0), Ok(v)) => problems.push((
                "serial_gap:frame_received_before_transmission_became_result".into(),
                format!("request 1 timed out ({r1:?}); its reply (0xDEAD) was written 40 ms later, when no byte of request 2 had been transmitted (300 baud: request 2 was waiting for 128 ms of silence); request 2 completed with {v:?}"),
            )),
            (Some(0), Err(RequestError::ResponseTimeout)) => ev.count("serial_gap_late_reply_dropped", 1),
            (Some(0), Err(e)) => problems.push((format!("serial_gap:scenario1:{}", format!("{e:?}").split('(').next().unwrap()), format!("request 2 failed with {e:?} (request 1: {r1:?})"))),
            // the late reply went out after request 2 had (partly) been transmitted, or never: not the case to judge
            _ => ev.count("serial_gap_scenario1_not_reached", 1),
        }
        let _ = total;
    }
    let _ = channel.shutdown().await;
    let _ = tokio::time::timeout(Duration::from_secs(5), jh).await;
    problems
}

/// "The sequence restarts at min after any successful connection" - also when the successful
/// opening ended without any failure: failed opens (doubling advances), the port appears and is
/// opened, the channel is disabled and enabled again (k even) or shut ... while the port is gone
/// again: the first wait of the new sequence is `min`.
pub async fn serial_client_restart(k: usize, ev: &mut Evidence) -> Vec<(String, String)> {
    let mut problems = vec![];
    let Some(pty) = Pty::open() else {
        ev.count("pty_unavailable", 1);
        return problems;
    };
    let link = unique_link("restart");
    let nowhere = format!("{link}.nowhere");
    if !point_link(&link, &nowhere) {
        ev.count("pty_unavailable", 1);
        return problems;
    }
    let min = Duration::from_millis([60u64, 90][k % 2]);
    let max = Duration::from_millis(2000);
    let (tx, mut rx) = mpsc::unbounded_channel();
    let (channel, task) = create_rtu_client_task(&link, settings(), 4, doubling_retry_strategy(min, max), DecodeLevel::nothing(), Some(Box::new(PortGate { tx })));
    let jh = tokio::spawn(task.run());
    let mut seen: Vec<&'static str> = vec![];
    let fails_before = 2 + k % 3;
    'script: {
        let _ = channel.enable().await;
        let mut waits = vec![];
        for _ in 0..fails_before {
            match next_port_state(&mut rx, "Wait", Duration::from_secs(5), &mut seen).await {
                Some((PortState::Wait(d), _)) => waits.push(d),
                _ => {
                    ev.inconclusive(format!("serial restart leg: expected a wait, states {seen:?}"));
                    break 'script;
                }
            }
        }
        // the port appears: the attempt after the current wait opens it
        if !point_link(&link, &pty.slave_path) {
            ev.inconclusive("serial restart leg: cannot point the link at the pty");
            break 'script;
        }
        if next_port_state(&mut rx, "Open", Duration::from_secs(6), &mut seen).await.is_none() {
            problems.push(("serial_restart:port_never_open".into(), format!("states {seen:?}")));
            break 'script;
        }
        let _ = channel.disable().await;
        if next_port_state(&mut rx, "Disabled", Duration::from_secs(3), &mut seen).await.is_none() {
            problems.push(("serial_restart:no_disabled_after_disable".into(), format!("states {seen:?}")));
            break 'script;
        }
        // the port is gone again when the channel is enabled
        if !point_link(&link, &nowhere) {
            ev.inconclusive("serial restart leg: cannot re-point the link");
            break 'script;
        }
        let _ = channel.enable().await;
        let Some((PortState::Wait(d), _)) = next_port_state(&mut rx, "Wait", Duration::from_secs(5), &mut seen).await else {
            problems.push(("serial_restart:no_wait_after_failed_open".into(), format!("states {seen:?}")));
            break 'script;
        };
        ev.eval();
        ev.count("serial_restart_sequences", 1);
        ev.class(format!("serial_restart|failed_opens_before={fails_before}|first_wait_after={}", if d == min { "min" } else { "other" }));
        if d != min {
            problems.push((
                "serial_restart:delay_not_restarted_at_min".into(),
                format!("{fails_before} failed opens (waits {waits:?}), then the port was opened, the channel disabled and enabled again with the port gone: the first wait is {d:?}, the strategy's minimum is {min:?}"),
            ));
        }
    }
    let _ = channel.shutdown().await;
    let _ = tokio::time::timeout(Duration::from_secs(5), jh).await;
    let _ = std::fs::remove_file(&link);
    problems
}

/// RTU server task and the retry strategy when the port cannot be opened: failed opens double the
/// wait up to the cap, a successful opening restarts the sequence (reset), a lost port waits `min`
/// and the failed opens that follow start at `min` again.
pub async fn rtu_server_failed_opens(k: usize, ev: &mut Evidence) -> Vec<(String, String)> {
    let mut problems = vec![];
    let Some(a) = Pty::open_primed() else {
        ev.count("pty_unavailable", 1);
        return problems;
    };
    let link = unique_link("srvfail");
    let nowhere = format!("{link}.nowhere");
    if !point_link(&link, &nowhere) {
        ev.count("pty_unavailable", 1);
        return problems;
    }
    let min = Duration::from_millis([40u64, 55][k % 2]);
    let max = Duration::from_millis([130u64, 200][k % 2]);
    let log = Arc::new(Mutex::new(vec![]));
    let map = ServerHandlerMap::single(UnitId::new(7), Regs.wrap());
    let (handle, task) = create_rtu_server_task(&link, settings(), Box::new(LogStrategy { inner: doubling_retry_strategy(min, max), log: log.clone() }), map, DecodeLevel::nothing());
    let jh = tokio::spawn(task.run());
    let a = Arc::new(a);
    let wait_calls = |n: usize, limit: Duration| {
        let log = log.clone();
        async move {
            let t0 = Instant::now();
            while log.lock().unwrap().len() < n && t0.elapsed() < limit {
                tokio::time::sleep(Duration::from_millis(5)).await;
            }
            log.lock().unwrap().len() >= n
        }
    };
    let fails_first = 4 + k % 2;
    'script: {
        if !wait_calls(fails_first, Duration::from_secs(5)).await {
            problems.push(("rtu_server_failed_opens:no_retries".into(), format!("the RTU server made {} strategy calls in 5 s with a port that cannot be opened", log.lock().unwrap().len())));
            break 'script;
        }
        // the port appears
        if !point_link(&link, &a.slave_path) {
            ev.inconclusive("rtu server failed-opens leg: cannot point the link at the pty");
            break 'script;
        }
        let a2 = a.clone();
        if tokio::task::spawn_blocking(move || a2.wait_slave(true, Duration::from_secs(4))).await.ok().flatten().is_none() {
            problems.push(("rtu_server_failed_opens:port_not_opened".into(), "the port appeared but was not opened within 4 s".into()));
            break 'script;
        }
        let n_open = log.lock().unwrap().len();
        tokio::time::sleep(Duration::from_millis(60)).await;
        // and disappears again: a wait of `min`, then failed opens starting at `min`
        if !point_link(&link, &nowhere) {
            ev.inconclusive("rtu server failed-opens leg: cannot re-point the link");
            break 'script;
        }
        unsafe { libc::close(a.master) };
        if !wait_calls(n_open + 4, Duration::from_secs(5)).await {
            problems.push(("rtu_server_failed_opens:no_retries_after_loss".into(), format!("strategy calls {:?}", log.lock().unwrap())));
            break 'script;
        }
    }
    let _ = handle.shutdown().await;
    if tokio::time::timeout(Duration::from_secs(10), jh).await.is_err() {
        problems.push(("rtu_server:task_did_not_terminate".into(), "RTU server task still running 10 s after shutdown".into()));
    }
    let _ = std::fs::remove_file(&link);
    if let Ok(p) = Arc::try_unwrap(a) {
        std::mem::forget(p); // the master was closed by hand
    }
    // the whole call log against the arithmetic: k-th consecutive failure since the last reset -> min * 2^(k-1) capped
    let calls = log.lock().unwrap().clone();
    ev.eval();
    ev.count("rtu_server_failed_open_scripts", 1);
    ev.count("strategy_calls_observed", calls.len() as u64);
    let mut kf = 0u32;
    let mut resets = 0;
    for (i, c) in calls.iter().enumerate() {
        match c {
            SCall::Fail(d) => {
                kf += 1;
                let want = min.checked_mul(2u32.saturating_pow(kf - 1)).unwrap_or(max).min(max);
                ev.class(format!("rtu_server|failed_open|k={}|{}", kf.min(4), if *d == max { "max" } else if *d == min { "min" } else { "between" }));
                if *d != want {
                    problems.push(("rtu_server_failed_opens:delay".into(), format!("call #{i}: failed open #{kf} since the last successful opening waited {d:?}, expected {want:?}; calls {calls:?}")));
                    break;
                }
            }
            SCall::Reset => {
                kf = 0;
                resets += 1;
            }
            SCall::Disconnect(d) => {
                ev.class("rtu_server|port_lost|min".to_string());
                if *d != min {
                    problems.push(("rtu_server_failed_opens:disconnect_delay".into(), format!("call #{i}: after the port was lost the wait is {d:?}, expected min = {min:?}; calls {calls:?}")));
                    break;
                }
            }
        }
    }
    if problems.is_empty() && (resets != 1 || !calls.iter().any(|c| matches!(c, SCall::Disconnect(_)))) {
        problems.push(("rtu_server_failed_opens:grammar".into(), format!("expected failed opens, one reset at the successful opening, one disconnect, failed opens; calls {calls:?}")));
    }
    problems
}
