//! C15: server sessions are bounded, the oldest is evicted, sessions are isolated, and
//! shutdown / dropping the handle closes everything.

use crate::net::*;
use rodbus::server::*;
use rodbus::*;
use serde_json::json;
use std::net::SocketAddr;
use std::time::{Duration, Instant};
use tokio::io::AsyncWriteExt;
use tokio::net::TcpStream;
use vcommon::report::*;
use vcommon::rng::Rng;

#[derive(Clone, Debug, PartialEq)]
enum Ev {
    Connect,
    ClientClose(usize),
    Request(usize),
    Garbage(usize),
    SetDecode,
    Shutdown,
    DropHandle,
}

fn gen_history(rng: &mut Rng) -> (usize, Vec<Ev>) {
    let max_sessions = rng.usize_below(5);
    let len = 4 + rng.usize_below(26);
    let mut evs = vec![];
    for i in 0..len {
        let e = match rng.below(20) {
            0..=7 => Ev::Connect,
            8 | 9 => Ev::ClientClose(rng.usize_below(8)),
            10..=13 => Ev::Request(rng.usize_below(8)),
            14 | 15 => Ev::Garbage(rng.usize_below(8)),
            16 => Ev::SetDecode,
            17 => {
                if i > len / 2 && rng.chance(1, 2) {
                    if rng.chance(1, 2) { Ev::Shutdown } else { Ev::DropHandle }
                } else {
                    Ev::Connect
                }
            }
            _ => Ev::Connect,
        };
        let end = matches!(e, Ev::Shutdown | Ev::DropHandle);
        evs.push(e);
        if end {
            break;
        }
    }
    if !matches!(evs.last(), Some(Ev::Shutdown | Ev::DropHandle)) {
        evs.push(if rng.chance(1, 2) { Ev::Shutdown } else { Ev::DropHandle });
    }
    (max_sessions, evs)
}

struct Sock {
    id: usize,
    s: TcpStream,
}

/// run one history; `settle` is the grace given to the server to notice closed peers
async fn run_history(max_sessions: usize, evs: &[Ev], settle: Duration, ev: &mut Evidence) -> Vec<(String, String)> {
    let mut problems: Vec<(String, String)> = vec![];
    let listener = tokio::net::TcpListener::bind("127.0.0.1:0").await.unwrap();
    let addr: SocketAddr = listener.local_addr().unwrap();
    let map = ServerHandlerMap::single(UnitId::new(1), Fixed.wrap());
    let (handle, task) = create_tcp_server_task(max_sessions, listener, map, AddressFilter::Any, DecodeLevel::nothing());
    let jh = tokio::spawn(task.run());
    let mut handle = Some(handle);
    let limit = max_sessions.max(1);
    // model: ordered list of live session ids (oldest first)
    let mut live: Vec<Sock> = vec![];
    let mut next_id = 0usize;
    let mut tx: u16 = 1;
    let wait = Duration::from_secs(5);
    let mut ended = false;

    for (step, e) in evs.iter().enumerate() {
        ev.count("events", 1);
        match e {
            Ev::Connect => {
                let s = match connect_from(None, addr).await {
                    Ok(s) => s,
                    Err(err) => {
                        problems.push(("connect_refused_while_running".into(), format!("step {step}: connect failed: {err}")));
                        break;
                    }
                };
                let mut new = Sock { id: next_id, s };
                next_id += 1;
                tx = tx.wrapping_add(1);
                // the new connection must be served even at the limit
                match probe(&mut new.s, tx, 1, wait).await {
                    Probe::Alive(_) => {}
                    other => {
                        problems.push((
                            format!("new_connection_not_served:{}:at_limit={}", other.name(), live.len() >= limit),
                            format!("step {step}: connection #{} (live before: {}, limit {limit}) was not served: {}", new.id, live.len(), other.name()),
                        ));
                        break;
                    }
                }
                if live.len() >= limit {
                    // exactly the oldest session must have been closed
                    let mut oldest = live.remove(0);
                    match expect_closed(&mut oldest.s, wait).await {
                        Probe::Closed => ev.count("evictions_observed", 1),
                        other => {
                            problems.push((
                                format!("oldest_not_evicted:{}", other.name()),
                                format!("step {step}: session #{} is the oldest and must be closed when #{} arrives at the limit {limit}, but it is {}", oldest.id, new.id, other.name()),
                            ));
                            break;
                        }
                    }
                }
                live.push(new);
                // every other session must still be served
                let mut bad = None;
                for k in live.iter_mut() {
                    tx = tx.wrapping_add(1);
                    let p = probe(&mut k.s, tx, 1, wait).await;
                    if !matches!(p, Probe::Alive(_)) {
                        bad = Some((k.id, p.name()));
                        break;
                    }
                    ev.count("alive_probes", 1);
                }
                if let Some((id, what)) = bad {
                    problems.push((
                        format!("wrong_session_closed:{what}"),
                        format!("step {step}: session #{id} should be alive after a connect (live {}, limit {limit}) but is {what}", live.len()),
                    ));
                    break;
                }
            }
            Ev::ClientClose(i) => {
                if !live.is_empty() {
                    let k = live.remove(i % live.len());
                    drop(k);
                    tokio::time::sleep(settle).await;
                }
            }
            Ev::Request(i) => {
                if !live.is_empty() {
                    let n = live.len();
                    let k = &mut live[i % n];
                    tx = tx.wrapping_add(1);
                    let p = probe(&mut k.s, tx, 1, wait).await;
                    if !matches!(p, Probe::Alive(_)) {
                        problems.push((format!("live_session_not_served:{}", p.name()), format!("step {step}: session #{} is {}", k.id, p.name())));
                        break;
                    }
                    ev.count("alive_probes", 1);
                }
            }
            Ev::Garbage(i) => {
                if !live.is_empty() {
                    let mut k = live.remove(i % live.len());
                    // input that ends a session (C05): bad protocol id, zero length, length above 254,
                    // 300 bytes of 0xFF: that session ends, nobody else is disturbed
                    let kind = (step + i) % 4;
                    let garbage: Vec<u8> = match kind {
                        0 => vec![0, 1, 0x12, 0x34, 0, 6, 1, 3, 0, 0, 0, 1],
                        1 => vec![0, 2, 0, 0, 0, 0, 1, 3, 0, 0, 0, 1],
                        2 => vec![0, 3, 0, 0, 0x01, 0x2C, 1, 3, 0, 0, 0, 1],
                        _ => vec![0xFF; 300],
                    };
                    ev.class(format!("garbage_kind|{}", ["bad_protocol_id", "zero_length", "length_300", "ff_x300"][kind]));
                    let _ = k.s.write_all(&garbage).await;
                    match expect_closed(&mut k.s, wait).await {
                        Probe::Closed => {}
                        other => {
                            problems.push((format!("garbage_session_not_closed:{}", other.name()), format!("step {step}: session #{} received a malformed header and is {}", k.id, other.name())));
                            break;
                        }
                    }
                    tokio::time::sleep(settle).await;
                    let mut bad = None;
                    for o in live.iter_mut() {
                        tx = tx.wrapping_add(1);
                        let p = probe(&mut o.s, tx, 1, wait).await;
                        if !matches!(p, Probe::Alive(_)) {
                            bad = Some((o.id, p.name()));
                            break;
                        }
                        ev.count("isolation_probes", 1);
                    }
                    if let Some((id, what)) = bad {
                        problems.push((format!("garbage_disturbed_other_session:{what}"), format!("step {step}: garbage on one session left session #{id} {what}")));
                        break;
                    }
                }
            }
            Ev::SetDecode => {
                if let Some(h) = handle.as_mut() {
                    let _ = h.set_decode_level(DecodeLevel::new(AppDecodeLevel::DataValues, FrameDecodeLevel::Payload, PhysDecodeLevel::Data)).await;
                }
            }
            Ev::Shutdown | Ev::DropHandle => {
                if *e == Ev::Shutdown {
                    if let Some(h) = &handle {
                        let _ = h.shutdown().await;
                    }
                } else {
                    handle = None;
                }
                ended = true;
                // the task must end
                let t0 = Instant::now();
                let joined = tokio::time::timeout(Duration::from_secs(10), &mut Box::pin(async { while !jh.is_finished() { tokio::time::sleep(Duration::from_millis(5)).await; } })).await;
                if joined.is_err() {
                    problems.push((format!("server_task_did_not_end:{e:?}"), format!("step {step}: server task still running 10 s after {e:?}")));
                    break;
                }
                ev.max("task_end_ms", t0.elapsed().as_millis() as u64);
                // every session must be closed
                for k in live.iter_mut() {
                    match expect_closed(&mut k.s, wait).await {
                        Probe::Closed => ev.count("sessions_closed_on_shutdown", 1),
                        other => {
                            problems.push((format!("session_open_after_{}:{}", if *e == Ev::Shutdown { "shutdown" } else { "handle_drop" }, other.name()), format!("step {step}: session #{} is {} after {e:?}", k.id, other.name())));
                        }
                    }
                }
                // and the port must no longer accept
                match connect_from(None, addr).await {
                    Err(_) => ev.count("refused_after_shutdown", 1),
                    Ok(mut s) => {
                        tx = tx.wrapping_add(1);
                        let p = probe(&mut s, tx, 1, Duration::from_secs(1)).await;
                        if matches!(p, Probe::Alive(_)) {
                            problems.push(("still_accepting_after_shutdown".into(), format!("step {step}: a new connection was served after {e:?}")));
                        }
                    }
                }
                break;
            }
        }
        if live.len() > limit {
            problems.push(("more_sessions_than_limit".into(), format!("step {step}: {} sessions answer, limit {limit}", live.len())));
            break;
        }
        ev.max("concurrent_sessions_observed", live.len() as u64);
    }
    if !ended {
        jh.abort();
    }
    problems
}

/// Many connections arriving at once: whatever order the server accepts them in, when the storm is
/// over exactly `limit` sessions are served, every other connection has been closed by the server,
/// and shutdown closes the rest. A second wave on top must again leave exactly `limit`.
async fn storm(max_sessions: usize, waves: usize, ev: &mut Evidence) -> Vec<(String, String)> {
    let mut problems = vec![];
    let listener = tokio::net::TcpListener::bind("127.0.0.1:0").await.unwrap();
    let addr: SocketAddr = listener.local_addr().unwrap();
    let map = ServerHandlerMap::single(UnitId::new(1), Fixed.wrap());
    let (handle, task) = create_tcp_server_task(max_sessions, listener, map, AddressFilter::Any, DecodeLevel::nothing());
    let jh = tokio::spawn(task.run());
    let limit = max_sessions.max(1);
    let mut all: Vec<TcpStream> = vec![];
    let mut tx = 100u16;
    for wave in 0..waves {
        let n = 2 * limit + 5;
        let conns = futures_join((0..n).map(|_| tokio::spawn(connect_from(None, addr))).collect()).await;
        for c in conns {
            match c {
                Some(Ok(s)) => all.push(s),
                _ => problems.push(("storm:connect_failed".into(), format!("wave {wave}: a connection was refused while the server was running"))),
            }
        }
        ev.count("storm_connections", n as u64);
        // let the server accept and evict, then ask everybody
        tokio::time::sleep(Duration::from_millis(300)).await;
        let mut alive = 0usize;
        let mut closed = 0usize;
        let mut odd = vec![];
        let mut keep = vec![];
        for mut s in all.drain(..) {
            tx = tx.wrapping_add(1);
            match probe(&mut s, tx, 1, Duration::from_secs(3)).await {
                Probe::Alive(_) => {
                    alive += 1;
                    keep.push(s);
                }
                Probe::Closed => closed += 1,
                other => odd.push(other.name()),
            }
        }
        all = keep;
        ev.eval();
        ev.class(format!("storm|max_sessions={max_sessions}|wave{wave}|alive={}", if alive == limit { "limit" } else { "other" }));
        if alive != limit || !odd.is_empty() {
            problems.push((
                format!("storm:alive={}_limit", if alive > limit { "above" } else { "below_or_odd" }),
                format!("max_sessions={max_sessions}, wave {wave}: after {n} simultaneous connections {alive} sessions are served (limit {limit}), {closed} closed, others: {odd:?}"),
            ));
            break;
        }
    }
    drop(handle);
    if tokio::time::timeout(Duration::from_secs(10), jh).await.is_err() {
        problems.push(("storm:server_task_did_not_end".into(), "server task still running 10 s after its handle was dropped".into()));
    }
    for mut s in all {
        if !matches!(expect_closed(&mut s, Duration::from_secs(5)).await, Probe::Closed) {
            problems.push(("storm:session_open_after_shutdown".into(), format!("max_sessions={max_sessions}: a session was still open after the server handle was dropped")));
            break;
        } else {
            ev.count("sessions_closed_on_shutdown", 1);
        }
    }
    problems
}

async fn futures_join<T: Send + 'static>(hs: Vec<tokio::task::JoinHandle<T>>) -> Vec<Option<T>> {
    let mut out = vec![];
    for h in hs {
        out.push(h.await.ok());
    }
    out
}

fn accept_failure_leg(ev: &mut Evidence, args: &Args) {
    let out = verif_root().join("out").join(format!("c15accept-{}.json", std::process::id()));
    let _ = std::fs::create_dir_all(verif_root().join("out"));
    let Ok(exe) = std::env::current_exe() else {
        ev.inconclusive("c15accept: current_exe");
        return;
    };
    let st = std::process::Command::new(exe)
        .args(["c15accept", "--tier", args.tier.name(), "--seed", &(args.seed as i64).to_string(), "--out"])
        .arg(&out)
        .stdout(std::process::Stdio::null())
        .status();
    match (st, std::fs::read_to_string(&out).ok().and_then(|t| serde_json::from_str::<serde_json::Value>(&t).ok())) {
        (Ok(s), Some(v)) if s.success() => ev.merge(Evidence::from_json(&v)),
        _ => ev.inconclusive("the accept-failure part of the evidence was not delivered"),
    }
    let _ = std::fs::remove_file(&out);
}

pub fn run(args: &Args) -> i32 {
    let started = Instant::now();
    let seed = args.seed;
    let histories = args.tier.pick(360u64, 6000);
    let rt = tokio::runtime::Builder::new_multi_thread().worker_threads(8).enable_all().build().unwrap();
    let mut ev = Evidence::new();
    let only: Option<u64> = args.replay.as_ref().and_then(|p| {
        serde_json::from_str::<serde_json::Value>(&std::fs::read_to_string(p).ok()?).ok()?["case"]["n"].as_u64()
    });
    // histories run concurrently in batches
    let batch = 24;
    let mut n = 0;
    while n < histories {
        let hi = (n + batch).min(histories);
        let results = rt.block_on(async {
            let mut hs = vec![];
            for i in n..hi {
                if let Some(o) = only {
                    if o != i {
                        continue;
                    }
                }
                hs.push(tokio::spawn(async move {
                    let mut rng = Rng::sub(seed, 115, i);
                    let (max_sessions, evs) = gen_history(&mut rng);
                    let mut ev = Evidence::new();
                    let mut problems = run_history(max_sessions, &evs, Duration::from_millis(150), &mut ev).await;
                    if !problems.is_empty() {
                        // a loaded machine may delay the server noticing a closed peer: confirm
                        // with a much longer grace before reporting
                        let mut ev2 = Evidence::new();
                        let again = run_history(max_sessions, &evs, Duration::from_millis(1500), &mut ev2).await;
                        if again.is_empty() {
                            ev.count("unconfirmed_on_rerun", 1);
                            problems.clear();
                        } else {
                            problems = again;
                        }
                    }
                    (i, max_sessions, evs, ev, problems)
                }));
            }
            let mut out = vec![];
            for h in hs {
                if let Ok(x) = h.await {
                    out.push(x);
                }
            }
            out
        });
        for (i, max_sessions, evs, e, problems) in results {
            ev.merge(e);
            ev.eval();
            ev.class(format!("max_sessions={max_sessions}|ends_with={:?}", evs.last().unwrap()));
            for e in &evs {
                ev.class(format!("event|{}", format!("{e:?}").split('(').next().unwrap()));
            }
            if i < 3 {
                ev.sample(json!({"max_sessions": max_sessions, "history": evs.iter().map(|e| format!("{e:?}")).collect::<Vec<_>>()}));
            }
            for (sig, what) in problems {
                ev.violation(
                    format!("max_sessions={max_sessions}:{sig}"),
                    what,
                    json!({"n": i, "max_sessions": max_sessions, "history": evs.iter().map(|e| format!("{e:?}")).collect::<Vec<_>>()}),
                );
            }
        }
        n = hi;
        if ev.violations.len() >= 6 {
            ev.count("stopped_early_after_violations", 1);
            break;
        }
    }
    // the TLS server: same bound / eviction / shutdown rules with connections that never become sessions
    if only.is_none() {
        let tls_histories = args.tier.pick(40u64, 600);
        let mut n = 0;
        while n < tls_histories && ev.violations.len() < 6 {
            let hi = (n + 8).min(tls_histories);
            let results = rt.block_on(async {
                let mut hs = vec![];
                for i in n..hi {
                    hs.push(tokio::spawn(async move {
                        let mut rng = Rng::sub(seed, 1150, i);
                        let (max_sessions, evs) = crate::c15tls::gen_history(&mut rng);
                        let mut ev = Evidence::new();
                        let mut problems = crate::c15tls::run_history(max_sessions, &evs, Duration::from_millis(150), &mut ev).await;
                        if !problems.is_empty() {
                            let mut ev2 = Evidence::new();
                            let again = crate::c15tls::run_history(max_sessions, &evs, Duration::from_millis(1500), &mut ev2).await;
                            if again.is_empty() {
                                ev.count("unconfirmed_on_rerun", 1);
                                problems.clear();
                            } else {
                                problems = again;
                            }
                        }
                        (i, max_sessions, evs, ev, problems)
                    }));
                }
                let mut out = vec![];
                for h in hs {
                    if let Ok(x) = h.await {
                        out.push(x);
                    }
                }
                out
            });
            for (i, max_sessions, evs, e, problems) in results {
                ev.merge(e);
                ev.eval();
                ev.count("tls_histories", 1);
                ev.class(format!("tls|max_sessions={max_sessions}"));
                for e in &evs {
                    ev.class(format!("tls|event|{}", format!("{e:?}").split('(').next().unwrap()));
                }
                for (sig, what) in problems {
                    ev.violation(
                        format!("max_sessions={max_sessions}:{sig}"),
                        what,
                        json!({"tls": true, "n": i, "max_sessions": max_sessions, "history": evs.iter().map(|e| format!("{e:?}")).collect::<Vec<_>>()}),
                    );
                }
            }
            n = hi;
        }
        // connection storms
        for (k, max_sessions) in [0usize, 1, 3, 16, 64].into_iter().enumerate() {
            if args.tier.name() == "quick" && k % 2 == (seed % 2) as usize && max_sessions > 1 {
                continue;
            }
            let mut e = Evidence::new();
            let problems = rt.block_on(storm(max_sessions, args.tier.pick(2, 6), &mut e));
            ev.merge(e);
            for (sig, what) in problems {
                ev.violation(sig, what, json!({"leg": "storm", "max_sessions": max_sessions}));
            }
        }
        // connections the server cannot accept (descriptor exhaustion): in a process of its own
        drop(rt);
        accept_failure_leg(&mut ev, args);
    }
    let meta = Meta {
        property_id: "C15",
        level: "exploration",
        rule: "one evaluation = one history of 5-30 events over {connect, client close, request, send malformed header, set decode level, shutdown, drop handle} against the real create_tcp_server_task on loopback with max_sessions in 0..4; after every event the sockets are probed (sentinel request with a unique transaction id = alive, EOF/reset = closed) and compared with an ordered-list model: new connection always served, exactly the oldest evicted at the limit, others undisturbed, all closed and the port refusing after shutdown/drop. distinct = (max_sessions, terminal event) and event kinds".into(),
        assumptions: vec![
            "after a client closes, the server is given 150 ms to notice before the next event; a discrepancy is reported only if it reproduces with 1.5 s".into(),
            "a connection that stays inside the TLS handshake is a session like any other (TLS leg): it holds a place and must be closed when evicted and at shutdown".into(),
        ],
        exhaustive: None,
        floors: vec![
            ("events".into(), args.tier.pick(3_000, 60_000)),
            ("evictions_observed".into(), args.tier.pick(150, 2_000)),
            ("sessions_closed_on_shutdown".into(), args.tier.pick(150, 2_000)),
            ("accept_failure_scenarios".into(), args.tier.pick(6, 42)),
        ],
        min_classes: 10,
    };
    finish(args, meta, ev, started)
}
