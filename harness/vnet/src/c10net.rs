//! C10 on real schedules: the production TCP client task on a multi-thread runtime against a
//! flaky server, eight concurrent submitters using all three API styles, a controller toggling
//! enable/disable and finally shutting down or dropping every handle. Only the schedule-
//! independent parts of the property are checked here: exactly one completion per request, `Ok`
//! only with that request's own payload, `Shutdown` only once the task is going away (or a
//! failed try_send), nothing pending after the task has ended.

use rodbus::client::*;
use rodbus::*;
use serde_json::json;
use std::net::{IpAddr, Ipv4Addr};
use std::sync::atomic::{AtomicBool, AtomicU32, AtomicU64, Ordering};
use std::sync::{Arc, Mutex};
use std::time::{Duration, Instant};
use tokio::io::{AsyncReadExt, AsyncWriteExt};
use vcommon::report::*;
use vcommon::rng::Rng;

struct Rec {
    completions: AtomicU32,
    result: Mutex<Option<(Result<Vec<(u16, u16)>, RequestError>, Instant)>>,
    submitted: Mutex<Option<Instant>>,
    full: AtomicBool,
}

fn expected(start: u16) -> Vec<(u16, u16)> {
    vec![(start, start ^ 0x5A5A), (start.wrapping_add(1), !start)]
}

async fn flaky_server(listener: tokio::net::TcpListener, seed: u64, stop: Arc<AtomicBool>, conns: Arc<AtomicU64>) {
    let mut n = 0u64;
    loop {
        let Ok((mut s, _)) = listener.accept().await else { return };
        if stop.load(Ordering::SeqCst) {
            return;
        }
        n += 1;
        conns.fetch_add(1, Ordering::SeqCst);
        let mut rng = Rng::sub(seed, 9910, n);
        tokio::spawn(async move {
            let _ = s.set_nodelay(true);
            let budget = 1 + rng.below(400);
            let fate = rng.below(4);
            let mut served = 0u64;
            let mut buf = vec![];
            let mut tmp = [0u8; 1024];
            loop {
                let Ok(k) = s.read(&mut tmp).await else { return };
                if k == 0 {
                    return;
                }
                buf.extend_from_slice(&tmp[..k]);
                while buf.len() >= 12 {
                    let len = 6 + (((buf[4] as usize) << 8) | buf[5] as usize);
                    if buf.len() < len {
                        break;
                    }
                    let f: Vec<u8> = buf.drain(..len).collect();
                    served += 1;
                    if served > budget {
                        match fate {
                            0 => return, // close
                            1 => {
                                // garbage header
                                let _ = s.write_all(&[1, 2, 0xDE, 0xAD, 0, 4, 1, 3, 0, 0]).await;
                                tokio::time::sleep(Duration::from_millis(20)).await;
                                return;
                            }
                            2 => {
                                // silence for a while, then close
                                tokio::time::sleep(Duration::from_millis(150)).await;
                                return;
                            }
                            _ => {}
                        }
                    }
                    let start = ((f[8] as u16) << 8) | f[9] as u16;
                    let e = expected(start);
                    let mut pdu = vec![3u8, 4];
                    pdu.extend_from_slice(&e[0].1.to_be_bytes());
                    pdu.extend_from_slice(&e[1].1.to_be_bytes());
                    if rng.chance(1, 50) {
                        // a stale duplicate of an older reply first
                        let _ = s.write_all(&vcommon::model::mbap_frame((((f[0] as u16) << 8) | f[1] as u16).wrapping_sub(3), f[6], &[3, 4, 0, 0, 0, 0])).await;
                    }
                    if rng.chance(1, 40) {
                        continue; // drop this reply: the request times out
                    }
                    let reply = vcommon::model::mbap_frame(((f[0] as u16) << 8) | f[1] as u16, f[6], &pdu);
                    if s.write_all(&reply).await.is_err() {
                        return;
                    }
                }
            }
        });
    }
}

#[allow(deprecated)]
pub async fn stress(seed: u64, total: usize, cap: usize, ev: &mut Evidence) -> Vec<(String, String)> {
    let mut problems = vec![];
    let port = crate::net::free_port(IpAddr::V4(Ipv4Addr::LOCALHOST));
    let listener = tokio::net::TcpListener::bind(("127.0.0.1", port)).await.unwrap();
    let stop = Arc::new(AtomicBool::new(false));
    let conns = Arc::new(AtomicU64::new(0));
    let srv = tokio::spawn(flaky_server(listener, seed, stop.clone(), conns.clone()));
    // odd seeds go through the spawning convenience constructor (same arguments, no JoinHandle)
    let options = ClientOptions::default().max_queued_requests(cap).max_response_timeouts(std::num::NonZeroUsize::new(3));
    let retry = doubling_retry_strategy(Duration::from_millis(3), Duration::from_millis(12));
    let host = HostAddr::ip(IpAddr::V4(Ipv4Addr::LOCALHOST), port);
    let (channel, jh) = if seed % 2 == 1 {
        ev.count("net_runs_through_spawn_with_options", 1);
        (spawn_tcp_client_task_with_options(host, retry, None, options), tokio::spawn(async {}))
    } else {
        let (channel, task) = create_tcp_client_task_with_options(host, retry, None, options);
        (channel, tokio::spawn(task.run()))
    };
    let _ = channel.enable().await;
    let submitters = 8usize;
    let per = total / submitters;
    let recs: Arc<Vec<Rec>> = Arc::new(
        (0..submitters * per)
            .map(|_| Rec { completions: AtomicU32::new(0), result: Mutex::new(None), submitted: Mutex::new(None), full: AtomicBool::new(false) })
            .collect(),
    );
    let shutdown_at: Arc<Mutex<Option<Instant>>> = Arc::new(Mutex::new(None));
    let toggles = Arc::new(AtomicU64::new(0));
    // controller: enable/disable while the submitters run
    let ctl_channel = channel.clone();
    let ctl_stop = Arc::new(AtomicBool::new(false));
    let (cs, tg) = (ctl_stop.clone(), toggles.clone());
    let ctl = tokio::spawn(async move {
        let mut rng = Rng::sub(seed, 9911, 0);
        while !cs.load(Ordering::SeqCst) {
            tokio::time::sleep(Duration::from_millis(5 + rng.below(40))).await;
            if rng.chance(1, 3) {
                let _ = ctl_channel.disable().await;
                tokio::time::sleep(Duration::from_millis(rng.below(8))).await;
                let _ = ctl_channel.enable().await;
                tg.fetch_add(1, Ordering::SeqCst);
            } else if rng.chance(1, 4) {
                let _ = ctl_channel.set_decode_level(DecodeLevel::nothing()).await;
            }
        }
    });
    let mut hs = vec![];
    for s in 0..submitters {
        let ch = channel.clone();
        let recs = recs.clone();
        hs.push(tokio::spawn(async move {
            let mut rng = Rng::sub(seed, 9912, s as u64);
            let mut pending = vec![];
            for i in 0..per {
                let id = s * per + i;
                let start = (id % 65000) as u16;
                let param = RequestParam::new(UnitId::new(1), Duration::from_millis(25));
                let range = AddressRange::try_from(start, 2).unwrap();
                *recs[id].submitted.lock().unwrap() = Some(Instant::now());
                match rng.below(3) {
                    0 => {
                        let ch = ch.clone();
                        let recs = recs.clone();
                        pending.push(tokio::spawn(async move {
                            let r = ch.read_holding_registers(param, range).await;
                            recs[id].completions.fetch_add(1, Ordering::SeqCst);
                            *recs[id].result.lock().unwrap() = Some((r.map(|v| v.iter().map(|x| (x.index, x.value)).collect()), Instant::now()));
                        }));
                    }
                    1 => {
                        let recs2 = recs.clone();
                        let mut sess = CallbackSession::new(ch.clone(), param);
                        sess.read_holding_registers(range, move |r| {
                            recs2[id].completions.fetch_add(1, Ordering::SeqCst);
                            *recs2[id].result.lock().unwrap() = Some((r.map(|it| it.map(|x| (x.index, x.value)).collect()), Instant::now()));
                        })
                        .await;
                    }
                    _ => {
                        let recs2 = recs.clone();
                        let mut f = FfiChannel::new(ch.clone());
                        let r = f.read_holding_registers(param, range, move |r| {
                            recs2[id].completions.fetch_add(1, Ordering::SeqCst);
                            *recs2[id].result.lock().unwrap() = Some((r.map(|it| it.map(|x| (x.index, x.value)).collect()), Instant::now()));
                        });
                        if r.is_err() {
                            recs[id].full.store(true, Ordering::SeqCst);
                        }
                    }
                }
                if rng.chance(1, 3) {
                    tokio::task::yield_now().await;
                }
                if i % 4 == 3 {
                    tokio::time::sleep(Duration::from_millis(1)).await;
                }
            }
            for p in pending {
                let _ = tokio::time::timeout(Duration::from_secs(20), p).await;
            }
        }));
    }
    // the last quarter of the run happens while the task is being shut down
    let ending = if seed % 2 == 0 { "shutdown" } else { "drop_handles" };
    for h in hs {
        let _ = tokio::time::timeout(Duration::from_secs(120), h).await;
    }
    ctl_stop.store(true, Ordering::SeqCst);
    let _ = ctl.await;
    *shutdown_at.lock().unwrap() = Some(Instant::now());
    if ending == "shutdown" {
        let _ = channel.shutdown().await;
    }
    drop(channel);
    let ended = tokio::time::timeout(Duration::from_secs(20), jh).await.is_ok();
    stop.store(true, Ordering::SeqCst);
    srv.abort();
    tokio::time::sleep(Duration::from_millis(50)).await;
    if !ended {
        problems.push((format!("net:task_did_not_end_after_{ending}"), "client task still running 20 s after the end of the stress run".into()));
    }
    ev.count("net_requests", recs.len() as u64);
    ev.set("net_queue_capacities", cap.to_string());
    ev.count("net_connections", conns.load(Ordering::SeqCst));
    ev.count("net_disable_enable_cycles", toggles.load(Ordering::SeqCst));
    let sd = shutdown_at.lock().unwrap().unwrap();
    for (id, r) in recs.iter().enumerate() {
        let n = r.completions.load(Ordering::SeqCst);
        if n != 1 {
            problems.push((format!("net:completions={n}"), format!("request {id} completed {n} times (queue-full rejection: {})", r.full.load(Ordering::SeqCst))));
            continue;
        }
        let g = r.result.lock().unwrap();
        let Some((res, at)) = g.as_ref() else { continue };
        let class = match res {
            Ok(v) => {
                let start = (id % 65000) as u16;
                if *v != expected(start) {
                    problems.push(("net:ok_with_foreign_payload".into(), format!("request {id} (start {start}) returned {v:?}")));
                }
                "ok"
            }
            Err(RequestError::Shutdown) => {
                if r.full.load(Ordering::SeqCst) && *at < sd {
                    // known finding (known_findings.txt), same signature as in the sim legs
                    ev.count("ffi_refused_calls_reporting_shutdown_while_task_alive", 1);
                    let sig = "ffi:refused_at_full_queue:callback=shutdown:task_alive";
                    if !problems.iter().any(|p: &(String, String)| p.0 == sig) {
                        problems.push((sig.into(), "FfiChannel call refused (queue full) while the task is alive: the call returns an error and the callback reports Shutdown".into()));
                    }
                }
                if !r.full.load(Ordering::SeqCst) && *at < sd {
                    problems.push(("net:shutdown_error_while_task_alive".into(), format!("request {id} completed with Shutdown {:?} before the task was told to end", sd.duration_since(*at))));
                }
                "shutdown"
            }
            Err(RequestError::NoConnection) => "no_connection",
            Err(RequestError::ResponseTimeout) => "timeout",
            Err(RequestError::Io(_)) => "io",
            Err(RequestError::BadFrame(_)) => "bad_frame",
            Err(RequestError::BadResponse(_)) => "bad_response",
            Err(e) => {
                problems.push((format!("net:unexpected_error:{e:?}").replace(' ', "_"), format!("request {id} completed with {e:?}")));
                "other"
            }
        };
        ev.class(format!("net_stress|{class}"));
    }
    ev.sample(json!({"net_stress": {"requests": recs.len(), "connections": conns.load(Ordering::SeqCst), "disable_enable_cycles": toggles.load(Ordering::SeqCst), "ending": ending}}));
    problems
}
