//! C09, session resumption: "completes a handshake only with a peer whose certificate validates ...
//! within its validity period". A certificate minted at run time expires a few seconds after the first,
//! full handshake; afterwards a full handshake with it must be refused (control), and a handshake
//! that offers the session kept from the first one is judged the same way.

use crate::tls::*;
use rodbus::client::*;
use rodbus::server::*;
use rodbus::*;
use serde_json::json;
use std::net::{IpAddr, Ipv4Addr};
use std::time::{Duration, Instant};
use vcommon::report::*;

fn s(x: &str) -> String {
    x.to_string()
}

/// run fixtures/pki/mint_short.py; None if the interpreter with `cryptography` is not there
fn mint(prefix: &std::path::Path, secs: u64, kind: &str) -> Option<f64> {
    let script = fixture("mint_short.py");
    let py = std::path::Path::new("/root/miniconda/bin/python");
    if !py.exists() || !script.exists() {
        return None;
    }
    let out = std::process::Command::new(py).arg(script).arg(prefix).arg(secs.to_string()).arg(kind).output().ok()?;
    String::from_utf8_lossy(&out.stdout).trim().parse::<f64>().ok()
}

fn scratch(name: &str) -> std::path::PathBuf {
    let d = verif_root().join("out").join("short-certs");
    let _ = std::fs::create_dir_all(&d);
    d.join(format!("{name}-{}", std::process::id()))
}

/// rodbus as TLS server, the python peer as a client that resumes
pub async fn server_role(tls13: bool, ev: &mut Evidence) -> Vec<(String, String)> {
    let mut problems = vec![];
    let prefix = scratch(if tls13 { "client13" } else { "client12" });
    let Some(expires_at) = mint(&prefix, 6, "client") else {
        ev.count("resumption_leg_unavailable", 1);
        return problems;
    };
    let srv = match start_tls_server(false, false, true, AddressFilter::Any).await {
        Ok(x) => x,
        Err(e) => {
            ev.inconclusive(format!("c09 resumption: server: {e}"));
            return problems;
        }
    };
    let v = if tls13 { "1.3" } else { "1.2" };
    let res = run_peer(vec![
        s("client"), s("--port"), srv.addr.port().to_string(),
        s("--ca"), fixture("ca1.cert.pem").display().to_string(),
        s("--cert"), format!("{}.cert.pem", prefix.display()), s("--key"), format!("{}.key.pem", prefix.display()),
        s("--servername"), s("test.server"), s("--min"), s(v), s("--max"), s(v),
        s("--expires-at"), expires_at.to_string(), s("--wait"), s("2"),
    ])
    .await;
    drop(srv.handle);
    let _ = tokio::time::timeout(Duration::from_secs(5), srv.task).await;
    let _ = std::fs::remove_file(format!("{}.cert.pem", prefix.display()));
    let _ = std::fs::remove_file(format!("{}.key.pem", prefix.display()));
    let served = |x: &serde_json::Value| x["served"].as_bool() == Some(true);
    ev.eval();
    ev.count("resumption_scenarios", 1);
    if !served(&res["first"]) {
        ev.inconclusive(format!("c09 resumption (server role, TLS {v}): the first, full handshake with the still valid certificate was not served: {}", res["first"]));
        return problems;
    }
    if served(&res["full_after_expiry"]) {
        // the certificate has not expired as planned (clock, slow machine before the first handshake?): nothing to judge
        ev.inconclusive(format!("c09 resumption (server role, TLS {v}): control failed - a full handshake after the planned expiry was served"));
        return problems;
    }
    ev.count("expired_certificate_refused_on_full_handshake", 1);
    let r = &res["resumed"];
    ev.class(format!("resumption|rodbus_server|tls{v}|session_reused={}|served={}", r["reused"], r["served"]));
    if served(r) {
        problems.push((
            format!("resumption:rodbus_server:tls{v}:expired_client_certificate_served"),
            format!("a client certificate that had expired (a full handshake with it was refused) was admitted through a resumed session (session_reused={}) and its request was served", r["reused"]),
        ));
    }
    problems
}

struct Log {
    states: std::sync::Arc<std::sync::Mutex<Vec<ClientState>>>,
}
impl Listener<ClientState> for Log {
    fn update(&mut self, v: ClientState) -> MaybeAsync<()> {
        self.states.lock().unwrap().push(v);
        MaybeAsync::ready(())
    }
}

/// rodbus as TLS client: the python server presents a certificate that expires while the first
/// connection is open, then closes it; the client reconnects (and may offer the kept session); a
/// second, fresh client is the control
pub async fn client_role(tls13: bool, ev: &mut Evidence) -> Vec<(String, String)> {
    let mut problems = vec![];
    let prefix = scratch(if tls13 { "server13" } else { "server12" });
    let Some(expires_at) = mint(&prefix, 6, "server") else {
        ev.count("resumption_leg_unavailable", 1);
        return problems;
    };
    let v = if tls13 { "1.3" } else { "1.2" };
    let now = std::time::SystemTime::now().duration_since(std::time::UNIX_EPOCH).map(|d| d.as_secs_f64()).unwrap_or(0.0);
    let hold = (expires_at - now).max(0.0) + 2.0;
    let Some((peer, port)) = start_peer_server(vec![
        s("--ca"), fixture("ca1.cert.pem").display().to_string(),
        s("--cert"), format!("{}.cert.pem", prefix.display()), s("--key"), format!("{}.key.pem", prefix.display()),
        s("--min"), s(v), s("--max"), s(v), s("--connections"), s("3"), s("--hold"), hold.to_string(), s("--accept-wait"), s("6"),
    ])
    .await
    else {
        ev.inconclusive("c09 resumption: the python server did not start");
        return problems;
    };
    let cfg = || {
        TlsClientConfig::full_pki(
            Some("test.server".to_string()),
            &fixture("ca1.cert.pem"),
            &fixture("client_operator.cert.pem"),
            &fixture("client_operator.key.pem"),
            None,
            MinTlsVersion::V1_2,
        )
    };
    let (Ok(cfg_a), Ok(cfg_b)) = (cfg(), cfg()) else {
        ev.inconclusive("c09 resumption: TlsClientConfig");
        return problems;
    };
    let states = std::sync::Arc::new(std::sync::Mutex::new(vec![]));
    let addr = HostAddr::ip(IpAddr::V4(Ipv4Addr::LOCALHOST), port);
    let (mut a, task) = create_tls_client_task_with_options(addr.clone(), doubling_retry_strategy(Duration::from_millis(200), Duration::from_millis(200)), cfg_a, Some(Box::new(Log { states: states.clone() })), ClientOptions::default());
    let jh = tokio::spawn(task.run());
    let _ = a.enable().await;
    let param = RequestParam::new(UnitId::new(1), Duration::from_secs(1));
    let range = AddressRange::try_from(0, 1).unwrap();
    // first connection: full handshake, certificate still valid
    let mut first = Err(RequestError::NoConnection);
    let t0 = Instant::now();
    while first.is_err() && t0.elapsed() < Duration::from_secs(3) {
        first = a.read_holding_registers(param, range).await;
        if first.is_err() {
            tokio::time::sleep(Duration::from_millis(20)).await;
        }
    }
    // the server closes the connection after the expiry; the client reconnects 200 ms later
    tokio::time::sleep(Duration::from_secs_f64(hold + 0.8)).await;
    let mut second = Err(RequestError::NoConnection);
    let t1 = Instant::now();
    while second.is_err() && t1.elapsed() < Duration::from_secs(2) {
        second = a.read_holding_registers(param, range).await;
        if second.is_err() {
            tokio::time::sleep(Duration::from_millis(50)).await;
        }
    }
    let _ = a.shutdown().await;
    let _ = tokio::time::timeout(Duration::from_secs(5), jh).await;
    // control: a client without any kept session
    let states_b = std::sync::Arc::new(std::sync::Mutex::new(vec![]));
    let (mut b, task) = create_tls_client_task_with_options(addr, doubling_retry_strategy(Duration::from_millis(200), Duration::from_millis(200)), cfg_b, Some(Box::new(Log { states: states_b.clone() })), ClientOptions::default());
    let jb = tokio::spawn(task.run());
    let _ = b.enable().await;
    let mut control = Err(RequestError::NoConnection);
    let t2 = Instant::now();
    while control.is_err() && t2.elapsed() < Duration::from_secs(2) {
        control = b.read_holding_registers(param, range).await;
        if control.is_err() {
            tokio::time::sleep(Duration::from_millis(50)).await;
        }
    }
    let _ = b.shutdown().await;
    let _ = tokio::time::timeout(Duration::from_secs(5), jb).await;
    let report = finish_peer_server(peer).await;
    let _ = std::fs::remove_file(format!("{}.cert.pem", prefix.display()));
    let _ = std::fs::remove_file(format!("{}.key.pem", prefix.display()));
    ev.eval();
    ev.count("resumption_scenarios", 1);
    if first.is_err() {
        ev.inconclusive(format!("c09 resumption (client role, TLS {v}): the first connection was not served: {first:?}"));
        return problems;
    }
    if control.is_ok() {
        ev.inconclusive(format!("c09 resumption (client role, TLS {v}): control failed - a fresh client accepted the certificate after its planned expiry"));
        return problems;
    }
    ev.count("expired_certificate_refused_on_full_handshake", 1);
    let reused = report["connections"].get(1).map(|c| c["reused"].clone()).unwrap_or(json!(null));
    ev.class(format!("resumption|rodbus_client|tls{v}|session_reused={reused}|served={}", second.is_ok()));
    if second.is_ok() {
        problems.push((
            format!("resumption:rodbus_client:tls{v}:expired_server_certificate_accepted"),
            format!("the server's certificate expired while the client was connected; after the connection was closed the client reconnected (session_reused={reused} as seen by the server), reached Connected and had a request served, while a fresh client refused the same certificate"),
        ));
    }
    problems
}
