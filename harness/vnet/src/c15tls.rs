//! C15 on the TLS server: the session bound, oldest-first eviction and shutdown with connections
//! that never become sessions (failed handshakes, plaintext, connect-and-close) in the history.
//!
//! Peers that hold sessions are rodbus TLS client channels with a state listener and a retry delay
//! far longer than a history (an evicted client never comes back by itself); liveness is decided
//! by a request, closure by the listener's WaitAfterDisconnect and a failing request.

use crate::tls::{fixture, Recording};
use rodbus::client::*;
use rodbus::server::*;
use rodbus::*;
use std::net::{IpAddr, Ipv4Addr, SocketAddr};
use std::sync::{Arc, Mutex};
use std::time::Duration;
use tokio::io::{AsyncReadExt, AsyncWriteExt};
use vcommon::report::*;
use vcommon::rng::Rng;

#[derive(Clone, Debug)]
pub enum Ev {
    /// a TLS client that completes the handshake and stays
    Connect,
    /// a connection that never becomes a session
    BadPeer(&'static str),
    /// a connection that sends nothing and stays open (inside the TLS handshake for good): it holds a
    /// place like any accepted connection and must not disturb anybody else
    SilentPeer,
    /// the k-th oldest live client goes away by itself
    ClientLeaves(usize),
    /// every live session must answer
    RequestAll,
}

struct StateLog {
    states: Arc<Mutex<Vec<ClientState>>>,
}
impl Listener<ClientState> for StateLog {
    fn update(&mut self, v: ClientState) -> MaybeAsync<()> {
        self.states.lock().unwrap().push(v);
        MaybeAsync::ready(())
    }
}

struct Peer {
    id: usize,
    channel: Option<Channel>,
    states: Arc<Mutex<Vec<ClientState>>>,
    /// a raw connection that never speaks (then there is no channel)
    silent: Option<tokio::net::TcpStream>,
}

impl Peer {
    fn disconnected(&self) -> bool {
        if let Some(s) = &self.silent {
            let mut b = [0u8; 16];
            return match s.try_read(&mut b) {
                Ok(0) => true,
                Ok(_) => false,
                Err(e) if e.kind() == std::io::ErrorKind::WouldBlock => false,
                Err(_) => true,
            };
        }
        self.states.lock().unwrap().iter().any(|s| matches!(s, ClientState::WaitAfterDisconnect(_)))
    }
    async fn request(&self, k: u16) -> Result<(), RequestError> {
        if self.silent.is_some() {
            // "served" for a silent connection means: still open
            return if self.disconnected() { Err(RequestError::NoConnection) } else { Ok(()) };
        }
        let Some(channel) = &self.channel else { return Err(RequestError::NoConnection) };
        channel
            .write_single_register(RequestParam::new(UnitId::new(1), Duration::from_secs(2)), Indexed::new(k, self.id as u16))
            .await
            .map(|_| ())
    }
}

pub fn gen_history(rng: &mut Rng) -> (usize, Vec<Ev>) {
    let max_sessions = *rng.pick(&[1usize, 2, 2, 3]);
    let n = 5 + rng.usize_below(10);
    let mut v = vec![Ev::Connect];
    for _ in 0..n {
        v.push(match rng.below(10) {
            0..=3 => Ev::Connect,
            4 | 5 | 6 => Ev::BadPeer(*rng.pick(&["plaintext_modbus", "garbage", "connect_and_close", "client_hello_fragment"])),
            7 => Ev::ClientLeaves(rng.usize_below(3)),
            8 => Ev::SilentPeer,
            _ => Ev::RequestAll,
        });
    }
    v.push(Ev::RequestAll);
    (max_sessions, v)
}

async fn wait_until(mut f: impl FnMut() -> bool, total: Duration) -> bool {
    let t0 = std::time::Instant::now();
    while t0.elapsed() < total {
        if f() {
            return true;
        }
        tokio::time::sleep(Duration::from_millis(5)).await;
    }
    f()
}

pub async fn run_history(max_sessions: usize, evs: &[Ev], grace: Duration, ev: &mut Evidence) -> Vec<(String, String)> {
    let mut problems = vec![];
    let cfg = match TlsServerConfig::new(&fixture("ca1.cert.pem"), &fixture("server_valid.cert.pem"), &fixture("server_valid.key.pem"), None, MinTlsVersion::V1_2, CertificateMode::AuthorityBased) {
        Ok(c) => c,
        Err(e) => {
            ev.inconclusive(format!("c15tls: TlsServerConfig: {e}"));
            return problems;
        }
    };
    let writes = Arc::new(Mutex::new(vec![]));
    let map = ServerHandlerMap::single(UnitId::new(1), Recording { writes: writes.clone() }.wrap());
    let listener = match tokio::net::TcpListener::bind("127.0.0.1:0").await {
        Ok(l) => l,
        Err(e) => {
            ev.inconclusive(format!("c15tls: bind: {e}"));
            return problems;
        }
    };
    let addr: SocketAddr = listener.local_addr().unwrap();
    let (handle, task) = create_tls_server_task(max_sessions, listener, map, cfg, AddressFilter::Any, DecodeLevel::nothing());
    let server = tokio::spawn(task.run());
    let limit = max_sessions.max(1);
    let mut live: Vec<Peer> = vec![];
    let mut next_id = 0usize;
    let mut reqno = 0u16;

    for (step, e) in evs.iter().enumerate() {
        let bad_peer_at_limit = matches!(e, Ev::BadPeer(_)) && live.len() >= limit;
        match e {
            Ev::Connect => {
                let Ok(ccfg) = TlsClientConfig::full_pki(Some("test.server".to_string()), &fixture("ca1.cert.pem"), &fixture("client_operator.cert.pem"), &fixture("client_operator.key.pem"), None, MinTlsVersion::V1_2) else {
                    ev.inconclusive("c15tls: TlsClientConfig");
                    break;
                };
                let states = Arc::new(Mutex::new(vec![]));
                let (channel, ctask) = create_tls_client_task_with_options(
                    HostAddr::ip(IpAddr::V4(Ipv4Addr::LOCALHOST), addr.port()),
                    doubling_retry_strategy(Duration::from_secs(600), Duration::from_secs(600)),
                    ccfg,
                    Some(Box::new(StateLog { states: states.clone() })),
                    ClientOptions::default(),
                );
                tokio::spawn(ctask.run());
                let _ = channel.enable().await;
                let st = states.clone();
                let up = wait_until(|| st.lock().unwrap().iter().any(|s| matches!(s, ClientState::Connected | ClientState::WaitAfterFailedConnect(_))), Duration::from_secs(10)).await;
                let connected = states.lock().unwrap().iter().any(|s| matches!(s, ClientState::Connected));
                let p = Peer { id: next_id, channel: Some(channel), states, silent: None };
                next_id += 1;
                ev.count("tls_good_connections", 1);
                if !up || !connected {
                    problems.push((format!("tls:new_connection_not_admitted:live={}", live.len()), format!("step {step}: a valid TLS client could not connect with {} live session(s), limit {limit}", live.len())));
                    continue;
                }
                // the new session must be served
                reqno += 1;
                if let Err(err) = p.request(reqno).await {
                    problems.push((format!("tls:new_session_not_served:at_limit={}", live.len() >= limit), format!("step {step}: the newly connected client (live before: {}, limit {limit}) could not complete a request: {err:?}", live.len())));
                }
                if live.len() >= limit {
                    // the oldest must go, everybody else must stay
                    let oldest = live.remove(0);
                    // a connection that is still inside the handshake is a session like any other: evicted
                    // means closed
                    if oldest.silent.is_some() {
                        ev.count("tls_silent_connections_evicted", 1);
                    }
                    let gone = wait_until(|| oldest.disconnected(), grace * 10).await;
                    ev.count("tls_evictions_expected", 1);
                    if !gone {
                        reqno += 1;
                        let r = oldest.request(reqno).await;
                        problems.push(("tls:oldest_not_evicted_at_limit".to_string(), format!("step {step}: a connection arrived at the limit ({limit}) but the oldest session (client {}) is still {}", oldest.id, if r.is_ok() { "served" } else { "not reporting a disconnect" })));
                    }
                    if let Some(c) = &oldest.channel { let _ = c.shutdown().await; }
                }
                live.push(p);
            }
            Ev::BadPeer(kind) => {
                ev.count("tls_connections_that_never_become_sessions", 1);
                ev.set("tls_bad_peer_kinds", *kind);
                let at_limit = live.len() >= limit;
                if let Ok(mut s) = tokio::net::TcpStream::connect(addr).await {
                    let bytes: Vec<u8> = match *kind {
                        "plaintext_modbus" => vec![0, 1, 0, 0, 0, 6, 1, 3, 0, 0, 0, 1],
                        "garbage" => vec![0xFF; 64],
                        // a TLS record header announcing a ClientHello that never arrives completely
                        "client_hello_fragment" => vec![0x16, 0x03, 0x01, 0x00, 0x40, 0x01, 0x00, 0x00, 0x3C, 0x03, 0x03],
                        _ => vec![],
                    };
                    if !bytes.is_empty() {
                        let _ = s.write_all(&bytes).await;
                    }
                    if *kind == "client_hello_fragment" || *kind == "connect_and_close" {
                        // this peer gives up by itself
                        tokio::time::sleep(Duration::from_millis(20)).await;
                        drop(s);
                    } else {
                        // the server must get rid of it
                        let mut buf = [0u8; 64];
                        let _ = tokio::time::timeout(Duration::from_secs(2), async {
                            loop {
                                match s.read(&mut buf).await {
                                    Ok(0) | Err(_) => break,
                                    Ok(_) => {}
                                }
                            }
                        })
                        .await;
                    }
                }
                tokio::time::sleep(grace).await;
                if at_limit && !live.is_empty() {
                    // a connection arriving at the limit may evict the oldest session even though it never
                    // becomes one itself ("a new connection arriving at the limit is accepted and the oldest
                    // session is closed"): either outcome is accepted, the model follows what happened
                    if live[0].disconnected() {
                        ev.count("tls_oldest_evicted_by_connection_that_failed_its_handshake", 1);
                        let o = live.remove(0);
                        if let Some(c) = &o.channel { let _ = c.shutdown().await; }
                    }
                }
            }
            Ev::SilentPeer => {
                ev.count("tls_silent_connections", 1);
                let Ok(stream) = tokio::net::TcpStream::connect(addr).await else {
                    problems.push(("tls:silent_connection_refused".into(), format!("step {step}: TCP connect failed")));
                    continue;
                };
                let p = Peer { id: next_id, channel: None, states: Arc::new(Mutex::new(vec![])), silent: Some(stream) };
                next_id += 1;
                tokio::time::sleep(grace).await;
                if live.len() >= limit {
                    let oldest = live.remove(0);
                    if oldest.silent.is_some() {
                        ev.count("tls_silent_connections_evicted", 1);
                    }
                    let gone = wait_until(|| oldest.disconnected(), grace * 10).await;
                    ev.count("tls_evictions_expected", 1);
                    if !gone {
                        problems.push(("tls:oldest_not_evicted_at_limit:by_silent_connection".to_string(), format!("step {step}: a (silent) connection arrived at the limit ({limit}) but the oldest session (client {}) is still open", oldest.id)));
                    }
                    if let Some(c) = &oldest.channel { let _ = c.shutdown().await; }
                }
                live.push(p);
            }
            Ev::ClientLeaves(k) => {
                if !live.is_empty() {
                    let p = live.remove(k % live.len());
                    if let Some(c) = &p.channel { let _ = c.shutdown().await; }
                    // a silent peer leaves by closing its socket: do that now, not after the grace period
                    drop(p);
                    ev.count("tls_clients_left", 1);
                    tokio::time::sleep(grace).await;
                }
            }
            Ev::RequestAll => {}
        }
        // after every event: every session the model holds live must be served, nobody else evicted
        let mut late_eviction = false;
        for (idx, p) in live.iter().enumerate() {
            reqno += 1;
            let r = p.request(reqno).await;
            ev.count("tls_liveness_probes", 1);
            if r.is_err() || p.disconnected() {
                if idx == 0 && bad_peer_at_limit {
                    // the eviction caused by the failed connection was only noticed now
                    late_eviction = true;
                    continue;
                }
                problems.push((
                    format!("tls:live_session_closed:after_{}:live={}_limit={limit}", format!("{e:?}").split('(').next().unwrap(), live.len()),
                    format!("step {step} ({e:?}): client {} should still be served ({} live, limit {limit}) but its request gave {r:?} (disconnect reported: {})", p.id, live.len(), p.disconnected()),
                ));
            }
        }
        if late_eviction {
            ev.count("tls_oldest_evicted_by_connection_that_failed_its_handshake", 1);
            let o = live.remove(0);
            if let Some(c) = &o.channel { let _ = c.shutdown().await; }
        }
        if !problems.is_empty() {
            break;
        }
    }
    // shutdown closes every session
    drop(handle);
    let ended = tokio::time::timeout(Duration::from_secs(10), server).await.is_ok();
    if !ended {
        problems.push(("tls:server_task_did_not_end".into(), "the TLS server task did not end within 10 s after its handle was dropped".into()));
    }
    for p in &live {
        let gone = wait_until(|| p.disconnected(), grace * 10).await;
        ev.count("tls_sessions_checked_closed_at_shutdown", 1);
        if !gone && problems.is_empty() {
            problems.push(("tls:session_open_after_server_shutdown".into(), format!("client {} saw no disconnect after the server handle was dropped", p.id)));
        }
    }
    if tokio::net::TcpStream::connect(addr).await.is_ok() && problems.is_empty() {
        problems.push(("tls:still_listening_after_shutdown".into(), "a connection to the server port succeeded after shutdown".into()));
    }
    for p in live {
        if let Some(c) = &p.channel { let _ = c.shutdown().await; }
    }
    let _ = writes;
    problems
}
