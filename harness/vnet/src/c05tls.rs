//! C05 over TLS: segmentation independence when the byte stream arrives as TLS records.
//!
//! Server role: the same MBAP byte stream is sent to a real rodbus TLS server by the independent
//! peer (CPython ssl) as one record, as 1-byte records, 7-byte records, header-split records and
//! random record sizes; the complete reply stream and the write log must be identical in every
//! run and equal to what a reference computes from the stream. Streams may end with a malformed
//! MBAP header followed by a valid write that must never execute.
//!
//! Client role: the real rodbus TLS client sends reads to the peer acting as server, which answers
//! every request in records of 1 / 3 / 7 / random bytes; every request must return exactly the
//! registers of the reply.

use crate::tls::*;
use rodbus::client::*;
use rodbus::*;
use serde_json::json;
use std::net::{IpAddr, Ipv4Addr};
use std::time::Duration;
use vcommon::model::{mbap_frame, mbap_frame_raw};
use vcommon::report::*;
use vcommon::rng::Rng;

fn s(x: &str) -> String {
    x.to_string()
}

struct Stream {
    bytes: Vec<u8>,
    /// what the reference says comes back
    replies: Vec<u8>,
    writes: Vec<(u16, u16)>,
    ends_with_malformed: Option<&'static str>,
    kinds: Vec<&'static str>,
}

fn ex(tx: u16, unit: u8, fc: u8, code: u8) -> Vec<u8> {
    mbap_frame(tx, unit, &[fc | 0x80, code])
}

const ENDINGS: [(&str, u16, u16); 6] = [("protocol_id", 1, 6), ("length_zero", 0, 0), ("length_255", 0, 255), ("protocol_id_high_byte", 0x0100, 6), ("length_0x0106", 0, 0x0106), ("length_0xff06", 0, 0xFF06)];

fn gen_stream(rng: &mut Rng, ending: Option<usize>) -> Stream {
    let n = 3 + rng.usize_below(10);
    let mut st = Stream { bytes: vec![], replies: vec![], writes: vec![], ends_with_malformed: None, kinds: vec![] };
    for k in 0..n {
        let tx = 0x1000u16.wrapping_add(k as u16 * 257);
        match rng.below(11) {
            0 | 1 | 2 => {
                // read holding registers, 1..=125
                let cnt = *rng.pick(&[1u16, 2, 60, 124, 125, 125]);
                let addr = rng.range(0, 60000) as u16;
                let mut pdu = vec![3u8];
                pdu.extend_from_slice(&addr.to_be_bytes());
                pdu.extend_from_slice(&cnt.to_be_bytes());
                st.bytes.extend(mbap_frame(tx, 1, &pdu));
                let mut r = vec![3u8, (2 * cnt) as u8];
                for _ in 0..cnt {
                    r.extend_from_slice(&[0x12, 0x34]);
                }
                st.replies.extend(mbap_frame(tx, 1, &r));
                st.kinds.push("read_holding");
            }
            3 | 4 | 5 => {
                let addr = k as u16;
                let val = rng.range(0, 65536) as u16;
                let mut pdu = vec![6u8];
                pdu.extend_from_slice(&addr.to_be_bytes());
                pdu.extend_from_slice(&val.to_be_bytes());
                st.bytes.extend(mbap_frame(tx, 1, &pdu));
                st.replies.extend(mbap_frame(tx, 1, &pdu));
                st.writes.push((addr, val));
                st.kinds.push("write_single_register");
            }
            6 | 9 => {
                // long frames up to the maximum size (260 bytes) whose content matters
                let cnt = *rng.pick(&[100u16, 120, 122, 123, 123]);
                let start = 1000 + k as u16 * 200;
                let mut pdu = vec![16u8];
                pdu.extend_from_slice(&start.to_be_bytes());
                pdu.extend_from_slice(&cnt.to_be_bytes());
                pdu.push((2 * cnt) as u8);
                for i in 0..cnt {
                    let v = rng.range(0, 65536) as u16;
                    pdu.extend_from_slice(&v.to_be_bytes());
                    st.writes.push((start + i, v));
                }
                st.bytes.extend(mbap_frame(tx, 1, &pdu));
                let mut echo = vec![16u8];
                echo.extend_from_slice(&start.to_be_bytes());
                echo.extend_from_slice(&cnt.to_be_bytes());
                st.replies.extend(mbap_frame(tx, 1, &echo));
                st.kinds.push("write_multiple_registers_long_frame");
            }
            7 => {
                // zero quantity: exception 03
                st.bytes.extend(mbap_frame(tx, 1, &[3, 0, 0, 0, 0]));
                st.replies.extend(ex(tx, 1, 3, 3));
                st.kinds.push("read_zero_quantity");
            }
            8 => {
                // unknown function
                st.bytes.extend(mbap_frame(tx, 1, &[0x41, 1, 2, 3]));
                st.replies.extend(ex(tx, 1, 0x41, 1));
                st.kinds.push("unknown_function");
            }
            _ => {
                // unconfigured unit: silence
                st.bytes.extend(mbap_frame(tx, 2, &[3, 0, 0, 0, 1]));
                st.kinds.push("unconfigured_unit");
            }
        }
    }
    if let Some(e) = ending {
        let (name, proto, len) = ENDINGS[e % ENDINGS.len()];
        st.bytes.extend(mbap_frame_raw(0x7777, proto, len, 1, &[6, 0x03, 0xE7, 0xDE, 0xAD]));
        // and a perfectly valid write behind it that must never execute
        st.bytes.extend(mbap_frame(0x7778, 1, &[6, 0x03, 0xE7, 0xDE, 0xAD]));
        st.ends_with_malformed = Some(name);
    }
    st
}

fn partitions(rng: &mut Rng, len: usize) -> Vec<(&'static str, String)> {
    let mut v = vec![("whole", String::new()), ("records_of_7", s("7")), ("header_split", s("6,1,1,3,2,250")), ("records_of_259_261", s("259,261"))];
    if len <= 400 {
        v.push(("records_of_1", s("1")));
    }
    let r: Vec<String> = (0..12).map(|_| { let m = *rng.pick(&[3u64, 12, 300]); (1 + rng.below(m)).to_string() }).collect();
    v.push(("random_records", r.join(",")));
    v
}

async fn server_run(st: &Stream, min13: bool, chunks: &str, idle: f64) -> (String, Vec<(u16, u16)>, serde_json::Value) {
    let srv = match start_tls_server(false, min13, false, server::AddressFilter::Any).await {
        Ok(x) => x,
        Err(e) => return (format!("server_error:{e}"), vec![], json!({})),
    };
    let mut args = vec![
        s("client"), s("--port"), srv.addr.port().to_string(),
        s("--ca"), fixture("ca1.cert.pem").display().to_string(),
        s("--cert"), fixture("client_operator.cert.pem").display().to_string(),
        s("--key"), fixture("client_operator.key.pem").display().to_string(),
        s("--servername"), s("test.server"),
        s("--send"), hex(&st.bytes), s("--read-all"), s("--wait"), idle.to_string(), s("--gap-ms"), s("1"),
    ];
    if !chunks.is_empty() {
        args.push(s("--chunks"));
        args.push(chunks.to_string());
    }
    let res = run_peer(args).await;
    tokio::time::sleep(Duration::from_millis(30)).await;
    let writes = srv.writes.lock().unwrap().clone();
    drop(srv.handle);
    let _ = tokio::time::timeout(Duration::from_secs(5), srv.task).await;
    (res["reply_hex"].as_str().unwrap_or("").to_string(), writes, res)
}

async fn server_case(seed: u64, n: u64) -> Evidence {
    let mut ev = Evidence::new();
    let mut rng = Rng::sub(seed, 5501, n);
    let st = gen_stream(&mut rng, if n % 2 == 0 { Some((n / 2) as usize) } else { None });
    let min13 = rng.chance(1, 2);
    let want = hex(&st.replies);
    for k in &st.kinds {
        ev.set("tls_request_kinds", *k);
    }
    for (name, chunks) in partitions(&mut rng, st.bytes.len()) {
        let (mut got, mut writes, mut res) = server_run(&st, min13, &chunks, 0.35).await;
        if got != want && want.starts_with(&got) && res["read_end"].as_str() == Some("timeout") {
            // the peer stopped reading after a quiet period while replies were still missing: under load
            // that can be the peer's impatience, not the server's silence. Only this case is repeated
            // (with a long quiet period); any other difference is reported as observed.
            let again = server_run(&st, min13, &chunks, 3.0).await;
            got = again.0;
            writes = again.1;
            res = again.2;
            ev.count("tls_runs_repeated_with_long_idle", 1);
        }
        ev.eval();
        ev.count("tls_server_runs", 1);
        ev.count("tls_server_stream_bytes", st.bytes.len() as u64);
        let ending = st.ends_with_malformed.unwrap_or("none");
        ev.class(format!("tls|server|partition={name}|malformed_ending={ending}"));
        let rep = json!({"leg": "c05tls", "n": n, "partition": name, "records": chunks, "stream_hex": hex(&st.bytes), "peer": res});
        if res["handshake"].as_str() != Some("ok") {
            ev.inconclusive(format!("c05tls: TLS handshake with the rodbus server failed: {res}"));
            continue;
        }
        if got != want {
            let what = if got.len() < want.len() && want.starts_with(&got) {
                "replies_missing"
            } else if got.len() > want.len() && got.starts_with(&want) {
                "extra_bytes_after_replies"
            } else {
                "replies_differ"
            };
            ev.violation(
                format!("tls:server:{name}:{what}:malformed_ending={ending}"),
                format!("TLS server, records {name} ({chunks}): reply stream is {} bytes, the reference says {} bytes; first difference at byte {}", got.len() / 2, want.len() / 2, got.bytes().zip(want.bytes()).take_while(|(a, b)| a == b).count() / 2),
                rep.clone(),
            );
        }
        if writes != st.writes {
            let after = writes.iter().any(|w| *w == (999, 0xDEAD));
            ev.violation(
                format!("tls:server:{name}:write_log_differs:{}", if after { "write_after_malformed_header_executed" } else { "writes" }),
                format!("TLS server, records {name}: handler saw writes {writes:?}, the stream contains {:?}", st.writes),
                rep.clone(),
            );
        }
        if st.ends_with_malformed.is_some() {
            ev.count("tls_malformed_header_endings", 1);
            if res["read_end"].as_str() == Some("eof") {
                ev.count("tls_session_closed_after_malformed_header", 1);
            } else if res["read_end"].as_str() == Some("timeout") {
                ev.violation(
                    format!("tls:server:{name}:session_open_after_malformed_header:{ending}"),
                    format!("TLS server kept the session open after a malformed MBAP header ({ending})"),
                    rep.clone(),
                );
            }
        }
    }
    ev
}

async fn client_case(seed: u64, n: u64) -> Evidence {
    let mut ev = Evidence::new();
    let mut rng = Rng::sub(seed, 5502, n);
    let k = 3 + rng.usize_below(6);
    let (pname, pattern) = rng.pick(&[("records_of_1", "1"), ("records_of_3", "3"), ("header_split", "6,1,2,250"), ("records_of_7", "7"), ("random_records", "2,9,1,40,5,200,3")]).clone();
    let Some((child, port)) = start_peer_server(vec![
        s("--ca"), fixture("ca1.cert.pem").display().to_string(),
        s("--cert"), fixture("server_valid.cert.pem").display().to_string(),
        s("--key"), fixture("server_valid.key.pem").display().to_string(),
        s("--wait"), s("4"), s("--accept-wait"), s("8"), s("--serve"), k.to_string(), s("--chunks"), s(pattern), s("--gap-ms"), s("1"),
    ])
    .await
    else {
        ev.inconclusive("c05tls: python TLS server did not start");
        return ev;
    };
    let cfg = match TlsClientConfig::full_pki(Some("test.server".to_string()), &fixture("ca1.cert.pem"), &fixture("client_operator.cert.pem"), &fixture("client_operator.key.pem"), None, MinTlsVersion::V1_2) {
        Ok(c) => c,
        Err(e) => {
            ev.inconclusive(format!("c05tls: TlsClientConfig: {e}"));
            let _ = finish_peer_server(child).await;
            return ev;
        }
    };
    let (channel, task) = create_tls_client_task_with_options(
        HostAddr::ip(IpAddr::V4(Ipv4Addr::LOCALHOST), port),
        doubling_retry_strategy(Duration::from_millis(200), Duration::from_millis(200)),
        cfg,
        None,
        ClientOptions::default(),
    );
    let jh = tokio::spawn(task.run());
    let _ = channel.enable().await;
    // the first request may race the handshake: retry while the channel reports no connection
    let mut results = vec![];
    for i in 0..k {
        let cnt = *rng.pick(&[1u16, 2, 60, 125, 125]);
        let start = rng.range(0, 60000) as u16;
        let range = AddressRange::try_from(start, cnt).unwrap();
        let mut r = Err(RequestError::NoConnection);
        for _ in 0..100 {
            r = channel.read_holding_registers(RequestParam::new(UnitId::new(1), Duration::from_secs(6)), range).await;
            if !(i == 0 && matches!(r, Err(RequestError::NoConnection))) {
                break;
            }
            tokio::time::sleep(Duration::from_millis(50)).await;
        }
        results.push((start, cnt, r));
    }
    let _ = channel.shutdown().await;
    let _ = tokio::time::timeout(Duration::from_secs(5), jh).await;
    let peer = finish_peer_server(child).await;
    ev.eval();
    for (start, cnt, r) in results {
        ev.count("tls_client_requests", 1);
        let want: Vec<(u16, u16)> = (0..cnt).map(|i| (start + i, 0x1234)).collect();
        match r {
            Ok(v) if v.iter().map(|x| (x.index, x.value)).collect::<Vec<_>>() == want => {
                ev.class(format!("tls|client|reply_in_{pname}|ok"));
                ev.count("tls_client_replies_bytes", 9 + 2 * cnt as u64);
            }
            other => {
                let cls = match &other {
                    Ok(_) => "wrong_values".to_string(),
                    Err(e) => format!("{e:?}").replace(' ', "_"),
                };
                if peer["handshake"].as_str() != Some("ok") {
                    ev.inconclusive(format!("c05tls: handshake with the python server failed: {peer}"));
                } else {
                    ev.violation(
                        format!("tls:client:{pname}:count={cnt}:{cls}"),
                        format!("TLS client: read of {cnt} registers answered genuinely in records {pname} ({pattern}) completed with {other:?}"),
                        json!({"leg": "c05tls", "n": n, "records": pattern, "peer": peer}),
                    );
                }
            }
        }
    }
    ev
}

/// A peer that pipelines thousands of requests and starts reading late, through a small receive
/// window: the server's socket fills up while it writes replies. Every request must still be
/// answered, in order, once the peer reads - nothing may stay behind in a buffer of the TLS layer.
pub async fn backlog_case(seed: u64, n: u64) -> Evidence {
    let mut ev = Evidence::new();
    let mut rng = Rng::sub(seed, 5503, n);
    // (what it takes for the server's socket to be full when the last replies are written: more
    // data than the socket buffers hold, a small window, a reader slower than the server)
    // (45 000 requests through a 16 KiB window left the tail behind in three of four sessions on the
    // tree before the repair; other sizes did so rarely: half of the sessions use that point)
    let (requests, rcvbuf) = if n % 2 == 0 { (45_000u64, 16_384u64) } else { ([43_000u64, 47_000, 50_000, 60_000][rng.below(4) as usize], [8_192u64, 12_288, 16_384][rng.below(3) as usize]) };
    let min13 = rng.chance(1, 2);
    // a reader slower than the server keeps the server's socket full until the very last reply
    let throttle = [2u64, 4, 6][((n / 2) % 3) as usize];
    let srv = match start_tls_server(false, min13, false, server::AddressFilter::Any).await {
        Ok(x) => x,
        Err(e) => {
            ev.inconclusive(format!("c01tls backlog: server: {e}"));
            return ev;
        }
    };
    let args = vec![
        s("client"), s("--port"), srv.addr.port().to_string(),
        s("--ca"), fixture("ca1.cert.pem").display().to_string(),
        s("--cert"), fixture("client_operator.cert.pem").display().to_string(),
        s("--key"), fixture("client_operator.key.pem").display().to_string(),
        s("--servername"), s("test.server"),
        s("--flood"), requests.to_string(), s("--rcvbuf"), rcvbuf.to_string(), s("--read-delay"), s("1.0"), s("--wait"), s("4"), s("--read-throttle-ms"), throttle.to_string(),
    ];
    let res = run_peer(args).await;
    drop(srv.handle);
    let _ = tokio::time::timeout(Duration::from_secs(5), srv.task).await;
    let f = &res["flood"];
    if f.is_null() {
        ev.inconclusive(format!("c01tls backlog: the peer did not report: {}", res["error"]));
        return ev;
    }
    ev.eval();
    ev.count("tls_backlog_sessions", 1);
    ev.count("tls_backlog_replies_read", f["replies"].as_u64().unwrap_or(0));
    ev.class(format!("tls_backlog|requests={requests}|rcvbuf={rcvbuf}|min13={min13}|throttle={throttle}ms|{}", f["read_end"].as_str().unwrap_or("?")));
    if f["replies"].as_u64() != Some(requests) || f["in_order"].as_bool() != Some(true) {
        ev.violation(
            format!("tls_server:backlog:replies_missing_or_out_of_order:{}", f["read_end"].as_str().unwrap_or("?").split(':').next().unwrap_or("?")),
            format!("a TLS peer pipelined {requests} requests (receive buffer {rcvbuf}) and started reading 1 s later: {} complete replies arrived (in order: {}), {} bytes of a further reply, reading ended with {} after 4 s of silence", f["replies"], f["in_order"], f["partial_tail"], f["read_end"]),
            json!({"leg": "c01tls", "backlog": n, "requests": requests, "rcvbuf": rcvbuf, "min13": min13, "throttle_ms": throttle}),
        );
    }
    ev
}

pub async fn run(seed: u64, server_cases: u64, client_cases: u64) -> Evidence {
    let mut ev = Evidence::new();
    let mut i = 0;
    let batch = 6;
    while i < server_cases.max(client_cases) {
        let mut hs = vec![];
        for n in i..(i + batch) {
            if n < server_cases {
                hs.push(tokio::spawn(server_case(seed, n)));
            }
            if n < client_cases {
                hs.push(tokio::spawn(client_case(seed, n)));
            }
        }
        for h in hs {
            if let Ok(e) = h.await {
                ev.merge(e);
            }
        }
        i += batch;
    }
    ev
}
