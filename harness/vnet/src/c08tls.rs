//! C08 over real TLS: the role that reaches the authorization handler is the one in the client
//! certificate, a denied request is answered with exception 01 and never reaches the point
//! handler, an allowed one behaves as without authorization. The client is the independent TLS
//! peer (CPython ssl) presenting operator / viewer certificates; the policy is role based.

use crate::tls::{fixture, run_peer, Recording};
use rodbus::server::*;
use rodbus::*;
use serde_json::json;
use std::sync::{Arc, Mutex};
use std::time::Duration;
use vcommon::report::*;

type AuthLog = Arc<Mutex<Vec<(String, u8, u16, u16, String)>>>;

/// operator: everything; viewer: reads only; anybody else: nothing
struct RolePolicy {
    log: AuthLog,
}
impl RolePolicy {
    fn decide(&self, f: &str, unit: UnitId, a: u16, b: u16, role: &str, write: bool) -> Authorization {
        self.log.lock().unwrap().push((f.to_string(), unit.value, a, b, role.to_string()));
        let ok = match role {
            "operator" => true,
            "viewer" => !write,
            _ => false,
        };
        if ok {
            Authorization::Allow
        } else {
            Authorization::Deny
        }
    }
}
impl AuthorizationHandler for RolePolicy {
    fn read_holding_registers(&self, u: UnitId, r: AddressRange, role: &str) -> Authorization {
        self.decide("read_holding_registers", u, r.start, r.count, role, false)
    }
    fn write_single_register(&self, u: UnitId, idx: u16, role: &str) -> Authorization {
        self.decide("write_single_register", u, idx, 0, role, true)
    }
    fn write_multiple_registers(&self, u: UnitId, r: AddressRange, role: &str) -> Authorization {
        self.decide("write_multiple_registers", u, r.start, r.count, role, true)
    }
}

fn s(x: &str) -> String {
    x.to_string()
}

async fn cell(self_signed: bool, role: &'static str, req: &'static str, min13: bool) -> Evidence {
    let mut ev = Evidence::new();
    let cert = match (self_signed, role) {
        (false, "operator") => "client_operator",
        (false, _) => "client_viewer",
        (true, "operator") => "ss_client",
        (true, _) => "ss_client_viewer",
    };
    let (peer_cert, local, key) = if self_signed {
        (fixture(&format!("{cert}.cert.pem")), fixture("ss_server.cert.pem"), fixture("ss_server.key.pem"))
    } else {
        (fixture("ca1.cert.pem"), fixture("server_valid.cert.pem"), fixture("server_valid.key.pem"))
    };
    let cfg = match TlsServerConfig::new(&peer_cert, &local, &key, None, if min13 { MinTlsVersion::V1_3 } else { MinTlsVersion::V1_2 }, if self_signed { CertificateMode::SelfSigned } else { CertificateMode::AuthorityBased }) {
        Ok(c) => c,
        Err(e) => {
            ev.inconclusive(format!("c08tls: TlsServerConfig: {e}"));
            return ev;
        }
    };
    let writes = Arc::new(Mutex::new(vec![]));
    let log: AuthLog = Arc::new(Mutex::new(vec![]));
    let map = ServerHandlerMap::single(UnitId::new(1), Recording { writes: writes.clone() }.wrap());
    let Ok(listener) = tokio::net::TcpListener::bind("127.0.0.1:0").await else {
        ev.inconclusive("c08tls: bind");
        return ev;
    };
    let addr = listener.local_addr().unwrap();
    let (handle, task) = create_tls_server_task_with_authz(4, listener, map, Arc::new(RolePolicy { log: log.clone() }), cfg, AddressFilter::Any, DecodeLevel::nothing());
    let jh = tokio::spawn(task.run());
    // transaction 0x0808, unit 1
    let (hex_req, fname, a, b, is_write): (&str, &str, u16, u16, bool) = match req {
        "read" => ("080800000006010300110003", "read_holding_registers", 0x11, 3, false),
        "write_single" => ("0808000000060106002a1234", "write_single_register", 0x2a, 0, true),
        _ => ("08080000000b0110003000020400010002", "write_multiple_registers", 0x30, 2, true),
    };
    let res = run_peer(vec![
        s("client"), s("--port"), addr.port().to_string(),
        s("--ca"), fixture(if self_signed { "ss_server.cert.pem" } else { "ca1.cert.pem" }).display().to_string(),
        s("--cert"), fixture(&format!("{cert}.cert.pem")).display().to_string(),
        s("--key"), fixture(&format!("{cert}.key.pem")).display().to_string(),
        s("--servername"), s(if self_signed { "ss.server" } else { "test.server" }),
        s("--send"), s(hex_req), s("--wait"), s("3"),
    ])
    .await;
    tokio::time::sleep(Duration::from_millis(30)).await;
    drop(handle);
    let _ = tokio::time::timeout(Duration::from_secs(5), jh).await;
    let cellname = format!("tls|{}|role={role}|{req}|min{}", if self_signed { "self_signed" } else { "authority" }, if min13 { "1.3" } else { "1.2" });
    ev.eval();
    ev.count("tls_authorization_cells", 1);
    let rep = json!({"leg": "c08tls", "cell": cellname, "peer": res});
    if res["handshake"].as_str() != Some("ok") || res["reply_hex"].as_str().unwrap_or("").is_empty() {
        ev.violation(format!("{cellname}:no_reply"), format!("a valid {role} client got no reply over TLS: {res}"), rep);
        return ev;
    }
    let allowed = role == "operator" || !is_write;
    let reply = res["reply_hex"].as_str().unwrap_or("").to_string();
    let want = if !allowed {
        let fc = u8::from_str_radix(&hex_req[14..16], 16).unwrap();
        format!("080800000003{:02x}{:02x}01", 1, fc | 0x80)
    } else {
        match req {
            "read" => s("080800000009010306123412341234"),
            "write_single" => s(hex_req),
            _ => s("080800000006011000300002"),
        }
    };
    ev.class(format!("{cellname}|{}", if allowed { "allowed" } else { "denied" }));
    if reply != want {
        ev.violation(format!("{cellname}:reply"), format!("{role} {req} over TLS: reply {reply}, expected {want}"), rep.clone());
    }
    let calls = log.lock().unwrap().clone();
    let want_calls = vec![(fname.to_string(), 1u8, a, b, role.to_string())];
    if calls != want_calls {
        ev.violation(format!("{cellname}:authorization_calls"), format!("authorization handler saw {calls:?}, the request and certificate say {want_calls:?}"), rep.clone());
    } else {
        ev.count("tls_roles_and_arguments_checked", 1);
    }
    let w = writes.lock().unwrap().clone();
    let want_w: Vec<(u16, u16)> = if !allowed {
        vec![]
    } else {
        match req {
            "write_single" => vec![(0x2a, 0x1234)],
            "write_multiple" => vec![(0x30, 1), (0x31, 2)],
            _ => vec![],
        }
    };
    if w != want_w {
        ev.violation(format!("{cellname}:handler_writes"), format!("point handler saw writes {w:?}, expected {want_w:?}"), rep.clone());
    } else if !allowed {
        ev.count("tls_denied_requests_without_effect", 1);
    }
    ev
}

pub async fn run() -> Evidence {
    let mut ev = Evidence::new();
    let mut hs = vec![];
    for self_signed in [false, true] {
        for role in ["operator", "viewer"] {
            for req in ["read", "write_single", "write_multiple"] {
                for min13 in [false, true] {
                    hs.push(tokio::spawn(cell(self_signed, role, req, min13)));
                }
            }
        }
    }
    for h in hs {
        if let Ok(e) = h.await {
            ev.merge(e);
        }
    }
    ev
}
