//! C15: a connection the server cannot accept (here: no file descriptor left for it) is an error on
//! that one connection. It must not end the server task, close established sessions or stop the
//! listener. Runs alone in its own process: it exhausts the descriptors of the process for a moment.

use rodbus::server::*;
use rodbus::*;
use std::time::Duration;
use tokio::io::{AsyncReadExt, AsyncWriteExt};
use vcommon::report::*;

struct Fixed;
impl RequestHandler for Fixed {
    fn read_holding_register(&self, _a: u16) -> Result<u16, ExceptionCode> {
        Ok(0x1234)
    }
}

async fn transact(s: &mut tokio::net::TcpStream, tx: u16) -> bool {
    let req = vcommon::model::mbap_frame(tx, 1, &[3, 0, 0, 0, 1]);
    if s.write_all(&req).await.is_err() {
        return false;
    }
    let mut reply = [0u8; 11];
    matches!(tokio::time::timeout(Duration::from_secs(2), s.read_exact(&mut reply)).await, Ok(Ok(_))) && reply[0] == (tx >> 8) as u8 && reply[1] == tx as u8
}

pub async fn run(ev: &mut Evidence, rounds: usize, seed: u64) {
    // keep the experiment small: a low descriptor limit for this process
    unsafe {
        let lim = libc::rlimit { rlim_cur: 256, rlim_max: 256 };
        libc::setrlimit(libc::RLIMIT_NOFILE, &lim);
    }
    for r in 0..rounds {
        let mut rng = vcommon::rng::Rng::sub(seed, 1151, r as u64);
        let established = 1 + rng.below(4) as usize;
        let pending = 1 + rng.below(3) as usize;
        // every third round: the server is told to stop while its accepts are still failing
        let stop = match r % 3 {
            2 => Some(if rng.chance(1, 2) { "shutdown" } else { "drop_handle" }),
            _ => None,
        };
        round(ev, established, pending, stop).await;
    }
}

async fn round(ev: &mut Evidence, established: usize, pending: usize, stop: Option<&'static str>) {
    let Ok(listener) = tokio::net::TcpListener::bind("127.0.0.1:0").await else {
        ev.inconclusive("c15accept: bind");
        return;
    };
    let addr = listener.local_addr().unwrap();
    let (handle, task) = create_tcp_server_task(10, listener, ServerHandlerMap::single(UnitId::new(1), Fixed.wrap()), AddressFilter::Any, DecodeLevel::nothing());
    let server = tokio::spawn(task.run());
    let mut sessions = vec![];
    for _ in 0..established {
        let Ok(mut s) = tokio::net::TcpStream::connect(addr).await else {
            ev.inconclusive("c15accept: connect");
            return;
        };
        if !transact(&mut s, 1).await {
            ev.inconclusive("c15accept: an established session was not served");
            return;
        }
        sessions.push(s);
    }
    // sockets for the connections to come, then use up every remaining descriptor: the server has
    // none left to accept them with
    let socks: Vec<i32> = (0..pending).map(|_| unsafe { libc::socket(libc::AF_INET, libc::SOCK_STREAM, 0) }).collect();
    let mut hog = vec![];
    while let Ok(f) = std::fs::File::open("/dev/null") {
        hog.push(f);
        if hog.len() > 100_000 {
            break;
        }
    }
    let port = addr.port();
    let second: Result<Vec<std::net::TcpStream>, ()> = socks
        .iter()
        .map(|fd| unsafe {
            use std::os::fd::FromRawFd;
            if *fd < 0 {
                return Err(());
            }
            let sa = libc::sockaddr_in { sin_family: libc::AF_INET as u16, sin_port: port.to_be(), sin_addr: libc::in_addr { s_addr: u32::from_ne_bytes([127, 0, 0, 1]) }, sin_zero: [0; 8] };
            let rc = libc::connect(*fd, &sa as *const _ as *const libc::sockaddr, std::mem::size_of::<libc::sockaddr_in>() as u32);
            let s = std::net::TcpStream::from_raw_fd(*fd);
            if rc == 0 {
                Ok(s)
            } else {
                Err(())
            }
        })
        .collect();
    if let Some(how) = stop {
        // shutdown / handle drop while accept() keeps failing: honoured like at any other time
        tokio::time::sleep(Duration::from_millis(150)).await;
        let mut handle = Some(handle);
        if how == "shutdown" {
            let _ = handle.as_mut().unwrap().shutdown().await;
        } else {
            handle = None;
        }
        let mut server = server;
        let ended = tokio::time::timeout(Duration::from_secs(3), &mut server).await.is_ok();
        let mut closed = 0;
        for s in sessions.iter_mut() {
            let mut b = [0u8; 16];
            if matches!(tokio::time::timeout(Duration::from_secs(2), s.read(&mut b)).await, Ok(Ok(0)) | Ok(Err(_))) {
                closed += 1;
            }
        }
        drop(hog);
        ev.eval();
        ev.count("accept_failure_scenarios", 1);
        ev.class(format!("accept_failure|established={established}|pending={pending}|{how}_during_failure"));
        if second.is_err() {
            ev.inconclusive("c15accept: could not produce a pending connection at the descriptor limit");
        } else if !ended || closed != sessions.len() {
            ev.violation(
                format!("accept_error:{how}_during_failure_not_honoured"),
                format!("{how} while accept() was failing (no descriptor left): server task ended within 3 s = {ended}, established sessions closed = {closed} of {}", sessions.len()),
                serde_json::json!({"leg": "c15accept", "stop": how}),
            );
        }
        if !ended {
            server.abort();
        }
        drop(handle);
        drop(second);
        return;
    }
    tokio::time::sleep(Duration::from_millis(400)).await;
    drop(hog);
    tokio::time::sleep(Duration::from_millis(300)).await;
    ev.eval();
    ev.count("accept_failure_scenarios", 1);
    ev.class(format!("accept_failure|established={established}|pending={pending}|pending_connect_{}", if second.is_ok() { "ok" } else { "failed" }));
    if second.is_err() {
        ev.inconclusive("c15accept: could not produce a pending connection at the descriptor limit");
    }
    let ended = server.is_finished();
    let mut first_served = true;
    for s in sessions.iter_mut() {
        first_served &= transact(s, 2).await;
    }
    // the listener still works once descriptors are available again
    let mut third_served = false;
    if let Ok(mut third) = tokio::net::TcpStream::connect(addr).await {
        third_served = transact(&mut third, 3).await;
    }
    if ended || !first_served || !third_served {
        ev.violation(
            "accept_error:server_task_ended_or_sessions_disturbed",
            format!("a connection could not be accepted (no descriptor left); afterwards: server task ended={ended}, established sessions ({established}) still served={first_served}, new connection served={third_served}"),
            serde_json::json!({"leg": "c15accept"}),
        );
    }
    let _ = handle.shutdown().await;
    let _ = tokio::time::timeout(Duration::from_secs(5), server).await;
    drop(second);
}
