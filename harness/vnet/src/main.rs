#![allow(dead_code)]
mod c13;
mod c14;
mod c15;
mod c16;
mod net;
mod tls;

use vcommon::report::{parse_args, EXIT_INCONCLUSIVE};

fn main() {
    let args = parse_args();
    // format every event so that decode paths execute; throw the text away
    if std::env::var("VERIF_TRACE_STDERR").is_ok() {
        let _ = tracing_subscriber::fmt().with_max_level(tracing::Level::INFO).with_writer(std::io::stderr).try_init();
    } else {
        let _ = tracing_subscriber::fmt().with_max_level(tracing::Level::INFO).with_ansi(false).with_writer(std::io::sink).try_init();
    }
    let code = match args.check.as_str() {
        "c13" => c13::run(&args),
        "c14" => c14::run(&args),
        "c15" => c15::run(&args),
        "c16" => c16::run(&args),
        "c09" => tls::c09(&args),
        other => {
            eprintln!("unknown check {other}");
            EXIT_INCONCLUSIVE
        }
    };
    std::process::exit(code);
}
