#![allow(dead_code)]
mod c05tls;
mod c08tls;
mod c10net;
mod c13;
mod c14;
mod c09resume;
mod c15;
mod c15accept;
mod c15tls;
mod c16;
mod net;
mod serial;
mod tls;

use vcommon::report::{parse_args, EXIT_INCONCLUSIVE};

fn main() {
    let args = parse_args();
    // format every event so that decode paths execute; throw the text away
    if std::env::var("VERIF_TRACE_STDERR").is_ok() {
        let _ = tracing_subscriber::fmt().with_max_level(tracing::Level::INFO).with_writer(std::io::stderr).try_init();
    } else {
        let _ = tracing_subscriber::fmt().with_max_level(tracing::Level::INFO).with_ansi(false).with_writer(std::io::sink).try_init();
    }
    let code = match args.check.as_str() {
        "c13" => c13::run(&args),
        "c14" => c14::run(&args),
        "c15" => c15::run(&args),
        "c16" => c16::run(&args),
        "c09" => tls::c09(&args),
        "c10net" => {
            let rt = tokio::runtime::Builder::new_multi_thread().worker_threads(8).enable_all().build().unwrap();
            let mut ev = vcommon::report::Evidence::new();
            let total = args.tier.pick(24_000usize, 800_000);
            let rounds = args.tier.pick(4u64, 16);
            for r in 0..rounds {
                let problems = rt.block_on(c10net::stress(args.seed.wrapping_mul(2).wrapping_add(r), total / rounds as usize, [16usize, 2, 1, 4][(r % 4) as usize], &mut ev));
                serial::merge(&mut ev, problems, "c10net");
                ev.eval();
            }
            if let Some(out) = args.extra.get("out") {
                let _ = std::fs::write(out, serde_json::to_string(&ev.to_json()).unwrap());
            } else {
                for v in ev.violations.iter().take(10) {
                    println!("violation: sig={} :: {}", v.sig, v.what);
                }
                println!("c10net: {:?} classes {:?}", ev.counters, ev.classes);
            }
            0
        }
        "c05tls" => {
            // MBAP over TLS records; evidence is merged by the sim engine's C05 check
            let rt = tokio::runtime::Builder::new_multi_thread().worker_threads(8).enable_all().build().unwrap();
            let ev = rt.block_on(c05tls::run(args.seed, args.tier.pick(12, 96), args.tier.pick(6, 60)));
            if let Some(out) = args.extra.get("out") {
                let _ = std::fs::write(out, serde_json::to_string(&ev.to_json()).unwrap());
            } else {
                for v in ev.violations.iter().take(10) {
                    println!("violation: sig={} :: {}", v.sig, v.what);
                }
                println!("c05tls: {:?} classes {:?} inconclusive {:?}", ev.counters, ev.classes.len(), ev.inconclusive);
            }
            0
        }
        "c08tls" => {
            // role-based authorization over real TLS; evidence is merged by the sim engine's C08 check
            let rt = tokio::runtime::Builder::new_multi_thread().worker_threads(8).enable_all().build().unwrap();
            let ev = rt.block_on(c08tls::run());
            if let Some(out) = args.extra.get("out") {
                let _ = std::fs::write(out, serde_json::to_string(&ev.to_json()).unwrap());
            } else {
                for v in ev.violations.iter().take(10) {
                    println!("violation: sig={} :: {}", v.sig, v.what);
                }
                println!("c08tls: {:?} classes {:?} inconclusive {:?}", ev.counters, ev.classes.len(), ev.inconclusive);
            }
            0
        }
        "c10serial" => {
            // serial client: what a request submitted while the port is down completes with (C10 evidence)
            let rt = tokio::runtime::Builder::new_multi_thread().worker_threads(4).enable_all().build().unwrap();
            let mut ev = vcommon::report::Evidence::new();
            for k in 0..args.tier.pick(2usize, 12) {
                let mut e = vcommon::report::Evidence::new();
                let problems = rt.block_on(serial::serial_client_reopen(k, &mut e));
                ev.merge(e);
                ev.eval();
                let keep: Vec<_> = problems.into_iter().filter(|(s, _)| s.contains("request_during_wait") || s.contains("did_not_terminate")).collect();
                serial::merge(&mut ev, keep, "c10serial");
            }
            if let Some(out) = args.extra.get("out") {
                let _ = std::fs::write(out, serde_json::to_string(&ev.to_json()).unwrap());
            } else {
                println!("c10serial: {:?} violations {}", ev.counters, ev.violations.len());
            }
            0
        }
        "c12serial" => {
            // the serial client's inter-frame silence vs. response timeouts and frames arriving during it
            // (C12 evidence incl. the C11 clause for frames received before transmission; merged by the sim engine)
            let rt = tokio::runtime::Builder::new_multi_thread().worker_threads(4).enable_all().build().unwrap();
            let mut ev = vcommon::report::Evidence::new();
            for k in 0..args.tier.pick(3usize, 18) {
                for scenario in [0usize, 1] {
                    let mut e = vcommon::report::Evidence::new();
                    let problems = rt.block_on(serial::serial_gap(scenario, k, &mut e));
                    ev.merge(e);
                    ev.eval();
                    serial::merge(&mut ev, problems, "c12serial");
                }
            }
            if let Some(out) = args.extra.get("out") {
                let _ = std::fs::write(out, serde_json::to_string(&ev.to_json()).unwrap());
            } else {
                for v in ev.violations.iter() {
                    println!("violation: sig={} :: {}", v.sig, v.what);
                }
                println!("c12serial: {:?} {:?}", ev.counters, ev.inconclusive);
            }
            0
        }
        "c01pty" => {
            // RTU server on a port that is lost (sometimes mid-frame) and comes back: well-framed requests on
            // the new port are answered (C01 evidence, merged by the sim engine)
            let rt = tokio::runtime::Builder::new_multi_thread().worker_threads(4).enable_all().build().unwrap();
            let mut ev = vcommon::report::Evidence::new();
            for k in 0..args.tier.pick(4usize, 24) {
                let mut e = vcommon::report::Evidence::new();
                let problems = rt.block_on(serial::rtu_server_reopen(k, &mut e));
                ev.merge(e);
                ev.eval();
                ev.count("rtu_server_reopen_sessions", 1);
                let keep: Vec<_> = problems.into_iter().filter(|(s, _)| s.contains("no_service") || s.contains("valid_frame_reply")).collect();
                serial::merge(&mut ev, keep, "c01pty");
            }
            if let Some(out) = args.extra.get("out") {
                let _ = std::fs::write(out, serde_json::to_string(&ev.to_json()).unwrap());
            } else {
                println!("c01pty: {:?} violations {}", ev.counters, ev.violations.len());
            }
            0
        }
        "c01tls" => {
            // TLS server and a peer that pipelines a large backlog and reads late and slowly; evidence is
            // merged by the sim engine's C01 check
            let rt = tokio::runtime::Builder::new_multi_thread().worker_threads(8).enable_all().build().unwrap();
            let mut ev = vcommon::report::Evidence::new();
            let sessions = args.tier.pick(8u64, 32);
            let seed = args.seed;
            let evs = rt.block_on(async move {
                let mut out = vec![];
                for batch in 0..(sessions / 4) {
                    let hs: Vec<_> = (0..4).map(|i| tokio::spawn(c05tls::backlog_case(seed, batch * 4 + i))).collect();
                    for h in hs {
                        if let Ok(e) = h.await {
                            out.push(e);
                        }
                    }
                }
                out
            });
            for e in evs {
                ev.merge(e);
            }
            if let Some(out) = args.extra.get("out") {
                let _ = std::fs::write(out, serde_json::to_string(&ev.to_json()).unwrap());
            } else {
                for v in ev.violations.iter() {
                    println!("violation: sig={} :: {}", v.sig, v.what);
                }
                println!("c01tls: {:?} {:?}", ev.counters, ev.inconclusive);
            }
            0
        }
        "c15accept" => {
            // descriptor exhaustion: runs alone in this process (spawned by the C15 check)
            let rt = tokio::runtime::Builder::new_multi_thread().worker_threads(2).enable_all().build().unwrap();
            let mut ev = vcommon::report::Evidence::new();
            rt.block_on(c15accept::run(&mut ev, args.tier.pick(6usize, 42), args.seed));
            if let Some(out) = args.extra.get("out") {
                let _ = std::fs::write(out, serde_json::to_string(&ev.to_json()).unwrap());
            } else {
                for v in ev.violations.iter() {
                    println!("violation: sig={} :: {}", v.sig, v.what);
                }
                println!("c15accept: {:?} inconclusive {:?}", ev.counters, ev.inconclusive);
            }
            0
        }
        "c06pty" => {
            // RTU over a real tty; evidence is merged by the sim engine's C06 check
            let rt = tokio::runtime::Builder::new_multi_thread().worker_threads(4).enable_all().build().unwrap();
            let mut ev = vcommon::report::Evidence::new();
            let frames = args.tier.pick(60usize, 600);
            let problems = rt.block_on(serial::rtu_server_pty(frames, args.seed, &mut ev));
            serial::merge(&mut ev, problems, "c06pty");
            if let Some(out) = args.extra.get("out") {
                let _ = std::fs::write(out, serde_json::to_string(&ev.to_json()).unwrap());
            } else {
                for v in &ev.violations {
                    println!("violation: sig={} :: {}", v.sig, v.what);
                }
                println!("c06pty: {:?}", ev.counters);
            }
            0
        }
        other => {
            eprintln!("unknown check {other}");
            EXIT_INCONCLUSIVE
        }
    };
    std::process::exit(code);
}
