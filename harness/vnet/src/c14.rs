//! C14: reconnect delays follow the retry strategy: doubling, capped, reset on success.

use crate::c13::{state_name, Beh, Env, GateMsg};
use rodbus::client::*;
use rodbus::*;
use serde_json::json;
use std::net::{IpAddr, Ipv4Addr};
use std::sync::{Arc, Mutex};
use std::time::{Duration, Instant};
use tokio::sync::mpsc;
use vcommon::report::*;
use vcommon::rng::Rng;

#[derive(Copy, Clone, Debug, PartialEq, Eq)]
enum Op {
    Fail,
    Disconnect,
    Reset,
}

fn lattice() -> Vec<Duration> {
    vec![
        Duration::ZERO,
        Duration::from_nanos(1),
        Duration::from_millis(1),
        Duration::from_secs(1),
        Duration::from_secs(60),
        Duration::from_secs(1 << 32),
        Duration::MAX / 2,
        Duration::MAX,
    ]
}

/// part (a): the public strategy object against its arithmetic model
fn strategy_object(args: &Args, ev: &mut Evidence) {
    let lat = lattice();
    let maxlen = args.tier.pick(7usize, 9);
    for (i, min) in lat.iter().enumerate() {
        for max in lat.iter().skip(i) {
            // all sequences up to maxlen, plus a long run of failures (saturation)
            let mut seqs: Vec<Vec<Op>> = vec![];
            for len in 1..=maxlen {
                let total = 3usize.pow(len as u32);
                for code in 0..total {
                    let mut c = code;
                    let mut s = vec![];
                    for _ in 0..len {
                        s.push([Op::Fail, Op::Disconnect, Op::Reset][c % 3]);
                        c /= 3;
                    }
                    seqs.push(s);
                }
            }
            seqs.push(vec![Op::Fail; 70]);
            let mut long = vec![Op::Fail; 130];
            long[66] = Op::Reset;
            seqs.push(long);
            for s in seqs {
                ev.eval();
                let (min, max) = (*min, *max);
                let s2 = s.clone();
                let r = std::panic::catch_unwind(move || {
                    // the default strategy is documented as doubling from 1 s to 60 s: use the named
                    // constructor for that pair so that it is checked as well
                    let mut st = if min == Duration::from_secs(1) && max == Duration::from_secs(60) { default_retry_strategy() } else { doubling_retry_strategy(min, max) };
                    let mut k: u32 = 0; // consecutive failures since the last reset
                    for (pos, op) in s2.iter().enumerate() {
                        match op {
                            Op::Fail => {
                                let got = st.after_failed_connect();
                                k += 1;
                                // min * 2^(k-1), capped at max, computed without overflow
                                let mut want = min;
                                for _ in 1..k {
                                    want = want.checked_mul(2).unwrap_or(Duration::MAX).min(max);
                                    if want == max {
                                        break;
                                    }
                                }
                                let want = want.min(max);
                                if got != want {
                                    return Err((pos, format!("after_failed_connect #{k} returned {got:?}, expected {want:?}")));
                                }
                            }
                            Op::Disconnect => {
                                let got = st.after_disconnect();
                                if got != min {
                                    return Err((pos, format!("after_disconnect returned {got:?}, expected min = {min:?}")));
                                }
                            }
                            Op::Reset => {
                                st.reset();
                                k = 0;
                            }
                        }
                    }
                    Ok(())
                });
                let name = |d: Duration| {
                    if d == Duration::MAX {
                        "MAX".to_string()
                    } else if d == Duration::MAX / 2 {
                        "MAX/2".to_string()
                    } else {
                        format!("{d:?}")
                    }
                };
                let rep = json!({"min": name(min), "max": name(max), "sequence": s.iter().map(|o| format!("{o:?}")).collect::<Vec<_>>().join(","), "kind": "strategy_object"});
                match r {
                    Err(_) => {
                        let fails = s.iter().filter(|o| **o == Op::Fail).count();
                        ev.violation(
                            format!("strategy_object:panic:min={}:max={}", name(min), name(max)),
                            format!("doubling_retry_strategy({}, {}) panicked during a sequence with {fails} failed connects", name(min), name(max)),
                            rep,
                        );
                    }
                    Ok(Err((pos, why))) => ev.violation(
                        format!("strategy_object:wrong_delay:min={}:max={}", name(min), name(max)),
                        format!("doubling_retry_strategy({}, {}): step {pos}: {why}", name(min), name(max)),
                        rep,
                    ),
                    Ok(Ok(())) => ev.count("strategy_sequences_ok", 1),
                }
            }
            ev.class(format!("strategy|min={min:?}|max={max:?}"));
        }
    }
    ev.count("strategy_sequences_exhaustive_up_to_length", maxlen as u64);
}

#[derive(Clone, Debug, PartialEq)]
enum Call {
    Reset,
    Fail(Duration),
    Disconnect(Duration),
}

struct Logging {
    inner: Box<dyn RetryStrategy>,
    log: Arc<Mutex<Vec<(Call, Instant)>>>,
}

impl RetryStrategy for Logging {
    fn reset(&mut self) {
        self.inner.reset();
        self.log.lock().unwrap().push((Call::Reset, Instant::now()));
    }
    fn after_failed_connect(&mut self) -> Duration {
        let d = self.inner.after_failed_connect();
        self.log.lock().unwrap().push((Call::Fail(d), Instant::now()));
        d
    }
    fn after_disconnect(&mut self) -> Duration {
        let d = self.inner.after_disconnect();
        self.log.lock().unwrap().push((Call::Disconnect(d), Instant::now()));
        d
    }
}

const MIN: Duration = Duration::from_millis(20);
// deliberately not a power-of-two multiple of MIN: the cap must bite between two doublings
const MAX: Duration = Duration::from_millis(150);

/// part (b): the TCP client task with a logging wrapper around the real strategy
/// `tls`: the same against a TLS client. The peer is a plain TCP listener, so every attempt that is not
/// refused fails inside the TLS handshake: a failed connect like any other (doubling continues, no reset).
async fn task_level(seed: u64, n: u64, tls: bool) -> (Evidence, Vec<(String, String)>) {
    let mut ev = Evidence::new();
    let mut problems = vec![];
    let mut rng = Rng::sub(seed, 114, n);
    let nout = 2 + rng.usize_below(9);
    let outcomes: Vec<Beh> = (0..nout).map(|_| *rng.pick(&[Beh::Refused, Beh::Refused, Beh::AcceptClose, Beh::AcceptGarbage])).collect();
    let mut env = Env::new();
    let log = Arc::new(Mutex::new(vec![]));
    let (gtx, mut grx) = mpsc::unbounded_channel::<GateMsg>();
    let (channel, jh) = if tls {
        let cfg = match TlsClientConfig::full_pki(
            Some("test.server".to_string()),
            &crate::tls::fixture("ca1.cert.pem"),
            &crate::tls::fixture("client_operator.cert.pem"),
            &crate::tls::fixture("client_operator.key.pem"),
            None,
            MinTlsVersion::V1_2,
        ) {
            Ok(c) => c,
            Err(e) => {
                ev.inconclusive(format!("C14 TLS leg: TlsClientConfig: {e}"));
                return (ev, problems);
            }
        };
        let (channel, task) = create_tls_client_task_with_options(
            HostAddr::ip(IpAddr::V4(Ipv4Addr::LOCALHOST), env.port),
            Box::new(Logging { inner: doubling_retry_strategy(MIN, MAX), log: log.clone() }),
            cfg,
            Some(Box::new(crate::c13::Gate { tx: gtx })),
            ClientOptions::default(),
        );
        (channel, tokio::spawn(task.run()))
    } else {
        let (channel, task) = create_tcp_client_task_with_options(
            HostAddr::ip(IpAddr::V4(Ipv4Addr::LOCALHOST), env.port),
            Box::new(Logging { inner: doubling_retry_strategy(MIN, MAX), log: log.clone() }),
            Some(Box::new(crate::c13::Gate { tx: gtx })),
            ClientOptions::default(),
        );
        (channel, tokio::spawn(task.run()))
    };
    if tls {
        ev.count("tls_client_task_scripts", 1);
    }
    let _ = channel.enable().await;
    let mut attempt = 0usize;
    // (state, instant of notification)
    let mut notes: Vec<(ClientState, Instant)> = vec![];
    let deadline = Instant::now() + Duration::from_secs(30);
    while attempt <= outcomes.len() {
        let Ok(Some((state, at, ack))) = tokio::time::timeout_at(deadline.into(), grx.recv()).await else {
            problems.push(("task_stalled".to_string(), format!("no notification; attempt {attempt} of {}", outcomes.len())));
            break;
        };
        if let ClientState::Connecting = state {
            if attempt == outcomes.len() {
                notes.push((state, at));
                let _ = ack.send(());
                break;
            }
            env.set(outcomes[attempt]).await;
            attempt += 1;
        }
        let is_wait = matches!(state, ClientState::WaitAfterFailedConnect(_) | ClientState::WaitAfterDisconnect(_));
        notes.push((state, at));
        let _ = ack.send(());
        // user activity during a wait must not shorten it: requests (failed with no-connection)
        // and setting changes are processed by the task while it waits
        if is_wait && rng.chance(2, 3) {
            let ch = channel.clone();
            let what = rng.below(3);
            tokio::spawn(async move {
                tokio::time::sleep(Duration::from_millis(2)).await;
                match what {
                    0 => {
                        let _ = ch.read_coils(RequestParam::new(UnitId::new(1), Duration::from_millis(50)), AddressRange::try_from(0, 1).unwrap()).await;
                    }
                    1 => {
                        let _ = ch.set_decode_level(DecodeLevel::nothing()).await;
                    }
                    _ => {
                        let _ = ch.enable().await;
                    }
                }
            });
            ev.count("commands_issued_during_waits", 1);
        }
    }
    let _ = channel.shutdown().await;
    // keep acknowledging until the task is gone
    let _ = tokio::time::timeout(Duration::from_secs(10), async {
        while let Some((_, _, ack)) = grx.recv().await {
            let _ = ack.send(());
        }
    })
    .await;
    let _ = tokio::time::timeout(Duration::from_secs(10), jh).await;
    env.set(Beh::Refused).await;

    // expected call sequence from the outcomes
    let calls: Vec<(Call, Instant)> = log.lock().unwrap().clone();
    let mut want: Vec<Call> = vec![];
    let mut k = 0u32;
    for o in outcomes.iter().take(attempt) {
        match o {
            _ if tls => {
                k += 1;
                let d = (MIN * 2u32.pow(k - 1)).min(MAX);
                want.push(Call::Fail(d));
            }
            Beh::Refused => {
                k += 1;
                let d = (MIN * 2u32.pow(k - 1)).min(MAX);
                want.push(Call::Fail(d));
            }
            _ => {
                k = 0;
                want.push(Call::Reset);
                want.push(Call::Disconnect(MIN));
            }
        }
    }
    let got: Vec<Call> = calls.iter().map(|c| c.0.clone()).collect();
    let n_cmp = want.len().min(got.len());
    ev.count("strategy_calls_observed", got.len() as u64);
    if got[..n_cmp] != want[..n_cmp] || got.len() < want.len() {
        let pos = (0..n_cmp).find(|i| got[*i] != want[*i]).unwrap_or(n_cmp);
        let sig = match (got.get(pos), want.get(pos)) {
            (Some(g), Some(w)) => format!("task:call_{}_expected_{}", call_name(g), call_name(w)),
            (None, Some(w)) => format!("task:missing_call_{}", call_name(w)),
            _ => "task:call_log".to_string(),
        };
        problems.push((sig, format!("connect outcomes {:?}: strategy calls were {:?}, expected {:?}", &outcomes[..attempt], got, want)));
    }
    // listener-announced delay == value returned; next attempt not earlier than the delay
    let mut ci = 0usize;
    for (i, (st, at)) in notes.iter().enumerate() {
        let announced = match st {
            ClientState::WaitAfterFailedConnect(d) => Some((*d, true)),
            ClientState::WaitAfterDisconnect(d) => Some((*d, false)),
            _ => None,
        };
        if let Some((d, failed)) = announced {
            // matching strategy call
            while ci < calls.len() && matches!(calls[ci].0, Call::Reset) {
                ci += 1;
            }
            match calls.get(ci) {
                Some((Call::Fail(x), _)) if failed => {
                    if *x != d {
                        problems.push(("task:announced_delay_differs_from_strategy".into(), format!("listener announced {d:?} after a failed connect, the strategy returned {x:?}")));
                    }
                }
                Some((Call::Disconnect(x), _)) if !failed => {
                    if *x != d {
                        problems.push(("task:announced_delay_differs_from_strategy".into(), format!("listener announced {d:?} after a disconnect, the strategy returned {x:?}")));
                    }
                }
                other => problems.push(("task:wait_state_without_matching_strategy_call".into(), format!("{} announced but the strategy log has {:?} at that point", state_name(st), other.map(|c| &c.0)))),
            }
            ci += 1;
            ev.count("announced_delays_checked", 1);
            // the next Connecting must not come earlier than the announced delay
            if let Some((ClientState::Connecting, t2)) = notes.get(i + 1).map(|x| (x.0, x.1)) {
                let waited = t2.saturating_duration_since(*at);
                ev.count("waits_measured", 1);
                if waited + Duration::from_millis(1) < d {
                    problems.push((
                        format!("task:next_attempt_earlier_than_announced:{}", state_name(st)),
                        format!("{} announced {d:?} but the next Connecting came after {waited:?}", state_name(st)),
                    ));
                }
                ev.class(format!("wait|{}{}|{}ms", if tls { "tls|" } else { "" }, state_name(st), d.as_millis()));
            }
        }
    }
    ev.set("outcome_sequences", format!("{:?}", outcomes));
    (ev, problems)
}

/// A delay too long for any clock (strategy saturated at Duration::MAX): it is announced, it is
/// waited (i.e. no further attempt), and the task stays responsive meanwhile.
async fn huge_delay(ev: &mut Evidence) -> Vec<(String, String)> {
    let mut problems = vec![];
    let port = crate::net::free_port(IpAddr::V4(Ipv4Addr::LOCALHOST));
    let (gtx, mut grx) = mpsc::unbounded_channel::<GateMsg>();
    let (channel, task) = create_tcp_client_task_with_options(
        HostAddr::ip(IpAddr::V4(Ipv4Addr::LOCALHOST), port),
        doubling_retry_strategy(Duration::MAX, Duration::MAX),
        Some(Box::new(crate::c13::Gate { tx: gtx })),
        ClientOptions::default(),
    );
    let jh = tokio::spawn(task.run());
    let _ = channel.enable().await;
    let mut seen = vec![];
    let mut announced = None;
    let t0 = Instant::now();
    while t0.elapsed() < Duration::from_secs(5) {
        match tokio::time::timeout(Duration::from_millis(500), grx.recv()).await {
            Ok(Some((st, _, ack))) => {
                seen.push(state_name(&st));
                let _ = ack.send(());
                if let ClientState::WaitAfterFailedConnect(d) = st {
                    announced = Some(d);
                    break;
                }
            }
            Ok(None) => break,
            Err(_) => {}
        }
    }
    ev.eval();
    ev.count("huge_delay_scripts", 1);
    if announced != Some(Duration::MAX) {
        problems.push(("task:huge_delay:not_announced".into(), format!("strategy (MAX, MAX), connection refused: states {seen:?}, announced {announced:?}")));
    }
    // responsive while waiting
    tokio::time::sleep(Duration::from_millis(50)).await;
    let r = tokio::time::timeout(Duration::from_secs(3), channel.read_coils(RequestParam::new(UnitId::new(1), Duration::from_millis(50)), AddressRange::try_from(0, 1).unwrap())).await;
    if !matches!(r, Ok(Err(RequestError::NoConnection))) {
        problems.push(("task:huge_delay:request_during_wait".into(), format!("a request during a wait of Duration::MAX completed with {r:?}")));
    }
    let _ = channel.shutdown().await;
    let drain = tokio::spawn(async move {
        let mut v = vec![];
        while let Some((st, _, ack)) = grx.recv().await {
            v.push(state_name(&st));
            let _ = ack.send(());
        }
        v
    });
    match tokio::time::timeout(Duration::from_secs(5), jh).await {
        Ok(Ok(_)) => {}
        Ok(Err(e)) => problems.push((format!("task:huge_delay:{}", if e.is_panic() { "panic" } else { "cancelled" }), format!("client task with a retry delay of Duration::MAX ended abnormally: {e}"))),
        Err(_) => problems.push(("task:huge_delay:task_did_not_terminate".into(), "client task did not end within 5 s after shutdown during a wait of Duration::MAX".into())),
    }
    let rest = tokio::time::timeout(Duration::from_secs(2), drain).await.ok().and_then(|r| r.ok()).unwrap_or_default();
    if rest.last() != Some(&"Shutdown") && problems.is_empty() {
        problems.push(("task:huge_delay:no_shutdown_state".into(), format!("states after shutdown: {rest:?}")));
    }
    ev.class("wait|WaitAfterFailedConnect|Duration::MAX");
    problems
}

fn call_name(c: &Call) -> String {
    match c {
        Call::Reset => "reset".into(),
        Call::Fail(d) => format!("after_failed_connect={}ms", d.as_millis()),
        Call::Disconnect(d) => format!("after_disconnect={}ms", d.as_millis()),
    }
}

pub fn run(args: &Args) -> i32 {
    let started = Instant::now();
    let seed = args.seed;
    let mut ev = Evidence::new();
    // silence the default panic output of catch_unwind probes
    let hook = std::panic::take_hook();
    std::panic::set_hook(Box::new(|_| {}));
    strategy_object(args, &mut ev);
    std::panic::set_hook(hook);

    let rt = tokio::runtime::Builder::new_multi_thread().worker_threads(8).enable_all().build().unwrap();
    let scripts = args.tier.pick(64u64, 2000);
    let batch = 32u64;
    let mut n = 0;
    while n < scripts {
        let hi = (n + batch).min(scripts);
        let results = rt.block_on(async {
            let mut hs = vec![];
            for i in n..hi {
                hs.push(tokio::spawn(async move { (i, task_level(seed, i, i % 4 == 3).await) }));
            }
            let mut out = vec![];
            for h in hs {
                if let Ok(x) = h.await {
                    out.push(x);
                }
            }
            out
        });
        for (i, (e, problems)) in results {
            ev.merge(e);
            ev.eval();
            ev.count("task_scripts", 1);
            for (sig, what) in problems {
                ev.violation(sig, what, json!({"n": i, "kind": "task"}));
            }
        }
        n = hi;
    }
    // serial client and RTU server tasks use the same strategy object
    {
        let reps = args.tier.pick(2usize, 30);
        for k in 0..reps {
            for scenario in [0usize, 1] {
                let mut e = Evidence::new();
                let problems = rt.block_on(crate::serial::serial_client(scenario, k, &mut e));
                ev.merge(e);
                ev.eval();
                ev.count("serial_task_scripts", 1);
                for (sig, what) in problems {
                    if sig.contains("strategy") || sig.contains("delay") || sig.contains("reset") || sig.contains("after_disconnect") || sig.contains("earlier_than") || sig.contains("no_wait_after") {
                        ev.violation(sig, what, json!({"leg": "serial_client", "scenario": scenario}));
                    }
                }
            }
            let mut e = Evidence::new();
            let problems = rt.block_on(crate::serial::rtu_server_pty(args.tier.pick(9, 60), seed ^ k as u64, &mut e));
            ev.merge(e);
            ev.count("rtu_server_task_scripts", 1);
            for (sig, what) in problems {
                if sig.starts_with("rtu_server:") {
                    ev.violation(sig, what, json!({"leg": "rtu_server"}));
                }
            }
        }
    }
    {
        let mut e = Evidence::new();
        let problems = rt.block_on(huge_delay(&mut e));
        ev.merge(e);
        for (sig, what) in problems {
            ev.violation(sig, what, json!({"leg": "huge_delay"}));
        }
    }
    // measured from outside: a serial port / RTU server port that is lost is re-opened no earlier
    // than the strategy's delay
    {
        let reps = args.tier.pick(2usize, 16);
        for k in 0..reps {
            let mut e = Evidence::new();
            let problems = rt.block_on(crate::serial::serial_client_reopen(k, &mut e));
            ev.merge(e);
            ev.eval();
            for (sig, what) in problems {
                if sig.contains("delay") {
                    ev.violation(sig, what, json!({"leg": "serial_client_reopen", "k": k}));
                }
            }
            // the RTU server task with a port that cannot be opened, appears, and is lost again
            let mut e = Evidence::new();
            let problems = rt.block_on(crate::serial::rtu_server_failed_opens(k, &mut e));
            ev.merge(e);
            for (sig, what) in problems {
                ev.violation(sig, what, json!({"leg": "rtu_server_failed_opens", "k": k}));
            }
            // the sequence restarts at min after a successful opening that ended without a failure
            let mut e = Evidence::new();
            let problems = rt.block_on(crate::serial::serial_client_restart(k, &mut e));
            ev.merge(e);
            for (sig, what) in problems {
                ev.violation(sig, what, json!({"leg": "serial_client_restart", "k": k}));
            }
            let mut e = Evidence::new();
            let problems = rt.block_on(crate::serial::rtu_server_reopen(k, &mut e));
            ev.merge(e);
            ev.eval();
            for (sig, what) in problems {
                // what the server answers on the new port is C01's business (leg c01pty)
                if sig.contains("no_service") || sig.contains("valid_frame_reply") {
                    continue;
                }
                ev.violation(sig, what, json!({"leg": "rtu_server_reopen", "k": k}));
            }
        }
    }
    ev.sample(json!({"strategy_lattice": lattice().iter().map(|d| format!("{d:?}")).collect::<Vec<_>>(), "task_level": {"min_ms": 20, "max_ms": 150, "outcomes": "refused / accepted then closed / accepted then garbage"}}));
    let meta = Meta {
        property_id: "C14",
        level: "exploration",
        rule: "(a) strategy object: doubling_retry_strategy(min,max) for every pair min<=max of {0, 1ns, 1ms, 1s, 60s, 2^32 s, MAX/2, MAX}; every call sequence over {failed connect, disconnect, reset} up to the stated length plus runs of 70 and 130 failures, compared call by call with min*2^(k-1) capped at max / min; a panic is a violation. (b) task level: the real TCP client task with a logging wrapper around the real strategy, connect-outcome sequences of 2-10 over {refused, accepted then closed, accepted then garbage}: call-log grammar (failed connect => after_failed_connect with the doubled value, completed connection => reset first, lost connection => after_disconnect), listener-announced delay == returned value, next Connecting not earlier than the announced delay. distinct = (min,max) pairs and (wait kind, delay) pairs".into(),
        assumptions: vec![
            "pairs with min > max are not tested (the statement's 'capped at max' and 'restarts at min' contradict each other there)".into(),
            "only the lower bound of the wait is a verdict; the upper bound is a watchdog".into(),
            "serial client and RTU server tasks use the same strategy calls; they are exercised on a pty in the thorough tier when /dev/ptmx is available".into(),
        ],
        exhaustive: Some(false),
        floors: vec![
            ("strategy_sequences_ok".into(), args.tier.pick(100_000, 1_000_000)),
            ("announced_delays_checked".into(), args.tier.pick(200, 6_000)),
            ("waits_measured".into(), args.tier.pick(200, 6_000)),
        ],
        min_classes: 30,
    };
    finish(args, meta, ev, started)
}
