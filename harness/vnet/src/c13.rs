//! C13: the client connection life-cycle is a legal state path; requests fail fast when down.
//! C14 (task level) shares the machinery: see `c14.rs`.
//!
//! The connection-state listener is used as a lock-step gate: every notification parks the
//! client task inside the callback until the harness acknowledges it, so user events and
//! environment faults can be injected at every life-cycle transition.

use crate::net::*;
use rodbus::client::*;
use rodbus::*;
use serde_json::json;
use std::net::{IpAddr, Ipv4Addr, SocketAddr};
use std::sync::atomic::{AtomicBool, AtomicU64, Ordering};
use std::sync::{Arc, Mutex};
use std::time::{Duration, Instant};
use tokio::io::{AsyncReadExt, AsyncWriteExt};
use tokio::sync::{mpsc, oneshot};
use vcommon::report::*;
use vcommon::rng::Rng;

pub type GateMsg = (ClientState, Instant, oneshot::Sender<()>);

pub struct Gate {
    pub tx: mpsc::UnboundedSender<GateMsg>,
}

impl Listener<ClientState> for Gate {
    fn update(&mut self, value: ClientState) -> MaybeAsync<()> {
        let tx = self.tx.clone();
        MaybeAsync::asynchronous(async move {
            let (a, b) = oneshot::channel();
            if tx.send((value, Instant::now(), a)).is_ok() {
                let _ = b.await;
            }
        })
    }
}

#[derive(Copy, Clone, Debug, PartialEq, Eq)]
pub enum Beh {
    Refused,
    AcceptClose,
    AcceptGarbage,
    AcceptSilent,
    Serve,
}

/// the environment: a listener the harness owns
pub struct Env {
    pub port: u16,
    pub beh: Arc<Mutex<Beh>>,
    pub accepts: Arc<AtomicU64>,
    pub peer_eofs: Arc<AtomicU64>,
    /// connections the environment keeps reading from until the client closes them
    pub kept: Arc<AtomicU64>,
    pub acceptor: Option<tokio::task::JoinHandle<()>>,
}

impl Env {
    pub fn new() -> Env {
        Env {
            port: free_port(IpAddr::V4(Ipv4Addr::LOCALHOST)),
            beh: Arc::new(Mutex::new(Beh::Refused)),
            accepts: Arc::new(AtomicU64::new(0)),
            peer_eofs: Arc::new(AtomicU64::new(0)),
            kept: Arc::new(AtomicU64::new(0)),
            acceptor: None,
        }
    }
    pub fn addr(&self) -> SocketAddr {
        SocketAddr::new(IpAddr::V4(Ipv4Addr::LOCALHOST), self.port)
    }
    /// arrange what the next connection attempt will meet
    pub async fn set(&mut self, b: Beh) {
        *self.beh.lock().unwrap() = b;
        if b == Beh::Refused {
            if let Some(a) = self.acceptor.take() {
                a.abort();
                let _ = a.await;
            }
            return;
        }
        if self.acceptor.as_ref().map(|a| a.is_finished()).unwrap_or(true) {
            // (re)bind; retry briefly: the previous listener may still be closing
            let mut l = None;
            for _ in 0..100 {
                match tokio::net::TcpListener::bind(self.addr()).await {
                    Ok(x) => {
                        l = Some(x);
                        break;
                    }
                    Err(_) => tokio::time::sleep(Duration::from_millis(10)).await,
                }
            }
            let Some(l) = l else { return };
            let beh = self.beh.clone();
            let accepts = self.accepts.clone();
            let eofs = self.peer_eofs.clone();
            let kept = self.kept.clone();
            self.acceptor = Some(tokio::spawn(async move {
                loop {
                    let Ok((mut s, _)) = l.accept().await else { return };
                    accepts.fetch_add(1, Ordering::SeqCst);
                    let b = *beh.lock().unwrap();
                    if matches!(b, Beh::AcceptGarbage | Beh::AcceptSilent | Beh::Serve) {
                        kept.fetch_add(1, Ordering::SeqCst);
                    }
                    let eofs = eofs.clone();
                    tokio::spawn(async move {
                        match b {
                            Beh::Refused | Beh::AcceptClose => {}
                            Beh::AcceptGarbage => {
                                let _ = s.write_all(&[0, 1, 0x66, 0x66, 0, 6, 1, 3, 0, 0, 0, 1]).await;
                                let mut buf = [0u8; 256];
                                while let Ok(n) = s.read(&mut buf).await {
                                    if n == 0 {
                                        break;
                                    }
                                }
                                eofs.fetch_add(1, Ordering::SeqCst);
                            }
                            Beh::AcceptSilent => {
                                let mut buf = [0u8; 256];
                                while let Ok(n) = s.read(&mut buf).await {
                                    if n == 0 {
                                        break;
                                    }
                                }
                                eofs.fetch_add(1, Ordering::SeqCst);
                            }
                            Beh::Serve => {
                                let mut buf = vec![];
                                let mut tmp = [0u8; 512];
                                loop {
                                    match s.read(&mut tmp).await {
                                        Ok(0) | Err(_) => break,
                                        Ok(n) => buf.extend_from_slice(&tmp[..n]),
                                    }
                                    while buf.len() >= 12 {
                                        let len = 6 + (((buf[4] as usize) << 8) | buf[5] as usize);
                                        if buf.len() < len {
                                            break;
                                        }
                                        let f: Vec<u8> = buf.drain(..len).collect();
                                        let n = ((f[10] as usize) << 8) | f[11] as usize;
                                        let mut pdu = vec![3u8, (2 * n) as u8];
                                        for _ in 0..n {
                                            pdu.extend_from_slice(&[0x12, 0x34]);
                                        }
                                        let reply = vcommon::model::mbap_frame(((f[0] as u16) << 8) | f[1] as u16, f[6], &pdu);
                                        if s.write_all(&reply).await.is_err() {
                                            break;
                                        }
                                    }
                                }
                                eofs.fetch_add(1, Ordering::SeqCst);
                            }
                        }
                    });
                }
            }));
        }
    }
}

pub fn state_name(s: &ClientState) -> &'static str {
    match s {
        ClientState::Disabled => "Disabled",
        ClientState::Connecting => "Connecting",
        ClientState::Connected => "Connected",
        ClientState::WaitAfterFailedConnect(_) => "WaitAfterFailedConnect",
        ClientState::WaitAfterDisconnect(_) => "WaitAfterDisconnect",
        ClientState::Shutdown => "Shutdown",
    }
}

pub fn legal(prev: Option<&ClientState>, next: &ClientState) -> bool {
    use ClientState::*;
    match (prev, next) {
        (None, Disabled) => true,
        (None, _) => false,
        (Some(Shutdown), _) => false,
        (Some(Disabled), Connecting) | (Some(Disabled), Shutdown) => true,
        (Some(Connecting), Connected) | (Some(Connecting), WaitAfterFailedConnect(_)) | (Some(Connecting), Disabled) | (Some(Connecting), Shutdown) => true,
        (Some(Connected), WaitAfterDisconnect(_)) | (Some(Connected), Disabled) | (Some(Connected), Shutdown) => true,
        (Some(WaitAfterFailedConnect(_)), Connecting) | (Some(WaitAfterFailedConnect(_)), Disabled) | (Some(WaitAfterFailedConnect(_)), Shutdown) => true,
        (Some(WaitAfterDisconnect(_)), Connecting) | (Some(WaitAfterDisconnect(_)), Disabled) | (Some(WaitAfterDisconnect(_)), Shutdown) => true,
        _ => false,
    }
}

#[derive(Copy, Clone, Debug, PartialEq, Eq)]
enum Act {
    Nothing,
    Enable,
    Disable,
    Shutdown,
    DropHandles,
    Submit,
    /// two commands back to back: the second one waits in the queue behind the disable
    DisableThenShutdown,
}

struct Pending {
    at_state: String,
    serve: bool,
    after_disable: bool,
    rx: oneshot::Receiver<Result<Vec<Indexed<u16>>, RequestError>>,
    submitted: Instant,
    /// result already taken at the state notification that followed the submission
    early: Option<Result<Vec<Indexed<u16>>, RequestError>>,
    gate_checked: bool,
}

async fn run_script(seed: u64, n: u64) -> (Evidence, Vec<(String, String)>, Vec<String>) {
    let mut ev = Evidence::new();
    let mut problems: Vec<(String, String)> = vec![];
    let mut rng = Rng::sub(seed, 113, n);
    let mut env = Env::new();
    let (gtx, mut grx) = mpsc::unbounded_channel::<GateMsg>();
    let (channel, task) = create_tcp_client_task_with_options(
        HostAddr::ip(IpAddr::V4(Ipv4Addr::LOCALHOST), env.port),
        doubling_retry_strategy(Duration::from_millis(20), Duration::from_millis(80)),
        Some(Box::new(Gate { tx: gtx })),
        ClientOptions::default().max_response_timeouts(std::num::NonZeroUsize::new(2)).max_queued_requests(8),
    );
    let jh = tokio::spawn(task.run());
    let mut handles: Vec<Channel> = vec![channel];
    let mut trace: Vec<String> = vec![];
    let mut prev: Option<ClientState> = None;
    let mut pending: Vec<Pending> = vec![];
    let mut enable_sent_since_disabled = false;
    // every enable (true) / disable (false) sent, in order; number of Disabled notifications
    // after the initial one
    let mut settings_sent: Vec<bool> = vec![];
    let mut disabled_seen: usize = 0;
    let mut first_disabled = true;
    let mut disable_outstanding: Option<(Instant, u32)> = None; // sent, notifications since
    let mut shutdown_sent: Option<(Instant, u32, &'static str)> = None;
    let mut accepts_at_disabled: Option<u64> = None;
    let mut expect_next: Option<(&'static str, Instant)> = None;
    let mut last_beh = Beh::Refused;
    let steps = 4 + rng.usize_below(9);
    let mut step = 0usize;
    let mut saw_shutdown = false;
    // CallbackSession returns once the command is in the queue, so a request submitted at a gate
    // is certainly queued before the gate is released
    #[allow(deprecated)]
    async fn submit(handles: &[Channel], timeout_ms: u64) -> Option<oneshot::Receiver<Result<Vec<Indexed<u16>>, RequestError>>> {
        let ch = handles.first()?.clone();
        let (tx, rx) = oneshot::channel();
        let mut session = CallbackSession::new(ch, RequestParam::new(UnitId::new(1), Duration::from_millis(timeout_ms)));
        session
            .read_holding_registers(AddressRange::try_from(0, 2).unwrap(), move |r| {
                let _ = tx.send(r.map(|it| it.collect::<Vec<_>>()));
            })
            .await;
        Some(rx)
    }

    loop {
        let budget = if step >= steps && shutdown_sent.is_none() { Duration::from_millis(1) } else { Duration::from_millis(400) };
        let gate = tokio::time::timeout(budget, grx.recv()).await;
        match gate {
            Ok(None) => break,
            Ok(Some((state, _at, ack))) => {
                trace.push(state_name(&state).to_string());
                ev.count("notifications", 1);
                ev.set("transitions", format!("{}->{}", prev.as_ref().map(state_name).unwrap_or("start"), state_name(&state)));
                if !legal(prev.as_ref(), &state) {
                    problems.push((
                        format!("illegal_transition:{}->{}", prev.as_ref().map(state_name).unwrap_or("start"), state_name(&state)),
                        format!("listener observed {} after {}", state_name(&state), prev.as_ref().map(state_name).unwrap_or("nothing")),
                    ));
                }
                // "fail immediately instead of queueing": a request handed over while the task was parked
                // at a wait-state notification is in the queue when the wait starts. The wait loop takes
                // commands in order until the delay is over; only a disable or shutdown ahead of the
                // request ends it early (next state Disabled / Shutdown). So if the next state is
                // Connecting the whole delay went by with the loop running, and the request's callback
                // has fired before this notification (same task, in this order) - unless it was left
                // sitting in the queue. Purely logical order, no clock involved.
                for p in pending.iter_mut() {
                    if !p.gate_checked && matches!(p.at_state.as_str(), "WaitAfterFailedConnect" | "WaitAfterDisconnect") {
                        p.gate_checked = true;
                        match p.rx.try_recv() {
                            Ok(r) => {
                                p.early = Some(r);
                                ev.count("requests_failed_before_next_notification", 1);
                            }
                            Err(oneshot::error::TryRecvError::Empty) if matches!(state, ClientState::Connecting) => problems.push((
                                format!("request_still_queued_when_wait_was_over:submitted_at_{}", p.at_state),
                                format!("a request submitted while the channel was at {} was still pending when the wait was over (Connecting announced): it was queued instead of failing immediately", p.at_state),
                            )),
                            Err(_) => {}
                        }
                    }
                }
                if let Some((want, _)) = expect_next.take() {
                    if want != state_name(&state) && disable_outstanding.is_none() && shutdown_sent.is_none() {
                        problems.push((
                            format!("expected_{}_got_{}:after_{}", want, state_name(&state), prev.as_ref().map(state_name).unwrap_or("start")),
                            format!("after {} with environment {:?} and no command pending, the next state must be {want} but was {}", prev.as_ref().map(state_name).unwrap_or("start"), last_beh, state_name(&state)),
                        ));
                    }
                }
                match &state {
                    ClientState::Disabled => {
                        if first_disabled {
                            first_disabled = false;
                        } else {
                            disabled_seen += 1;
                        }
                        disable_outstanding = None;
                        enable_sent_since_disabled = false;
                        // the task is parked: let an attempt made before the disable took
                        // effect reach the acceptor before taking the snapshot
                        tokio::time::sleep(Duration::from_millis(40)).await;
                        accepts_at_disabled = Some(env.accepts.load(Ordering::SeqCst));
                        // "Disabled after a disable, which also closes an open connection": every
                        // connection the environment still holds must have been closed by the client
                        let t0 = Instant::now();
                        while env.kept.load(Ordering::SeqCst) != env.peer_eofs.load(Ordering::SeqCst) && t0.elapsed() < Duration::from_secs(2) {
                            tokio::time::sleep(Duration::from_millis(5)).await;
                        }
                        ev.count("disabled_notifications_with_connection_check", 1);
                        if env.kept.load(Ordering::SeqCst) != env.peer_eofs.load(Ordering::SeqCst) {
                            problems.push((
                                format!("connection_open_while_disabled:after_{}", prev.as_ref().map(state_name).unwrap_or("start")),
                                format!("the channel reports Disabled but {} connection(s) to the peer are still open 2 s later", env.kept.load(Ordering::SeqCst) - env.peer_eofs.load(Ordering::SeqCst)),
                            ));
                        }
                    }
                    ClientState::Connecting => {
                        // The latest Disabled notification was caused by the d-th disable sent or a
                        // later one; leaving Disabled needs an enable sent after that disable.
                        let after = if disabled_seen == 0 {
                            0
                        } else {
                            settings_sent
                                .iter()
                                .enumerate()
                                .filter(|(_, e)| !**e)
                                .nth(disabled_seen - 1)
                                .map(|(i, _)| i + 1)
                                .unwrap_or(settings_sent.len())
                        };
                        let enable_possible = settings_sent[after.min(settings_sent.len())..].iter().any(|e| *e);
                        if matches!(prev, Some(ClientState::Disabled)) && !enable_possible {
                            problems.push(("connecting_while_disabled".into(), "Connecting was announced although no enable was sent since the channel reported Disabled".into()));
                        }
                        accepts_at_disabled = None;
                    }
                    ClientState::Shutdown => {
                        saw_shutdown = true;
                        let _ = ack.send(());
                        break;
                    }
                    _ => {}
                }
                if let Some((t, k)) = disable_outstanding.as_mut() {
                    *k += 1;
                    if *k > 3 {
                        problems.push(("no_disabled_after_disable".into(), format!("{} notifications after a disable without Disabled ({:?} ago)", k, t.elapsed())));
                        disable_outstanding = None;
                    }
                }
                if let Some((_, k, how)) = shutdown_sent.as_mut() {
                    *k += 1;
                    if *k > 3 {
                        problems.push((format!("no_shutdown_state_after_{how}"), "more than 3 notifications after shutdown was requested".into()));
                    }
                }
                // choose an action for this gate
                step += 1;
                let act = if shutdown_sent.is_some() {
                    Act::Nothing
                } else if step >= steps {
                    if rng.chance(1, 2) { Act::Shutdown } else { Act::DropHandles }
                } else {
                    match (&state, rng.below(10)) {
                        (ClientState::Disabled, 0..=5) => Act::Enable,
                        (ClientState::Disabled, 6) => Act::Submit,
                        (ClientState::Disabled, _) => Act::Nothing,
                        (_, 0) => Act::Disable,
                        (_, 1 | 2) => Act::Submit,
                        (_, 3) => Act::Enable,
                        (ClientState::Connected, 4) => Act::DisableThenShutdown,
                        _ => Act::Nothing,
                    }
                };
                // environment for the next connect is decided while the task is parked at Connecting
                if let ClientState::Connecting = state {
                    last_beh = *rng.pick(&[Beh::Refused, Beh::AcceptClose, Beh::AcceptGarbage, Beh::AcceptSilent, Beh::Serve, Beh::Serve]);
                    env.set(last_beh).await;
                    if act == Act::Nothing || act == Act::Enable {
                        expect_next = Some((if last_beh == Beh::Refused { "WaitAfterFailedConnect" } else { "Connected" }, Instant::now()));
                    }
                }
                if let ClientState::Connected = state {
                    if (act == Act::Nothing || act == Act::Enable) && matches!(last_beh, Beh::AcceptClose | Beh::AcceptGarbage) {
                        expect_next = Some(("WaitAfterDisconnect", Instant::now()));
                    }
                }
                if matches!(state, ClientState::WaitAfterDisconnect(_) | ClientState::WaitAfterFailedConnect(_)) && (act == Act::Nothing || act == Act::Enable || act == Act::Submit) {
                    expect_next = Some(("Connecting", Instant::now()));
                }
                ev.class(format!("gate|{}|{:?}|env={:?}", state_name(&state), act, if matches!(state, ClientState::Connecting | ClientState::Connected) { Some(last_beh) } else { None }));
                trace.push(format!("[{act:?}]"));
                match act {
                    Act::Nothing => {}
                    Act::Enable => {
                        if let Some(h) = handles.first() {
                            let _ = h.enable().await;
                            enable_sent_since_disabled = true;
                            settings_sent.push(true);
                        }
                    }
                    Act::Disable => {
                        if let Some(h) = handles.first() {
                            let _ = h.disable().await;
                            settings_sent.push(false);
                            disable_outstanding = Some((Instant::now(), 0));
                            expect_next = None;
                        }
                    }
                    Act::Shutdown => {
                        if let Some(h) = handles.first() {
                            let _ = h.shutdown().await;
                            shutdown_sent = Some((Instant::now(), 0, "shutdown"));
                        }
                    }
                    Act::DisableThenShutdown => {
                        if let Some(h) = handles.first() {
                            let _ = h.disable().await;
                            settings_sent.push(false);
                            let _ = h.shutdown().await;
                            shutdown_sent = Some((Instant::now(), 0, "shutdown_queued_behind_disable"));
                            expect_next = None;
                        }
                    }
                    Act::DropHandles => {
                        handles.clear();
                        shutdown_sent = Some((Instant::now(), 0, "handle_drop"));
                    }
                    Act::Submit => {
                        if let Some(rx) = submit(&handles, 60).await {
                            pending.push(Pending {
                                at_state: state_name(&state).to_string(),
                                serve: last_beh == Beh::Serve,
                                after_disable: disable_outstanding.is_some(),
                                rx,
                                submitted: Instant::now(),
                                early: None,
                                gate_checked: false,
                            });
                        }
                    }
                }
                prev = Some(state);
                let _ = ack.send(());
            }
            Err(_) => {
                // no notification: the task is idle (disabled and waiting, or connected and serving)
                if let Some((want, since)) = &expect_next {
                    if since.elapsed() > Duration::from_secs(5) {
                        problems.push((
                            format!("missing_{}:after_{}", want, prev.as_ref().map(state_name).unwrap_or("start")),
                            format!("no {want} notification within 5 s after {} (environment {:?})", prev.as_ref().map(state_name).unwrap_or("start"), last_beh),
                        ));
                        expect_next = None;
                    } else {
                        continue;
                    }
                }
                if let Some((t, _)) = &disable_outstanding {
                    if t.elapsed() > Duration::from_secs(5) {
                        problems.push(("no_disabled_after_disable".into(), "no Disabled notification within 5 s after disable".into()));
                        disable_outstanding = None;
                    }
                    continue;
                }
                if let Some((t, _, how)) = &shutdown_sent {
                    if t.elapsed() > Duration::from_secs(10) {
                        problems.push((format!("no_shutdown_state_after_{how}:in_{}", prev.as_ref().map(state_name).unwrap_or("start")), format!("no Shutdown notification within 10 s after {how} in state {}", prev.as_ref().map(state_name).unwrap_or("start"))));
                        break;
                    }
                    continue;
                }
                // while disabled no connection attempt may reach the listener
                if let (Some(ClientState::Disabled), Some(a0)) = (&prev, accepts_at_disabled) {
                    if !enable_sent_since_disabled && env.accepts.load(Ordering::SeqCst) != a0 {
                        problems.push(("connection_attempt_while_disabled".into(), "the harness listener accepted a connection while the channel was Disabled".into()));
                    }
                }
                step += 1;
                let act = if step >= steps {
                    if rng.chance(1, 2) { Act::Shutdown } else { Act::DropHandles }
                } else {
                    match (&prev, rng.below(6)) {
                        (Some(ClientState::Disabled), 0..=3) => Act::Enable,
                        (Some(ClientState::Disabled), _) => Act::Submit,
                        (_, 0 | 1) => Act::Submit,
                        (_, 2) => Act::Disable,
                        _ => Act::Submit,
                    }
                };
                ev.class(format!("idle|{}|{:?}", prev.as_ref().map(state_name).unwrap_or("start"), act));
                trace.push(format!("<idle:{act:?}>"));
                match act {
                    Act::Enable => {
                        if let Some(h) = handles.first() {
                            let _ = h.enable().await;
                            enable_sent_since_disabled = true;
                            settings_sent.push(true);
                            expect_next = Some(("Connecting", Instant::now()));
                        }
                    }
                    Act::Disable => {
                        if let Some(h) = handles.first() {
                            let _ = h.disable().await;
                            settings_sent.push(false);
                            disable_outstanding = Some((Instant::now(), 0));
                        }
                    }
                    Act::Shutdown => {
                        if let Some(h) = handles.first() {
                            let _ = h.shutdown().await;
                            shutdown_sent = Some((Instant::now(), 0, "shutdown"));
                        }
                    }
                    Act::DropHandles => {
                        handles.clear();
                        shutdown_sent = Some((Instant::now(), 0, "handle_drop"));
                    }
                    Act::Submit => {
                        if let Some(rx) = submit(&handles, 60).await {
                            pending.push(Pending {
                                at_state: format!("idle_{}", prev.as_ref().map(state_name).unwrap_or("start")),
                                serve: last_beh == Beh::Serve,
                                after_disable: disable_outstanding.is_some(),
                                rx,
                                submitted: Instant::now(),
                                early: None,
                                gate_checked: false,
                            });
                            // silent peer + consecutive timeout limit of 2: a second request
                            if last_beh == Beh::AcceptSilent && matches!(prev, Some(ClientState::Connected)) {
                                if let Some(rx) = submit(&handles, 60).await {
                                    pending.push(Pending { at_state: "idle_Connected".into(), serve: false, after_disable: false, rx, submitted: Instant::now(), early: None, gate_checked: false });
                                    expect_next = Some(("WaitAfterDisconnect", Instant::now()));
                                }
                            }
                        }
                    }
                    Act::Nothing | Act::DisableThenShutdown => {}
                }
            }
        }
    }

    // termination
    if shutdown_sent.is_some() || saw_shutdown {
        if !saw_shutdown {
            problems.push(("shutdown_state_never_reported".into(), "the listener never observed Shutdown".into()));
        }
        let t0 = Instant::now();
        let joined = tokio::time::timeout(Duration::from_secs(60), jh).await;
        match joined {
            Ok(_) => {
                ev.max("task_end_ms", t0.elapsed().as_millis() as u64);
                if t0.elapsed() > Duration::from_secs(5) {
                    ev.count("slow_terminations", 1);
                }
            }
            Err(_) => problems.push((format!("task_did_not_terminate:{}", shutdown_sent.map(|s| s.2).unwrap_or("?")), "the client task is still running 60 s after shutdown / handle drop".into())),
        }
        // anything after Shutdown?
        if let Ok(Some((s, _, _))) = tokio::time::timeout(Duration::from_millis(50), grx.recv()).await {
            problems.push((format!("notification_after_shutdown:{}", state_name(&s)), "a state was reported after Shutdown".into()));
        }
        // handles report shutdown. (If the task is in fact still alive it may park at the next
        // notification: keep acknowledging in the background and bound every call.)
        let drain = tokio::spawn(async move {
            while let Some((_, _, ack)) = grx.recv().await {
                let _ = ack.send(());
            }
        });
        if let Some(h) = handles.first() {
            match tokio::time::timeout(Duration::from_secs(5), h.enable()).await {
                Ok(Ok(())) => problems.push(("handle_usable_after_shutdown".into(), "enable() succeeded after the Shutdown state".into())),
                Ok(Err(_)) => {}
                Err(_) => problems.push(("handle_call_hangs_after_shutdown".into(), "enable() did not return within 5 s after the Shutdown state".into())),
            }
            match tokio::time::timeout(Duration::from_secs(5), h.read_holding_registers(RequestParam::new(UnitId::new(1), Duration::from_millis(50)), AddressRange::try_from(0, 1).unwrap())).await {
                Ok(r) => {
                    if r != Err(RequestError::Shutdown) {
                        problems.push(("request_after_shutdown_not_shutdown_error".into(), format!("a request after Shutdown completed with {r:?}")));
                    }
                }
                Err(_) => problems.push(("request_after_shutdown_never_completes".into(), "a request submitted after shutdown was requested did not complete within 5 s".into())),
            }
            ev.count("post_shutdown_handle_checks", 1);
        }
        drain.abort();
    } else {
        jh.abort();
    }
    // request results
    for p in pending {
        let outcome = match p.early {
            Some(r) => Ok(Ok(r)),
            None => tokio::time::timeout(Duration::from_secs(5), p.rx).await,
        };
        match outcome {
            Err(_) | Ok(Err(_)) => problems.push((format!("request_never_completed:submitted_at_{}", p.at_state), format!("a request submitted at {} did not complete within 5 s after the script ended", p.at_state))),
            Ok(Ok(res)) => {
                ev.count("requests_checked", 1);
                let class = match &res {
                    Ok(_) => "ok",
                    Err(RequestError::NoConnection) => "no_connection",
                    Err(RequestError::Shutdown) => "shutdown",
                    Err(RequestError::ResponseTimeout) => "timeout",
                    Err(RequestError::Io(_)) => "io",
                    Err(RequestError::BadFrame(_)) => "bad_frame",
                    Err(_) => "other",
                };
                ev.class(format!("request|{}|{}", p.at_state, class));
                // A request queued at the Connecting gate races with the connect itself: on
                // loopback the connect can complete in its first poll, in which case the request
                // is served by the new session. Every other "down" state fails it for certain.
                let down = matches!(p.at_state.as_str(), "Disabled" | "WaitAfterFailedConnect" | "WaitAfterDisconnect" | "idle_Disabled");
                if p.at_state == "Connecting" && class != "no_connection" {
                    ev.count("requests_at_connecting_gate_served_by_new_session", 1);
                }
                if down && !matches!(class, "no_connection" | "shutdown") {
                    problems.push((
                        format!("request_while_down_got_{class}:at_{}", p.at_state),
                        format!("a request submitted while the channel was at {} completed with {res:?} instead of failing fast with no-connection", p.at_state),
                    ));
                }
                if down && class == "shutdown" && shutdown_sent.is_none() {
                    problems.push((format!("request_while_down_got_shutdown:at_{}", p.at_state), "shutdown error although the task was not shut down".into()));
                }
                let _ = (p.serve, p.after_disable, p.submitted);
            }
        }
    }
    env.set(Beh::Refused).await;
    (ev, problems, trace)
}

pub fn run(args: &Args) -> i32 {
    let started = Instant::now();
    let seed = args.seed;
    let scripts = args.tier.pick(300u64, 10_000);
    let rt = tokio::runtime::Builder::new_multi_thread().worker_threads(8).enable_all().build().unwrap();
    let mut ev = Evidence::new();
    let only: Option<u64> = args.replay.as_ref().and_then(|p| {
        serde_json::from_str::<serde_json::Value>(&std::fs::read_to_string(p).ok()?).ok()?["case"]["n"].as_u64()
    });
    let batch = 48u64;
    let mut n = 0;
    while n < scripts {
        let hi = (n + batch).min(scripts);
        let results = rt.block_on(async {
            let mut hs = vec![];
            for i in n..hi {
                if only.map(|o| o != i).unwrap_or(false) {
                    continue;
                }
                hs.push(tokio::spawn(async move {
                    let r = run_script(seed, i).await;
                    (i, r)
                }));
            }
            let mut out = vec![];
            for h in hs {
                if let Ok(x) = h.await {
                    out.push(x);
                }
            }
            out
        });
        for (i, (e, problems, trace)) in results {
            ev.merge(e);
            ev.eval();
            ev.set("state_paths", trace.iter().filter(|t| !t.starts_with('[') && !t.starts_with('<')).cloned().collect::<Vec<_>>().join(">"));
            if i < 3 {
                ev.sample(json!({"trace": trace}));
            }
            for (sig, what) in problems {
                ev.violation(sig, format!("{what}; trace: {}", trace.join(" ")), json!({"n": i, "trace": trace}));
            }
        }
        n = hi;
    }
    // serial analogue on a pty / an unopenable path
    {
        let reps = args.tier.pick(3usize, 40);
        for k in 0..reps {
            for scenario in [0usize, 1] {
                let mut e = Evidence::new();
                let problems = rt.block_on(crate::serial::serial_client(scenario, k, &mut e));
                ev.merge(e);
                ev.eval();
                ev.count("serial_scripts", 1);
                for (sig, what) in problems {
                    // strategy arithmetic belongs to C14
                    if sig.contains("strategy") || sig.contains("delay") || sig.contains("reset") || sig.contains("after_disconnect") || sig.contains("earlier_than") {
                        continue;
                    }
                    ev.violation(sig, what, json!({"leg": "serial", "scenario": scenario, "k": k}));
                }
            }
        }
    }
    // serial settings the driver accepts although they make no sense
    {
        let mut e = Evidence::new();
        let problems = rt.block_on(crate::serial::serial_odd_settings(&mut e));
        ev.merge(e);
        for (sig, what) in problems {
            ev.violation(sig, what, json!({"leg": "serial_odd_settings"}));
        }
    }
    // TLS client whose handshake never completes
    for what in ["request", "disable", "shutdown", "drop_handle"] {
        let mut e = Evidence::new();
        let problems = rt.block_on(tls_stalled_handshake(what, &mut e));
        ev.merge(e);
        ev.eval();
        for (sig, what2) in problems {
            ev.violation(sig, what2, json!({"leg": "tls_stalled_handshake", "scenario": what}));
        }
    }
    // a request in flight to a silent peer, then shutdown / handle drop / disable
    for unbounded in [false, true] {
        for action in ["shutdown", "drop_handle", "disable"] {
            let mut e = Evidence::new();
            let problems = rt.block_on(request_in_flight(action, unbounded, &mut e));
            ev.merge(e);
            ev.eval();
            for (sig, what2) in problems {
                ev.violation(sig, what2, json!({"leg": "request_in_flight", "action": action, "no_timeout": unbounded}));
            }
        }
    }
    // serial port that is disabled while open, disappears and comes back
    {
        let reps = args.tier.pick(2usize, 20);
        for k in 0..reps {
            let mut e = Evidence::new();
            let problems = rt.block_on(crate::serial::serial_client_reopen(k, &mut e));
            ev.merge(e);
            ev.eval();
            ev.count("serial_scripts", 1);
            for (sig, what) in problems {
                if sig.contains("delay") {
                    continue; // C14
                }
                ev.violation(sig, what, json!({"leg": "serial_reopen", "k": k}));
            }
        }
    }
    let meta = Meta {
        property_id: "C13",
        level: "exploration",
        rule: "one evaluation = one lock-step script of 4-12 steps against the real create_tcp_client_task_with_options task: the state listener parks the task at every notification; at each gate (or while the task is idle) one of {enable, disable, shutdown, drop all handles, submit, nothing} is injected and, at Connecting, the environment for that attempt is chosen from {connection refused, accepted then closed, accepted then garbage, accepted and silent (limit of 2 timeouts), served}. Online automaton on the listener stream (legal transitions, expected successor when nothing is pending, Disabled within 3 notifications of a disable, Shutdown once and last), accept counter while Disabled, request results (no-connection when submitted while down), handles after Shutdown, JoinHandle termination. distinct = (gate state, action, environment) and request (state, result) pairs; distinct state paths are counted".into(),
        assumptions: vec![
            "wall-clock is used only for watchdogs (5 s for an expected notification, 60 s for termination)".into(),
            "a TLS client whose handshake never completes is covered by the tls_stalled_handshake leg (request, disable, shutdown, handle drop)".into(),
        ],
        exhaustive: None,
        floors: vec![
            ("notifications".into(), args.tier.pick(1_500, 50_000)),
            ("tls_stalled_handshake_scenarios".into(), 4),
            ("request_in_flight_scenarios".into(), 6),
            ("serial_port_released_after_disable".into(), 0),
            ("requests_checked".into(), args.tier.pick(150, 5_000)),
            ("distinct_state_paths".into(), 0),
        ],
        min_classes: 40,
    };
    finish(args, meta, ev, started)
}

struct PlainLog {
    states: std::sync::Arc<std::sync::Mutex<Vec<ClientState>>>,
}
impl Listener<ClientState> for PlainLog {
    fn update(&mut self, v: ClientState) -> MaybeAsync<()> {
        self.states.lock().unwrap().push(v);
        MaybeAsync::ready(())
    }
}

/// TLS client whose peer accepts the TCP connection and then says nothing: the task sits in
/// `Connecting` (inside the handshake). It is "not connected": requests fail at once, disable is
/// reported, shutdown / dropping the handles ends the task - "from every state".
pub async fn tls_stalled_handshake(what: &'static str, ev: &mut Evidence) -> Vec<(String, String)> {
    let mut problems = vec![];
    let Ok(listener) = tokio::net::TcpListener::bind("127.0.0.1:0").await else {
        ev.inconclusive("stalled-handshake leg: bind");
        return problems;
    };
    let port = listener.local_addr().unwrap().port();
    let accepted = std::sync::Arc::new(AtomicU64::new(0));
    let acc2 = accepted.clone();
    let silent = tokio::spawn(async move {
        let mut held = vec![];
        while let Ok((s, _)) = listener.accept().await {
            acc2.fetch_add(1, Ordering::SeqCst);
            held.push(s); // keep it open, never write
        }
    });
    let cfg = match TlsClientConfig::full_pki(
        Some("test.server".to_string()),
        &crate::tls::fixture("ca1.cert.pem"),
        &crate::tls::fixture("client_operator.cert.pem"),
        &crate::tls::fixture("client_operator.key.pem"),
        None,
        MinTlsVersion::V1_2,
    ) {
        Ok(c) => c,
        Err(e) => {
            ev.inconclusive(format!("stalled-handshake leg: TlsClientConfig: {e}"));
            return problems;
        }
    };
    let states = std::sync::Arc::new(std::sync::Mutex::new(vec![]));
    let (channel, task) = create_tls_client_task_with_options(
        HostAddr::ip(IpAddr::V4(Ipv4Addr::LOCALHOST), port),
        doubling_retry_strategy(Duration::from_millis(200), Duration::from_millis(200)),
        cfg,
        Some(Box::new(PlainLog { states: states.clone() })),
        ClientOptions::default(),
    );
    let jh = tokio::spawn(task.run());
    let _ = channel.enable().await;
    // wait until the TCP connection exists: from here on the task is inside the handshake
    let t0 = Instant::now();
    while accepted.load(Ordering::SeqCst) == 0 && t0.elapsed() < Duration::from_secs(5) {
        tokio::time::sleep(Duration::from_millis(2)).await;
    }
    if accepted.load(Ordering::SeqCst) == 0 {
        ev.inconclusive("stalled-handshake leg: the client never connected");
        silent.abort();
        return problems;
    }
    tokio::time::sleep(Duration::from_millis(50)).await;
    ev.count("tls_stalled_handshake_scenarios", 1);
    ev.class(format!("tls_stalled_handshake|{what}"));
    let names = |s: &std::sync::Arc<std::sync::Mutex<Vec<ClientState>>>| s.lock().unwrap().iter().map(state_name).collect::<Vec<_>>();
    match what {
        "request" => {
            let r = tokio::time::timeout(Duration::from_secs(3), channel.read_coils(RequestParam::new(UnitId::new(1), Duration::from_millis(200)), AddressRange::try_from(0, 1).unwrap())).await;
            match r {
                Ok(Err(RequestError::NoConnection)) => {}
                Ok(other) => problems.push((format!("tls_stalled_handshake:request:{}", match &other { Ok(_) => "ok".to_string(), Err(e) => format!("{e:?}").split('(').next().unwrap().to_string() }), format!("a request submitted while the TLS handshake was pending completed with {other:?}"))),
                Err(_) => problems.push(("tls_stalled_handshake:request_queued".into(), format!("a request submitted while the channel was inside a TLS handshake (not connected) was still pending after 3 s; states {:?}", names(&states)))),
            }
        }
        "disable" => {
            let _ = channel.disable().await;
            let st = states.clone();
            let t0 = Instant::now();
            while t0.elapsed() < Duration::from_secs(3) && st.lock().unwrap().iter().filter(|s| matches!(s, ClientState::Disabled)).count() < 2 {
                tokio::time::sleep(Duration::from_millis(5)).await;
            }
            if states.lock().unwrap().iter().filter(|s| matches!(s, ClientState::Disabled)).count() < 2 {
                problems.push(("tls_stalled_handshake:no_disabled_after_disable".into(), format!("no Disabled notification within 3 s after disable() while the TLS handshake was pending; states {:?}", names(&states))));
            }
        }
        _ => {}
    }
    // every scenario ends with shutdown (or dropping the handle): the task must end
    if what == "drop_handle" {
        drop(channel);
    } else {
        let _ = channel.shutdown().await;
    }
    match tokio::time::timeout(Duration::from_secs(5), jh).await {
        Ok(_) => {
            if names(&states).last() != Some(&"Shutdown") {
                problems.push(("tls_stalled_handshake:shutdown_not_last".into(), format!("states {:?}", names(&states))));
            }
        }
        Err(_) => problems.push((format!("tls_stalled_handshake:task_did_not_terminate:{what}"), format!("the TLS client task was still running 5 s after {} while its handshake was pending; states {:?}", if what == "drop_handle" { "its handles were dropped" } else { "shutdown" }, names(&states)))),
    }
    silent.abort();
    problems
}

/// A request is in flight to a peer that took it and stays silent; then shutdown / drop of every
/// handle / disable. With an ordinary response timeout the command is honoured when the request has
/// timed out (bounded: timeout + slack). With a timeout that never elapses ("no timeout",
/// `Duration::MAX`) the property still says "from every state": waiting for the reply must not make
/// the task deaf to shutdown, the drop of its handles or disable.
#[allow(deprecated)]
pub async fn request_in_flight(action: &'static str, unbounded: bool, ev: &mut Evidence) -> Vec<(String, String)> {
    let mut problems = vec![];
    let Ok(listener) = tokio::net::TcpListener::bind("127.0.0.1:0").await else {
        ev.inconclusive("in-flight leg: bind");
        return problems;
    };
    let port = listener.local_addr().unwrap().port();
    // the peer reads everything, never replies, and closes its connections when told to
    let got = std::sync::Arc::new(AtomicU64::new(0));
    let eofs = std::sync::Arc::new(AtomicU64::new(0));
    let (close_tx, _) = tokio::sync::broadcast::channel::<()>(4);
    let (got2, eofs2, close2) = (got.clone(), eofs.clone(), close_tx.clone());
    let peer = tokio::spawn(async move {
        while let Ok((mut s, _)) = listener.accept().await {
            let (got3, eofs3, mut close3) = (got2.clone(), eofs2.clone(), close2.subscribe());
            tokio::spawn(async move {
                use tokio::io::AsyncReadExt;
                let mut buf = [0u8; 512];
                loop {
                    tokio::select! {
                        r = s.read(&mut buf) => match r {
                            Ok(0) | Err(_) => { eofs3.fetch_add(1, Ordering::SeqCst); return; }
                            Ok(n) => { got3.fetch_add(n as u64, Ordering::SeqCst); }
                        },
                        _ = close3.recv() => return,
                    }
                }
            });
        }
    });
    let states = std::sync::Arc::new(std::sync::Mutex::new(vec![]));
    let (channel, task) = create_tcp_client_task_with_options(
        HostAddr::ip(IpAddr::V4(Ipv4Addr::LOCALHOST), port),
        doubling_retry_strategy(Duration::from_millis(100), Duration::from_millis(100)),
        Some(Box::new(PlainLog { states: states.clone() })),
        ClientOptions::default(),
    );
    let jh = tokio::spawn(task.run());
    let _ = channel.enable().await;
    let tc = Instant::now();
    while !states.lock().unwrap().iter().any(|s| matches!(s, ClientState::Connected)) && tc.elapsed() < Duration::from_secs(5) {
        tokio::time::sleep(Duration::from_millis(2)).await;
    }
    let timeout = if unbounded { Duration::MAX } else { Duration::from_millis(700) };
    let (tx, mut rx) = oneshot::channel();
    let completions = std::sync::Arc::new(AtomicU64::new(0));
    let c2 = completions.clone();
    {
        let mut session = CallbackSession::new(channel.clone(), RequestParam::new(UnitId::new(1), timeout));
        let tx = std::sync::Mutex::new(Some(tx));
        session
            .read_holding_registers(AddressRange::try_from(0, 2).unwrap(), move |r| {
                c2.fetch_add(1, Ordering::SeqCst);
                if let Some(tx) = tx.lock().unwrap().take() {
                    let _ = tx.send(r.map(|it| it.collect::<Vec<_>>()));
                }
            })
            .await;
    }
    // the request has been transmitted: the task is now waiting for the reply
    let t0 = Instant::now();
    while got.load(Ordering::SeqCst) < 12 && t0.elapsed() < Duration::from_secs(5) {
        tokio::time::sleep(Duration::from_millis(2)).await;
    }
    if got.load(Ordering::SeqCst) < 12 {
        ev.inconclusive("in-flight leg: the request never reached the peer");
        peer.abort();
        return problems;
    }
    let sent_at = Instant::now();
    tokio::time::sleep(Duration::from_millis(40)).await;
    ev.count("request_in_flight_scenarios", 1);
    ev.class(format!("request_in_flight|{action}|{}", if unbounded { "no_timeout" } else { "timeout_700ms" }));
    let names = |s: &std::sync::Arc<std::sync::Mutex<Vec<ClientState>>>| s.lock().unwrap().iter().map(state_name).collect::<Vec<_>>();
    let disabled_count = |s: &std::sync::Arc<std::sync::Mutex<Vec<ClientState>>>| s.lock().unwrap().iter().filter(|x| matches!(x, ClientState::Disabled)).count();
    let mut channel = Some(channel);
    match action {
        "shutdown" => {
            let _ = channel.as_mut().unwrap().shutdown().await;
        }
        "drop_handle" => {
            channel = None;
        }
        _ => {
            let _ = channel.as_mut().unwrap().disable().await;
        }
    }
    // honoured = the task ended (shutdown / drop) or Disabled was announced and the connection closed (disable)
    let mut jh = jh;
    let honoured = |jh: &tokio::task::JoinHandle<_>| if action == "disable" { disabled_count(&states) >= 2 && eofs.load(Ordering::SeqCst) >= 1 } else { jh.is_finished() };
    let wait = if unbounded { Duration::from_millis(2500) } else { Duration::from_millis(700 + 3000) };
    let t1 = Instant::now();
    while !honoured(&jh) && t1.elapsed() < wait {
        tokio::time::sleep(Duration::from_millis(5)).await;
    }
    if !honoured(&jh) {
        if unbounded {
            problems.push((
                format!("request_in_flight:no_timeout:{action}_not_honoured"),
                format!("a request with a response timeout that never elapses (Duration::MAX) was in flight to a silent peer; 2.5 s after {action} the task had not reacted (task finished={}, states {:?}, connections closed by the client={})", jh.is_finished(), names(&states), eofs.load(Ordering::SeqCst)),
            ));
        } else {
            problems.push((
                format!("request_in_flight:bounded:{action}_not_honoured"),
                format!("a request with a 700 ms response timeout was in flight to a silent peer; {action} was not honoured within 3 s after the deadline (task finished={}, states {:?}, connections closed by the client={})", jh.is_finished(), names(&states), eofs.load(Ordering::SeqCst)),
            ));
        }
        // let the request fail on a closed connection so that the scenario can end
        let _ = close_tx.send(());
        let t2 = Instant::now();
        // (the connection is gone: for disable, the Disabled notification is what is left to see)
        let honoured2 = |jh: &tokio::task::JoinHandle<_>| if action == "disable" { disabled_count(&states) >= 2 } else { jh.is_finished() };
        while !honoured2(&jh) && t2.elapsed() < Duration::from_secs(5) {
            tokio::time::sleep(Duration::from_millis(5)).await;
        }
        if !honoured2(&jh) {
            problems.push((format!("request_in_flight:{action}_not_honoured_after_connection_loss"), format!("{action} had no effect even 5 s after the peer closed the connection; states {:?}", names(&states))));
        }
    }
    // the request completes exactly once, and not with data
    match tokio::time::timeout(Duration::from_secs(5), &mut rx).await {
        Ok(Ok(Ok(v))) => problems.push(("request_in_flight:data_from_silent_peer".into(), format!("the request to a silent peer completed with {v:?}"))),
        Ok(Ok(Err(e))) => {
            ev.class(format!("request_in_flight|result|{action}|{}", format!("{e:?}").split('(').next().unwrap()));
            if !unbounded && matches!(e, RequestError::ResponseTimeout) && sent_at.elapsed() < Duration::from_millis(600) {
                problems.push(("request_in_flight:timeout_before_deadline".into(), format!("ResponseTimeout {:?} after transmission with a 700 ms timeout", sent_at.elapsed())));
            }
        }
        Ok(Err(_)) => problems.push(("request_in_flight:callback_dropped".into(), "the callback of the request in flight was dropped without being invoked".into())),
        Err(_) => problems.push(("request_in_flight:pending".into(), format!("the request in flight was still pending 5 s after {action} had been honoured; states {:?}", names(&states)))),
    }
    // end of the scenario
    if let Some(mut ch) = channel.take() {
        let _ = ch.shutdown().await;
    }
    if tokio::time::timeout(Duration::from_secs(5), &mut jh).await.is_err() {
        problems.push(("request_in_flight:task_did_not_terminate".into(), format!("task still running 5 s after the final shutdown; states {:?}", names(&states))));
        jh.abort();
    } else if names(&states).last() != Some(&"Shutdown") || names(&states).iter().filter(|n| **n == "Shutdown").count() != 1 {
        problems.push(("request_in_flight:shutdown_not_once_and_last".into(), format!("states {:?}", names(&states))));
    }
    tokio::time::sleep(Duration::from_millis(20)).await;
    if completions.load(Ordering::SeqCst) != 1 {
        problems.push(("request_in_flight:completions".into(), format!("the callback of the request in flight ran {} times", completions.load(Ordering::SeqCst))));
    }
    peer.abort();
    problems
}
