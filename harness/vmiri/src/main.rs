//! Workloads small enough for Miri (undefined-behaviour interpreter):
//!   vmiri ffi <seed> : the runtime-free part of the C ABI (device map, database, lists, address
//!                      filters, iterators, null-pointer arguments) with the database model
//!   vmiri sim <seed> : a handful of production server sessions over the scripted transport
//! Prints "VMIRI-OK <n>" when the oracles were silent; Miri itself reports UB / leaks.

use rodbus_ffi::ffi;
use std::os::raw::c_void;
use std::sync::atomic::{AtomicU32, Ordering};
use vcommon::rng::Rng;

static DESTROYS: AtomicU32 = AtomicU32::new(0);
static MISMATCH: AtomicU32 = AtomicU32::new(0);
static OPS: AtomicU32 = AtomicU32::new(0);

extern "C" fn on_destroy(_ctx: *mut c_void) {
    DESTROYS.fetch_add(1, Ordering::SeqCst);
}

struct Script {
    seed: u64,
}

extern "C" fn configure(db: *mut rodbus_ffi::Database, ctx: *mut c_void) {
    let s = unsafe { &*(ctx as *const Script) };
    let mut rng = Rng::new(s.seed);
    let mut model: std::collections::HashMap<(u8, u16), u16> = Default::default();
    for _ in 0..60 {
        let t = rng.below(4) as u8;
        let i = rng.below(5) as u16;
        let v = rng.u16();
        let bit = v & 1 == 1;
        OPS.fetch_add(1, Ordering::SeqCst);
        unsafe {
            match rng.below(4) {
                0 => {
                    let want = !model.contains_key(&(t, i));
                    if want {
                        model.insert((t, i), if t < 2 { bit as u16 } else { v });
                    }
                    let got = match t {
                        0 => ffi::rodbus_database_add_coil(db, i, bit),
                        1 => ffi::rodbus_database_add_discrete_input(db, i, bit),
                        2 => ffi::rodbus_database_add_holding_register(db, i, v),
                        _ => ffi::rodbus_database_add_input_register(db, i, v),
                    };
                    if got != want {
                        MISMATCH.fetch_add(1, Ordering::SeqCst);
                    }
                }
                1 => {
                    let want = model.contains_key(&(t, i));
                    if want {
                        model.insert((t, i), if t < 2 { bit as u16 } else { v });
                    }
                    let got = match t {
                        0 => ffi::rodbus_database_update_coil(db, i, bit),
                        1 => ffi::rodbus_database_update_discrete_input(db, i, bit),
                        2 => ffi::rodbus_database_update_holding_register(db, i, v),
                        _ => ffi::rodbus_database_update_input_register(db, i, v),
                    };
                    if got != want {
                        MISMATCH.fetch_add(1, Ordering::SeqCst);
                    }
                }
                2 => {
                    let want = model.remove(&(t, i)).is_some();
                    let got = match t {
                        0 => ffi::rodbus_database_delete_coil(db, i),
                        1 => ffi::rodbus_database_delete_discrete_input(db, i),
                        2 => ffi::rodbus_database_delete_holding_register(db, i),
                        _ => ffi::rodbus_database_delete_input_register(db, i),
                    };
                    if got != want {
                        MISMATCH.fetch_add(1, Ordering::SeqCst);
                    }
                }
                _ => {
                    let want = model.get(&(t, i)).copied();
                    let got = if t < 2 {
                        let mut out = false;
                        let rc = if t == 0 { ffi::rodbus_database_get_coil(db, i, &mut out) } else { ffi::rodbus_database_get_discrete_input(db, i, &mut out) };
                        if rc == 0 { Some(out as u16) } else { None }
                    } else {
                        let mut out = 0u16;
                        let rc = if t == 2 { ffi::rodbus_database_get_holding_register(db, i, &mut out) } else { ffi::rodbus_database_get_input_register(db, i, &mut out) };
                        if rc == 0 { Some(out) } else { None }
                    };
                    if got != want {
                        MISMATCH.fetch_add(1, Ordering::SeqCst);
                    }
                }
            }
        }
    }
}

fn ffi_leg(seed: u64) -> u32 {
    unsafe {
        for round in 0..3u64 {
            let map = ffi::rodbus_device_map_create();
            let mut seen: Vec<u8> = vec![];
            for unit in [1u8, 2, 1] {
                let script = Box::into_raw(Box::new(Script { seed: seed ^ (round * 31 + unit as u64) }));
                let handler = ffi::WriteHandler {
                    write_single_coil: None,
                    write_single_register: None,
                    write_multiple_coils: None,
                    write_multiple_registers: None,
                    on_destroy: Some(on_destroy),
                    ctx: std::ptr::null_mut(),
                };
                let cb = ffi::DatabaseCallback { callback: Some(configure), on_destroy: Some(on_destroy), ctx: script as *mut c_void };
                let added = ffi::rodbus_device_map_add_endpoint(map, unit, handler, cb);
                // the third add re-uses unit 1 and must be refused
                let first_time = !seen.contains(&unit);
                seen.push(unit);
                if added != first_time {
                    println!("VMIRI-MISMATCH add_endpoint(unit {unit}) returned {added}");
                    MISMATCH.fetch_add(1, Ordering::SeqCst);
                }
                drop(Box::from_raw(script));
            }
            ffi::rodbus_device_map_destroy(map);
        }
        // lists
        let bl = ffi::rodbus_bit_list_create(4);
        for i in 0..300 {
            ffi::rodbus_bit_list_add(bl, i % 3 == 0);
        }
        ffi::rodbus_bit_list_destroy(bl);
        let rl = ffi::rodbus_register_list_create(0);
        for i in 0..300u16 {
            ffi::rodbus_register_list_add(rl, i);
        }
        ffi::rodbus_register_list_destroy(rl);
        // address filters
        let any = ffi::rodbus_address_filter_any();
        let bad = std::ffi::CString::new("1.2.3").unwrap();
        let good = std::ffi::CString::new("127.0.0.1").unwrap();
        let wc = std::ffi::CString::new("10.*.*.7").unwrap();
        if ffi::rodbus_address_filter_add(any, good.as_ptr()) == 0 {
            MISMATCH.fetch_add(1, Ordering::SeqCst);
        }
        ffi::rodbus_address_filter_destroy(any);
        let mut out = std::ptr::null_mut();
        if ffi::rodbus_address_filter_create(bad.as_ptr(), &mut out) == 0 {
            MISMATCH.fetch_add(1, Ordering::SeqCst);
            ffi::rodbus_address_filter_destroy(out);
        }
        let mut out = std::ptr::null_mut();
        if ffi::rodbus_address_filter_create(good.as_ptr(), &mut out) != 0 {
            MISMATCH.fetch_add(1, Ordering::SeqCst);
        } else {
            let v6 = std::ffi::CString::new("::1").unwrap();
            if ffi::rodbus_address_filter_add(out, v6.as_ptr()) != 0 || ffi::rodbus_address_filter_add(out, bad.as_ptr()) == 0 {
                MISMATCH.fetch_add(1, Ordering::SeqCst);
            }
            ffi::rodbus_address_filter_destroy(out);
        }
        let mut out = std::ptr::null_mut();
        if ffi::rodbus_address_filter_create(wc.as_ptr(), &mut out) != 0 {
            MISMATCH.fetch_add(1, Ordering::SeqCst);
        } else {
            if ffi::rodbus_address_filter_add(out, good.as_ptr()) == 0 {
                MISMATCH.fetch_add(1, Ordering::SeqCst);
            }
            ffi::rodbus_address_filter_destroy(out);
        }
        // null-pointer arguments everywhere a pointer is taken
        let null_db: *mut rodbus_ffi::Database = std::ptr::null_mut();
        let mut b = false;
        let mut r = 0u16;
        if ffi::rodbus_database_add_coil(null_db, 0, true)
            || ffi::rodbus_database_update_holding_register(null_db, 0, 1)
            || ffi::rodbus_database_delete_input_register(null_db, 0)
            || ffi::rodbus_database_get_coil(null_db, 0, &mut b) == 0
            || ffi::rodbus_database_get_holding_register(null_db, 0, &mut r) == 0
        {
            MISMATCH.fetch_add(1, Ordering::SeqCst);
        }
        ffi::rodbus_bit_list_add(std::ptr::null_mut(), true);
        ffi::rodbus_register_list_add(std::ptr::null_mut(), 1);
        ffi::rodbus_bit_list_destroy(std::ptr::null_mut());
        ffi::rodbus_register_list_destroy(std::ptr::null_mut());
        ffi::rodbus_address_filter_destroy(std::ptr::null_mut());
        ffi::rodbus_device_map_destroy(std::ptr::null_mut());
        if ffi::rodbus_address_filter_add(std::ptr::null_mut(), good.as_ptr()) == 0 {
            MISMATCH.fetch_add(1, Ordering::SeqCst);
        }
        if !ffi::rodbus_bit_value_iterator_next(std::ptr::null_mut()).is_null() || !ffi::rodbus_register_value_iterator_next(std::ptr::null_mut()).is_null() {
            MISMATCH.fetch_add(1, Ordering::SeqCst);
        }
        let v = std::ffi::CStr::from_ptr(ffi::rodbus_version());
        if v.to_bytes().is_empty() {
            MISMATCH.fetch_add(1, Ordering::SeqCst);
        }
    }
    // every endpoint registration hands over two callback objects (handler + configure):
    // 3 rounds x 3 registrations x 2
    let d = DESTROYS.load(Ordering::SeqCst);
    if d != 18 {
        println!("VMIRI-MISMATCH on_destroy fired {d} times for 18 callback objects");
        MISMATCH.fetch_add(1, Ordering::SeqCst);
    }
    OPS.load(Ordering::SeqCst)
}

fn sim_leg(seed: u64) -> u32 {
    use vsim::checks::server_props::{gen_case, Which};
    use vsim::server_run::{compare_server, run_server_case};
    let mut n = 0;
    for i in 0..6u64 {
        let g = gen_case(if i % 2 == 0 { Which::C01 } else { Which::C08 }, seed, i);
        let obs = run_server_case(&g.case);
        let (disc, st) = compare_server(&g.case, &obs);
        n += st.requests as u32;
        for d in disc {
            println!("VMIRI-MISMATCH sim: {} :: {}", d.sig, d.what);
            MISMATCH.fetch_add(1, Ordering::SeqCst);
        }
    }
    n
}

fn main() {
    let args: Vec<String> = std::env::args().collect();
    let leg = args.get(1).map(|s| s.as_str()).unwrap_or("ffi");
    let seed: u64 = args.get(2).and_then(|s| s.parse().ok()).unwrap_or(1);
    let n = match leg {
        "sim" => sim_leg(seed),
        _ => ffi_leg(seed),
    };
    let m = MISMATCH.load(Ordering::SeqCst);
    if m == 0 {
        println!("VMIRI-OK {n}");
    } else {
        println!("VMIRI-MISMATCH count={m}");
        std::process::exit(1);
    }
}
