//! Drive the production client loop through its public handle types over the scripted
//! transport; record submissions and completions at the API boundary.

use crate::io::Seq;
use crate::util::catch;
use rodbus::client::*;
use rodbus::*;
use std::future::Future;
use std::sync::atomic::{AtomicUsize, Ordering};
use std::sync::{Arc, Mutex};
use std::time::Duration;
use vcommon::model::*;

#[derive(Copy, Clone, Debug, PartialEq, Eq, Hash)]
pub enum Style {
    /// `Channel` async methods
    Future,
    /// deprecated `CallbackSession`
    Callback,
    /// `FfiChannel` (try_send)
    Ffi,
}

pub const ALL_STYLES_API: [Style; 3] = [Style::Future, Style::Callback, Style::Ffi];

impl Style {
    pub fn name(self) -> &'static str {
        match self {
            Style::Future => "future",
            Style::Callback => "callback",
            Style::Ffi => "ffi",
        }
    }
}

/// What a request completed with, in rodbus-independent terms
#[derive(Clone, Debug, PartialEq)]
pub enum Res {
    Bits(Vec<(u16, bool)>),
    Regs(Vec<(u16, u16)>),
    EchoCoil(u16, bool),
    EchoReg(u16, u16),
    EchoRange(u16, u16),
    Err(RequestError),
    /// rejected synchronously by a constructor / the call itself, before anything was queued
    Rejected(String),
}

impl Res {
    pub fn class(&self) -> String {
        match self {
            Res::Bits(_) | Res::Regs(_) | Res::EchoCoil(..) | Res::EchoReg(..) | Res::EchoRange(..) => {
                "ok".into()
            }
            Res::Err(e) => err_class(e).into(),
            Res::Rejected(_) => "rejected_at_api".into(),
        }
    }
    pub fn is_ok(&self) -> bool {
        self.class() == "ok"
    }
    pub fn exception(&self) -> Option<u8> {
        match self {
            Res::Err(RequestError::Exception(x)) => Some(u8::from(*x)),
            _ => None,
        }
    }
}

pub fn err_class(e: &RequestError) -> &'static str {
    match e {
        RequestError::Io(_) => "io",
        RequestError::Exception(_) => "exception",
        RequestError::BadRequest(_) => "bad_request",
        RequestError::BadFrame(_) => "bad_frame",
        RequestError::BadResponse(_) => "bad_response",
        RequestError::Internal(_) => "internal",
        RequestError::ResponseTimeout => "timeout",
        RequestError::NoConnection => "no_connection",
        RequestError::Shutdown => "shutdown",
    }
}

/// Completion record written at the API boundary
#[derive(Clone, Debug)]
pub struct Completion {
    pub res: Res,
    pub at: Duration,
    pub seq: u64,
    /// iterator length bookkeeping was consistent (callback styles)
    pub iter_ok: bool,
}

pub struct Slot {
    pub completions: Mutex<Vec<Completion>>,
    pub invocations: AtomicUsize,
    pub notify: tokio::sync::Notify,
    pub start: tokio::time::Instant,
    pub seq: Seq,
}

impl Slot {
    pub fn new(start: tokio::time::Instant, seq: Seq) -> Arc<Slot> {
        Arc::new(Slot {
            completions: Mutex::new(vec![]),
            invocations: AtomicUsize::new(0),
            notify: tokio::sync::Notify::new(),
            start,
            seq,
        })
    }
    pub fn complete(&self, res: Res, iter_ok: bool) {
        self.invocations.fetch_add(1, Ordering::SeqCst);
        let at = tokio::time::Instant::now().saturating_duration_since(self.start);
        let seq = self.seq.next();
        self.completions.lock().unwrap().push(Completion {
            res,
            at,
            seq,
            iter_ok,
        });
        self.notify.notify_waiters();
    }
    pub fn count(&self) -> usize {
        self.completions.lock().unwrap().len()
    }
    pub fn first(&self) -> Option<Completion> {
        self.completions.lock().unwrap().first().cloned()
    }
    pub async fn wait(&self) -> Completion {
        loop {
            let n = self.notify.notified();
            if let Some(c) = self.first() {
                return c;
            }
            n.await;
        }
    }
}

fn bits_res(r: Result<BitIterator, RequestError>) -> (Res, bool) {
    match r {
        Ok(it) => {
            let hint = it.size_hint();
            let len = it.len();
            let v: Vec<(u16, bool)> = it.map(|x| (x.index, x.value)).collect();
            let ok = hint == (v.len(), Some(v.len())) && len == v.len();
            (Res::Bits(v), ok)
        }
        Err(e) => (Res::Err(e), true),
    }
}

fn regs_res(r: Result<RegisterIterator, RequestError>) -> (Res, bool) {
    match r {
        Ok(it) => {
            let hint = it.size_hint();
            let len = it.len();
            let v: Vec<(u16, u16)> = it.map(|x| (x.index, x.value)).collect();
            let ok = hint == (v.len(), Some(v.len())) && len == v.len();
            (Res::Regs(v), ok)
        }
        Err(e) => (Res::Err(e), true),
    }
}

/// What `submit` reports about the call itself
#[derive(Clone, Debug, PartialEq)]
pub enum CallOutcome {
    /// handed to the channel (queued, or for Future style: a task is awaiting the call)
    Accepted,
    /// rejected before queueing; the slot has a `Rejected` completion if no callback exists
    RejectedAtApi(String),
    /// FfiChannel only: try_send failed; the callback must still fire (Shutdown)
    FfiFull,
    FfiClosed,
}

/// Submit one request through the chosen API. For `Future` style a task is spawned that awaits
/// the call; for `Callback` the function returns once the command is queued.
#[allow(deprecated)]
pub async fn submit(
    channel: &Channel,
    style: Style,
    unit: u8,
    timeout: Duration,
    req: &ClientReq,
    slot: Arc<Slot>,
) -> CallOutcome {
    let param = RequestParam::new(UnitId::new(unit), timeout);
    // constructors of the public value types
    enum Built {
        Read(Kind, AddressRange),
        Wsc(Indexed<bool>),
        Wsr(Indexed<u16>),
        Wmc(WriteMultiple<bool>),
        Wmr(WriteMultiple<u16>),
    }
    let built = match req {
        ClientReq::Read { kind, start, count } => match AddressRange::try_from(*start, *count) {
            Ok(r) => Built::Read(*kind, r),
            // The fields of AddressRange are public: a caller can hand over a range the constructor
            // would have refused. Half of the invalid ranges take that road through the API.
            Err(_) if (*start as u32 + *count as u32) % 2 == 1 => Built::Read(*kind, AddressRange { start: *start, count: *count }),
            Err(e) => {
                let why = format!("AddressRange::try_from: {e:?}");
                slot.complete(Res::Rejected(why.clone()), true);
                return CallOutcome::RejectedAtApi(why);
            }
        },
        ClientReq::WriteSingleCoil { addr, value } => Built::Wsc(Indexed::new(*addr, *value)),
        ClientReq::WriteSingleReg { addr, value } => Built::Wsr(Indexed::new(*addr, *value)),
        ClientReq::WriteMultiCoils { start, values } => {
            match WriteMultiple::from(*start, values.clone()) {
                Ok(x) => Built::Wmc(x),
                Err(e) => {
                    let why = format!("WriteMultiple::from: {e:?}");
                    slot.complete(Res::Rejected(why.clone()), true);
                    return CallOutcome::RejectedAtApi(why);
                }
            }
        }
        ClientReq::WriteMultiRegs { start, values } => {
            match WriteMultiple::from(*start, values.clone()) {
                Ok(x) => Built::Wmr(x),
                Err(e) => {
                    let why = format!("WriteMultiple::from: {e:?}");
                    slot.complete(Res::Rejected(why.clone()), true);
                    return CallOutcome::RejectedAtApi(why);
                }
            }
        }
    };

    match style {
        Style::Future => {
            let ch = channel.clone();
            tokio::spawn(async move {
                let res = match built {
                    Built::Read(kind, range) => match kind {
                        Kind::ReadCoils => ch
                            .read_coils(param, range)
                            .await
                            .map(|v| Res::Bits(v.iter().map(|x| (x.index, x.value)).collect())),
                        Kind::ReadDiscrete => ch
                            .read_discrete_inputs(param, range)
                            .await
                            .map(|v| Res::Bits(v.iter().map(|x| (x.index, x.value)).collect())),
                        Kind::ReadHolding => ch
                            .read_holding_registers(param, range)
                            .await
                            .map(|v| Res::Regs(v.iter().map(|x| (x.index, x.value)).collect())),
                        _ => ch
                            .read_input_registers(param, range)
                            .await
                            .map(|v| Res::Regs(v.iter().map(|x| (x.index, x.value)).collect())),
                    },
                    Built::Wsc(x) => ch
                        .write_single_coil(param, x)
                        .await
                        .map(|r| Res::EchoCoil(r.index, r.value)),
                    Built::Wsr(x) => ch
                        .write_single_register(param, x)
                        .await
                        .map(|r| Res::EchoReg(r.index, r.value)),
                    Built::Wmc(x) => ch
                        .write_multiple_coils(param, x)
                        .await
                        .map(|r| Res::EchoRange(r.start, r.count)),
                    Built::Wmr(x) => ch
                        .write_multiple_registers(param, x)
                        .await
                        .map(|r| Res::EchoRange(r.start, r.count)),
                };
                slot.complete(res.unwrap_or_else(Res::Err), true);
            });
            CallOutcome::Accepted
        }
        Style::Callback => {
            let mut s = CallbackSession::new(channel.clone(), param);
            match built {
                Built::Read(kind, range) => match kind {
                    Kind::ReadCoils => {
                        s.read_coils(range, move |r| {
                            let (res, ok) = bits_res(r);
                            slot.complete(res, ok)
                        })
                        .await
                    }
                    Kind::ReadDiscrete => {
                        s.read_discrete_inputs(range, move |r| {
                            let (res, ok) = bits_res(r);
                            slot.complete(res, ok)
                        })
                        .await
                    }
                    Kind::ReadHolding => {
                        s.read_holding_registers(range, move |r| {
                            let (res, ok) = regs_res(r);
                            slot.complete(res, ok)
                        })
                        .await
                    }
                    _ => {
                        s.read_input_registers(range, move |r| {
                            let (res, ok) = regs_res(r);
                            slot.complete(res, ok)
                        })
                        .await
                    }
                },
                Built::Wsc(x) => {
                    s.write_single_coil(x, move |r| {
                        slot.complete(
                            r.map(|r| Res::EchoCoil(r.index, r.value)).unwrap_or_else(Res::Err),
                            true,
                        )
                    })
                    .await
                }
                Built::Wsr(x) => {
                    s.write_single_register(x, move |r| {
                        slot.complete(
                            r.map(|r| Res::EchoReg(r.index, r.value)).unwrap_or_else(Res::Err),
                            true,
                        )
                    })
                    .await
                }
                Built::Wmc(x) => {
                    s.write_multiple_coils(x, move |r| {
                        slot.complete(
                            r.map(|r| Res::EchoRange(r.start, r.count)).unwrap_or_else(Res::Err),
                            true,
                        )
                    })
                    .await
                }
                Built::Wmr(x) => {
                    s.write_multiple_registers(x, move |r| {
                        slot.complete(
                            r.map(|r| Res::EchoRange(r.start, r.count)).unwrap_or_else(Res::Err),
                            true,
                        )
                    })
                    .await
                }
            }
            CallOutcome::Accepted
        }
        Style::Ffi => {
            let mut f = FfiChannel::new(channel.clone());
            let r = match built {
                Built::Read(kind, range) => match kind {
                    Kind::ReadCoils => f.read_coils(param, range, move |r| {
                        let (res, ok) = bits_res(r);
                        slot.complete(res, ok)
                    }),
                    Kind::ReadDiscrete => f.read_discrete_inputs(param, range, move |r| {
                        let (res, ok) = bits_res(r);
                        slot.complete(res, ok)
                    }),
                    Kind::ReadHolding => f.read_holding_registers(param, range, move |r| {
                        let (res, ok) = regs_res(r);
                        slot.complete(res, ok)
                    }),
                    _ => f.read_input_registers(param, range, move |r| {
                        let (res, ok) = regs_res(r);
                        slot.complete(res, ok)
                    }),
                },
                Built::Wsc(x) => f.write_single_coil(param, x, move |r| {
                    slot.complete(
                        r.map(|r| Res::EchoCoil(r.index, r.value)).unwrap_or_else(Res::Err),
                        true,
                    )
                }),
                Built::Wsr(x) => f.write_single_register(param, x, move |r| {
                    slot.complete(
                        r.map(|r| Res::EchoReg(r.index, r.value)).unwrap_or_else(Res::Err),
                        true,
                    )
                }),
                Built::Wmc(x) => f.write_multiple_coils(param, x, move |r| {
                    slot.complete(
                        r.map(|r| Res::EchoRange(r.start, r.count)).unwrap_or_else(Res::Err),
                        true,
                    )
                }),
                Built::Wmr(x) => f.write_multiple_registers(param, x, move |r| {
                    slot.complete(
                        r.map(|r| Res::EchoRange(r.start, r.count)).unwrap_or_else(Res::Err),
                        true,
                    )
                }),
            };
            match r {
                Ok(()) => CallOutcome::Accepted,
                Err(FfiChannelError::ChannelFull) => CallOutcome::FfiFull,
                Err(FfiChannelError::ChannelClosed) => CallOutcome::FfiClosed,
                Err(FfiChannelError::BadRange(e)) => {
                    CallOutcome::RejectedAtApi(format!("FfiChannel: BadRange({e:?})"))
                }
            }
        }
    }
}

/// Run an async scenario on a fresh paused current-thread runtime, catching panics.
pub fn run_paused<F, Fut, R>(f: F) -> Result<R, String>
where
    F: FnOnce() -> Fut,
    Fut: Future<Output = R>,
{
    catch(|| {
        let rt = tokio::runtime::Builder::new_current_thread()
            .enable_time()
            .start_paused(true)
            .build()
            .unwrap();
        rt.block_on(f())
    })
}

/// Let every ready task run until the runtime would go idle (no virtual time passes as long
/// as nobody sleeps for less than the step)
pub async fn settle() {
    for _ in 0..64 {
        tokio::task::yield_now().await;
    }
}

/// the genuine response PDU a correct server would send for `req` with the given values
pub fn genuine_reply(req: &ClientReq, fill: u64) -> Vec<u8> {
    match req {
        ClientReq::Read { kind, count, .. } => {
            let mut pdu = vec![kind.fc()];
            if kind.is_bits() {
                let n = (*count as usize).div_ceil(8);
                pdu.push(n as u8);
                let mut bytes: Vec<u8> = (0..n)
                    .map(|i| (vcommon::rng::hash4(fill, i as u64, 1, 2) & 0xFF) as u8)
                    .collect();
                // zero padding bits in the last byte
                let rem = *count as usize % 8;
                if rem != 0 {
                    let last = bytes.len() - 1;
                    bytes[last] &= (1u8 << rem) - 1;
                }
                pdu.extend(bytes);
            } else {
                pdu.push((2 * *count) as u8);
                for i in 0..*count {
                    let v = (vcommon::rng::hash4(fill, i as u64, 3, 4) & 0xFFFF) as u16;
                    pdu.extend_from_slice(&v.to_be_bytes());
                }
            }
            pdu
        }
        ClientReq::WriteSingleCoil { addr, value } => Req::WriteSingleCoil {
            addr: *addr,
            value: *value,
        }
        .encode(),
        ClientReq::WriteSingleReg { addr, value } => Req::WriteSingleReg {
            addr: *addr,
            value: *value,
        }
        .encode(),
        ClientReq::WriteMultiCoils { start, values } => {
            let mut pdu = vec![15u8];
            pdu.extend_from_slice(&start.to_be_bytes());
            pdu.extend_from_slice(&(values.len() as u16).to_be_bytes());
            pdu
        }
        ClientReq::WriteMultiRegs { start, values } => {
            let mut pdu = vec![16u8];
            pdu.extend_from_slice(&start.to_be_bytes());
            pdu.extend_from_slice(&(values.len() as u16).to_be_bytes());
            pdu
        }
    }
}

/// Does the observed result satisfy the reference expectation?
pub fn result_matches(expect: &RespExpect, req: &ClientReq, got: &Res) -> Result<bool, String> {
    // Ok(true) = preferred outcome, Ok(false) = allowed don't-care, Err = violation
    let non_exception_error = |g: &Res| match g {
        Res::Err(RequestError::Exception(_)) => false,
        Res::Err(_) => true,
        _ => false,
    };
    match expect {
        RespExpect::Bits(v) => match got {
            Res::Bits(g) if g == v => Ok(true),
            _ => Err(format!("expected Ok({} bit values)", v.len())),
        },
        RespExpect::Regs(v) => match got {
            Res::Regs(g) if g == v => Ok(true),
            _ => Err(format!("expected Ok({} register values)", v.len())),
        },
        RespExpect::BitsOrError(v) => match got {
            Res::Bits(g) if g == v => Ok(false),
            g if non_exception_error(g) => Ok(false),
            _ => Err("expected the exact bit values or a non-exception error".into()),
        },
        RespExpect::RegsOrError(v) => match got {
            Res::Regs(g) if g == v => Ok(false),
            g if non_exception_error(g) => Ok(false),
            _ => Err("expected the exact register values or a non-exception error".into()),
        },
        RespExpect::Echo => {
            let ok = match (req, got) {
                (ClientReq::WriteSingleCoil { addr, value }, Res::EchoCoil(a, v)) => a == addr && v == value,
                (ClientReq::WriteSingleReg { addr, value }, Res::EchoReg(a, v)) => a == addr && v == value,
                (ClientReq::WriteMultiCoils { start, values }, Res::EchoRange(s, c)) => {
                    s == start && *c as usize == values.len()
                }
                (ClientReq::WriteMultiRegs { start, values }, Res::EchoRange(s, c)) => {
                    s == start && *c as usize == values.len()
                }
                _ => false,
            };
            if ok {
                Ok(true)
            } else {
                Err("expected Ok(echo of the request)".into())
            }
        }
        RespExpect::Exception(code) => match got.exception() {
            Some(c) if c == *code => Ok(true),
            _ => Err(format!("expected Err(Exception({code:#04x}))")),
        },
        RespExpect::Error => {
            if non_exception_error(got) {
                Ok(true)
            } else {
                Err("expected an error that is not an exception".into())
            }
        }
    }
}

pub fn rframing(f: Framing) -> rodbus::verif::Framing {
    match f {
        Framing::Mbap => rodbus::verif::Framing::Mbap,
        Framing::Rtu => rodbus::verif::Framing::Rtu,
    }
}

/// Reassembles request frames from the pieces a client writes
pub struct RequestAssembler {
    framing: Framing,
    buf: Vec<u8>,
}

impl RequestAssembler {
    pub fn new(framing: Framing) -> Self {
        Self {
            framing,
            buf: vec![],
        }
    }
    /// feed written bytes; returns complete frames (raw bytes)
    pub fn feed(&mut self, bytes: &[u8]) -> Vec<Vec<u8>> {
        self.buf.extend_from_slice(bytes);
        let mut out = vec![];
        loop {
            let need = match self.framing {
                Framing::Mbap => {
                    if self.buf.len() < 7 {
                        break;
                    }
                    6 + (((self.buf[4] as usize) << 8) | self.buf[5] as usize)
                }
                Framing::Rtu => match rtu_frame_len(RtuDir::Request, &self.buf) {
                    RtuLen::Total(n) => n,
                    RtuLen::NeedMore => break,
                    // not parseable as a request: hand over everything
                    _ => self.buf.len(),
                },
            };
            if need == 0 || self.buf.len() < need {
                break;
            }
            let frame: Vec<u8> = self.buf.drain(..need).collect();
            out.push(frame);
        }
        out
    }
    pub fn pending(&self) -> usize {
        self.buf.len()
    }
}
