//! Run the production server session over a scripted transport and compare what it did with the
//! reference server.

use crate::handlers::{build_map, Log, SimAuth};
use crate::io::{sim_io, In, Seq};
use crate::util::{catch, decode_level};
use rodbus::verif::ServerCommand;
use rodbus::verif::Framing as RFraming;
use std::collections::BTreeMap;
use std::sync::{Arc, Mutex};
use std::time::Duration;
use vcommon::model::*;
use vcommon::report::hex;

#[derive(Clone, Debug)]
pub enum Cmd {
    Decode(u8, u8, u8),
    Shutdown,
    /// drop the command sender (handle dropped)
    DropHandle,
}

#[derive(Clone, Debug)]
pub struct ServerCase {
    pub framing: Framing,
    pub stores: BTreeMap<u8, Store>,
    pub policy: Option<Policy>,
    pub script: Vec<In>,
    pub decode: (u8, u8, u8),
    /// commands issued at virtual instants
    pub commands: Vec<(Duration, Cmd)>,
}

/// optional second session on the same handler map, run after the first one ended
#[derive(Clone, Debug, Default)]
pub struct Followup {
    pub script: Vec<In>,
}

#[derive(Clone, Debug)]
pub struct ServerObs {
    pub out: Vec<u8>,
    pub log: Vec<Call>,
    pub end: Option<String>,
    pub end_is_bad_frame: bool,
    pub end_is_io: bool,
    pub end_is_shutdown: bool,
    pub final_stores: BTreeMap<u8, Store>,
    pub panic: Option<String>,
    pub timed_out: bool,
    pub read_polls: u64,
    pub max_polls_without_progress: u64,
    pub bytes_delivered: u64,
    pub io_dropped: bool,
    pub poisoned: bool,
    pub elapsed_virtual: Duration,
    pub spin_detected: bool,
    pub followup_out: Option<Vec<u8>>,
    pub followup_panic: Option<String>,
}

pub fn input_stream(script: &[In]) -> Vec<u8> {
    let mut v = vec![];
    for i in script {
        if let In::Chunk(c) = i {
            v.extend_from_slice(c);
        }
    }
    v
}

pub fn run_server_case(case: &ServerCase) -> ServerObs {
    run_server_case_with(case, None)
}

pub fn run_server_case_with(case: &ServerCase, followup: Option<&Followup>) -> ServerObs {
    run_server_case_io(case, followup, None)
}

/// `write_chunking`: the peer reads slowly - every write of the server is accepted in pieces of at
/// most `.0` bytes with `.1` of virtual time between them
/// `write_chunking.0` value meaning "the peer does not read at all"
pub const WRITE_BLOCKED: usize = 0;

pub fn run_server_case_io(case: &ServerCase, followup: Option<&Followup>, write_chunking: Option<(usize, Duration)>) -> ServerObs {
    let log: Log = Arc::new(Mutex::new(vec![]));
    let (map, refs) = build_map(&case.stores, &log);
    let map2 = map.clone();
    let auth = case
        .policy
        .as_ref()
        .map(|p| (SimAuth::new(p.clone(), log.clone()), p.role.clone()));
    let seq = Seq::default();
    let script = case.script.clone();
    let framing = match case.framing {
        Framing::Mbap => RFraming::Mbap,
        Framing::Rtu => RFraming::Rtu,
    };
    let decode = decode_level(case.decode);
    let commands = case.commands.clone();

    let mut handle_slot = None;
    let result = catch(|| {
        let rt = tokio::runtime::Builder::new_current_thread()
            .enable_time()
            .start_paused(true)
            .build()
            .unwrap();
        rt.block_on(async {
            let (io, handle) = sim_io(script, seq.clone());
            if let Some((k, d)) = write_chunking {
                if k == WRITE_BLOCKED {
                    // the peer never reads: no write ever completes
                    handle.set_write_blocked(true);
                } else {
                    handle.set_write_chunking(k, d);
                }
            }
            handle_slot = Some(handle.clone());
            let (tx, rx) = tokio::sync::mpsc::channel(8);
            let start = tokio::time::Instant::now();
            let cmd_task = tokio::spawn(async move {
                let mut tx = Some(tx);
                for (at, cmd) in commands {
                    tokio::time::sleep_until(start + at).await;
                    match cmd {
                        Cmd::Decode(a, f, p) => {
                            if let Some(tx) = &tx {
                                let _ = tx
                                    .send(ServerCommand::ChangeDecoding(decode_level((a, f, p))))
                                    .await;
                            }
                        }
                        Cmd::Shutdown => {
                            if let Some(tx) = &tx {
                                let _ = tx.send(ServerCommand::Shutdown).await;
                            }
                        }
                        Cmd::DropHandle => {
                            tx = None;
                        }
                    }
                }
                // keep the sender alive: a dropped handle is a different event
                std::future::pending::<()>().await;
                drop(tx);
            });
            let session =
                rodbus::verif::run_server_session(Box::new(io), framing, map, auth, rx, decode);
            let res = tokio::time::timeout(Duration::from_secs(24 * 3600), session).await;
            cmd_task.abort();
            (res, start.elapsed())
        })
    });

    // second session on the same handlers (detects poisoned mutexes / broken shared state)
    let mut followup_out = None;
    let mut followup_panic = None;
    if let Some(f) = followup {
        let script = f.script.clone();
        let seq2 = Seq::default();
        let mut h2 = None;
        let r = catch(|| {
            let rt = tokio::runtime::Builder::new_current_thread()
                .enable_time()
                .start_paused(true)
                .build()
                .unwrap();
            rt.block_on(async {
                let (io, handle) = sim_io(script, seq2);
                h2 = Some(handle);
                let (_tx, rx) = tokio::sync::mpsc::channel(8);
                let session = rodbus::verif::run_server_session(
                    Box::new(io),
                    framing,
                    map2,
                    None,
                    rx,
                    decode_level((0, 0, 0)),
                );
                let _ = tokio::time::timeout(Duration::from_secs(3600), session).await;
            })
        });
        if let Err(p) = r {
            followup_panic = Some(p);
        }
        followup_out = h2.map(|h| h.out_bytes());
    }

    let handle = handle_slot;
    let spin_detected = handle.as_ref().map(|h| h.with(|s| s.spin_detected)).unwrap_or(false);
    let (out, read_polls, maxp, delivered, dropped) = match &handle {
        Some(h) => (
            h.out_bytes(),
            h.with(|s| s.read_polls),
            h.with(|s| s.max_read_polls_without_progress),
            h.with(|s| s.bytes_delivered),
            h.dropped(),
        ),
        None => (vec![], 0, 0, 0, false),
    };

    let mut final_stores = BTreeMap::new();
    let mut poisoned = false;
    for (u, r) in &refs {
        match r.lock() {
            Ok(g) => {
                final_stores.insert(*u, g.store.clone());
            }
            Err(p) => {
                poisoned = true;
                final_stores.insert(*u, p.into_inner().store.clone());
            }
        }
    }
    let log = log.lock().unwrap().clone();

    match result {
        Err(panic) => ServerObs {
            out,
            log,
            end: None,
            end_is_bad_frame: false,
            end_is_io: false,
            end_is_shutdown: false,
            final_stores,
            panic: Some(panic),
            timed_out: false,
            read_polls,
            max_polls_without_progress: maxp,
            bytes_delivered: delivered,
            io_dropped: dropped,
            poisoned,
            elapsed_virtual: Duration::ZERO,
            spin_detected,
            followup_out,
            followup_panic,
        },
        Ok((res, elapsed)) => {
            let (end, timed_out) = match res {
                Ok(err) => (Some(err), false),
                Err(_) => (None, true),
            };
            ServerObs {
                out,
                log,
                end_is_bad_frame: matches!(end, Some(rodbus::RequestError::BadFrame(_))),
                end_is_io: matches!(end, Some(rodbus::RequestError::Io(_))),
                end_is_shutdown: matches!(end, Some(rodbus::RequestError::Shutdown)),
                end: end.map(|e| format!("{e:?}")),
                final_stores,
                panic: None,
                timed_out,
                read_polls,
                max_polls_without_progress: maxp,
                bytes_delivered: delivered,
                io_dropped: dropped,
                poisoned,
                elapsed_virtual: elapsed,
                spin_detected,
                followup_out,
                followup_panic,
            }
        }
    }
}

/// One request as the reference sees it in the input stream
#[derive(Clone, Debug)]
pub struct InFrame {
    pub tx: u16,
    pub unit: u8,
    pub pdu: Vec<u8>,
}

#[derive(Clone, Debug, PartialEq, Eq)]
pub enum InputEnd {
    Clean,
    /// stream ended inside a frame
    Partial,
    /// malformed header / frame the receiver must reject
    Fatal(&'static str),
}

/// Reference framing of the inbound stream (independent of how it was chunked)
pub fn reference_frames(framing: Framing, stream: &[u8]) -> (Vec<InFrame>, InputEnd) {
    match framing {
        Framing::Mbap => {
            let (frames, end) = mbap_split(stream);
            let frames = frames
                .into_iter()
                .map(|f| InFrame {
                    tx: f.tx,
                    unit: f.unit,
                    pdu: f.pdu,
                })
                .collect();
            let end = match end {
                StreamEnd::Exhausted { leftover: 0 } => InputEnd::Clean,
                StreamEnd::Exhausted { .. } => InputEnd::Partial,
                StreamEnd::Fatal { why, .. } => InputEnd::Fatal(why),
            };
            (frames, end)
        }
        Framing::Rtu => {
            let mut frames = vec![];
            let mut pos = 0;
            loop {
                if pos == stream.len() {
                    return (frames, InputEnd::Clean);
                }
                match rtu_receive(RtuDir::Request, &stream[pos..]) {
                    RtuRx::NeedMore => return (frames, InputEnd::Partial),
                    RtuRx::Reject(why) => return (frames, InputEnd::Fatal(why)),
                    RtuRx::Frame { unit, pdu, len } => {
                        frames.push(InFrame { tx: 0, unit, pdu });
                        pos += len;
                    }
                }
            }
        }
    }
}

pub fn frame_reply(framing: Framing, tx: u16, unit: u8, pdu: &[u8]) -> Vec<u8> {
    match framing {
        Framing::Mbap => mbap_frame(tx, unit, pdu),
        Framing::Rtu => rtu_frame(unit, pdu),
    }
}

#[derive(Clone, Debug)]
pub struct Discrepancy {
    /// "reply" | "extra_output" | "calls" | "store" | "panic" | "wedge" | "end" | "poison"
    pub facet: &'static str,
    pub sig: String,
    pub what: String,
}

#[derive(Clone, Debug, Default)]
pub struct CompareStats {
    pub requests: u64,
    pub replies_compared: u64,
    pub bytes_compared: u64,
    pub dont_care_taken: u64,
    pub handler_calls: u64,
    pub invalid_with_zero_calls: u64,
    pub classes: Vec<String>,
    pub emitted_frames: Vec<Vec<u8>>,
}

fn parse_class(pdu: &[u8]) -> String {
    match parse_request(pdu) {
        Parsed::Empty => "empty".into(),
        Parsed::Unsupported(fc) => format!("unsupported_fc{:#04x}", fc),
        Parsed::Invalid(k, why) => format!("invalid_{}_{}", k.name(), why),
        Parsed::Valid(r) => format!("valid_{}", r.kind().name()),
        Parsed::ValidOrInvalid(r) => format!("bytecount_mismatch_{}", r.kind().name()),
    }
}

/// parse class without the per-function-code detail of unsupported codes
fn pclass_short(p: &str) -> String {
    if p.starts_with("unsupported_fc") {
        "unsupported_fc".to_string()
    } else {
        p.to_string()
    }
}

fn qty_class(pdu: &[u8]) -> String {
    // quantity field, if the PDU has one, reported exactly for signatures
    if pdu.len() >= 5 {
        let q = ((pdu[3] as u16) << 8) | pdu[4] as u16;
        format!("{q}")
    } else {
        "-".into()
    }
}

fn unit_class(framing: Framing, unit: u8, configured: bool) -> &'static str {
    if framing == Framing::Rtu && unit == 0 {
        "broadcast"
    } else if configured {
        "configured"
    } else {
        "unconfigured"
    }
}

/// Compare an observed server execution with the reference server.
pub fn compare_server(case: &ServerCase, obs: &ServerObs) -> (Vec<Discrepancy>, CompareStats) {
    compare_server_opt(case, obs, false)
}

/// `calls_from_input`: derive the expected handler calls from the input alone (first
/// alternative) so that the call log and state are checked even when replies disagree.
pub fn compare_server_opt(
    case: &ServerCase,
    obs: &ServerObs,
    calls_from_input: bool,
) -> (Vec<Discrepancy>, CompareStats) {
    let mut d = vec![];
    let mut st = CompareStats::default();

    if let Some(p) = &obs.panic {
        d.push(Discrepancy {
            facet: "panic",
            sig: format!("server_panic:{}", crate::util::panic_site(p)),
            what: format!("server session panicked: {p}"),
        });
        return (d, st);
    }
    if obs.timed_out {
        d.push(Discrepancy {
            facet: "wedge",
            sig: "server_session_never_ended".into(),
            what: "session still running 24 virtual hours after the script ended".into(),
        });
    }
    if obs.poisoned {
        d.push(Discrepancy {
            facet: "poison",
            sig: "handler_mutex_poisoned".into(),
            what: "a handler mutex was left poisoned".into(),
        });
    }

    let stream = input_stream(&case.script);
    let (frames, in_end) = reference_frames(case.framing, &stream);
    let mut model = ServerModel::new(case.framing, case.stores.clone(), case.policy.clone());
    let mut expects: Vec<Expect> = vec![];
    let mut cursor = 0usize;
    let out = &obs.out;
    let mut aborted = false;
    let mut out_misaligned = false;

    // a shutdown / handle drop may legitimately end the session before all input is consumed:
    // then the output must be a prefix-consistent answer to the first k requests
    let early_end_allowed = case
        .commands
        .iter()
        .any(|(_, c)| matches!(c, Cmd::Shutdown | Cmd::DropHandle));

    for (k, f) in frames.iter().enumerate() {
        st.requests += 1;
        let alts = model.alternatives(f.unit, &f.pdu);
        let configured = case.stores.contains_key(&f.unit);
        let pclass = parse_class(&f.pdu);
        let uclass = unit_class(case.framing, f.unit, configured);
        let mut chosen: Option<usize> = None;
        for (i, a) in alts.iter().enumerate() {
            match &a.reply {
                None => {
                    chosen = Some(i);
                    break;
                }
                Some(pdu) => {
                    let bytes = frame_reply(case.framing, f.tx, f.unit, pdu);
                    if out.len() >= cursor + bytes.len() && out[cursor..cursor + bytes.len()] == bytes[..]
                    {
                        chosen = Some(i);
                        break;
                    }
                }
            }
        }
        // a request that must be met with silence: was it answered anyway?
        if let Some(i) = chosen {
            if alts[i].reply.is_none() && cursor < out.len() {
                let rest = &out[cursor..];
                let answered = match case.framing {
                    // transaction ids are unique per session in our generators
                    Framing::Mbap => {
                        rest.len() >= 8
                            && rest[0] == (f.tx >> 8) as u8
                            && rest[1] == (f.tx & 0xFF) as u8
                            && rest[6] == f.unit
                    }
                    // silence on RTU is always a property of the unit id (unconfigured or
                    // broadcast), so any frame carrying that unit id is an answer to it
                    // (not when an authorization policy can veto: then silence also depends on
                    // the policy and attribution is left to the stream comparison)
                    Framing::Rtu => {
                        case.policy.is_none()
                            && rest.len() >= 2
                            && rest[0] == f.unit
                            && !f.pdu.is_empty()
                            && (rest[1] & 0x7F) == (f.pdu[0] & 0x7F)
                    }
                };
                if answered {
                    d.push(Discrepancy {
                        facet: "reply",
                        sig: format!(
                            "answered_but_must_be_silent:{}:{}:unit={}:why={}:got={}",
                            case.framing.name(),
                            pclass_short(&pclass),
                            uclass,
                            alts[i].class,
                            classify_reply(case.framing, rest)
                        ),
                        what: format!(
                            "request #{k} unit={} pdu={} must not be answered ({}), but the server sent {}",
                            f.unit,
                            hex(&f.pdu[..f.pdu.len().min(16)]),
                            alts[i].class,
                            hex(&rest[..rest.len().min(16)])
                        ),
                    });
                    if !calls_from_input {
                        aborted = true;
                        break;
                    }
                    out_misaligned = true;
                }
            }
        }
        if out_misaligned {
            // replies can no longer be attributed; keep deriving expected calls from the input
            let a = &alts[0];
            expects.extend(a.expect.iter().cloned());
            model.commit(a);
            continue;
        }
        match chosen {
            Some(i) => {
                let a = &alts[i];
                if i > 0 {
                    st.dont_care_taken += 1;
                }
                if let Some(pdu) = &a.reply {
                    let bytes = frame_reply(case.framing, f.tx, f.unit, pdu);
                    cursor += bytes.len();
                    st.replies_compared += 1;
                    st.bytes_compared += bytes.len() as u64;
                    st.emitted_frames.push(bytes);
                }
                if a.expect.iter().all(|e| matches!(e, Expect::Exactly(Call::Auth { .. }))) {
                    st.invalid_with_zero_calls += 1;
                }
                st.classes.push(format!(
                    "{}|{}|{}|{}",
                    case.framing.name(),
                    pclass,
                    a.class,
                    uclass
                ));
                expects.extend(a.expect.iter().cloned());
                model.commit(a);
            }
            None => {
                if early_end_allowed && cursor == out.len() {
                    // the session was told to stop: remaining requests unanswered is fine
                    aborted = true;
                    break;
                }
                let rest = &out[cursor..out.len().min(cursor + 24)];
                let want: Vec<String> = alts
                    .iter()
                    .map(|a| match &a.reply {
                        None => "silence".to_string(),
                        Some(p) => hex(&frame_reply(case.framing, f.tx, f.unit, p)),
                    })
                    .collect();
                let got_kind = if cursor >= out.len() {
                    "nothing".to_string()
                } else {
                    classify_reply(case.framing, &out[cursor..])
                };
                d.push(Discrepancy {
                    facet: "reply",
                    sig: format!(
                        "reply:{}:{}:qty={}:unit={}:want={}:got={}",
                        case.framing.name(),
                        pclass,
                        if pclass.contains("write_multiple") || pclass.ends_with("limit") {
                            qty_class(&f.pdu)
                        } else {
                            "-".to_string()
                        },
                        uclass,
                        alts.iter().map(|a| a.class).collect::<Vec<_>>().join("/"),
                        got_kind
                    ),
                    what: format!(
                        "request #{k} unit={} pdu={} : expected {} but next output bytes are {}{}",
                        f.unit,
                        hex(&f.pdu[..f.pdu.len().min(16)]),
                        want.join(" | "),
                        hex(rest),
                        if cursor >= out.len() { " (no more output)" } else { "" }
                    ),
                });
                if calls_from_input {
                    out_misaligned = true;
                    let a = &alts[0];
                    expects.extend(a.expect.iter().cloned());
                    model.commit(a);
                    continue;
                }
                aborted = true;
                break;
            }
        }
    }

    if !aborted && !out_misaligned && cursor != out.len() {
        // more output than the reference produces: something that must be silent was answered
        let rest = &out[cursor..];
        // attribute the extra reply to a request if possible (first silent request)
        d.push(Discrepancy {
            facet: "extra_output",
            sig: format!(
                "extra_output:{}:{}",
                case.framing.name(),
                classify_reply(case.framing, rest)
            ),
            what: format!(
                "{} unexpected output byte(s) after all expected replies: {}",
                rest.len(),
                hex(&rest[..rest.len().min(24)])
            ),
        });
        aborted = true;
    }

    st.handler_calls = obs.log.len() as u64;

    if !aborted {
        if let Err(e) = match_calls(&expects, &obs.log) {
            d.push(Discrepancy {
                facet: "calls",
                sig: format!("calls:{}:{}", case.framing.name(), e.sig),
                what: e.what,
            });
        } else {
            // stores must agree
            for (u, s) in &model.units {
                if let Some(real) = obs.final_stores.get(u) {
                    if real != s {
                        d.push(Discrepancy {
                            facet: "store",
                            sig: format!("store:{}:unit_state_differs", case.framing.name()),
                            what: format!(
                                "application state of unit {u} differs from the reference after the session"
                            ),
                        });
                    }
                }
            }
        }
    } else if !d.is_empty() {
        // still useful: calls caused by input that must have no effect
    }

    // session end
    if !obs.timed_out && d.is_empty() && !early_end_allowed {
        match in_end {
            InputEnd::Fatal(why) => {
                if !obs.end_is_bad_frame {
                    d.push(Discrepancy {
                        facet: "end",
                        sig: format!("end:{}:fatal_{}_not_framing_error", case.framing.name(), why),
                        what: format!(
                            "input ends with a malformed frame ({why}) but the session ended with {:?}",
                            obs.end
                        ),
                    });
                }
            }
            InputEnd::Clean | InputEnd::Partial => {
                if !obs.end_is_io {
                    d.push(Discrepancy {
                        facet: "end",
                        sig: format!("end:{}:eof_not_io_error", case.framing.name()),
                        what: format!(
                            "input ended (EOF / read error) but the session ended with {:?}",
                            obs.end
                        ),
                    });
                }
            }
        }
    }

    (d, st)
}

fn calls_sig(e: &str) -> String {
    // keep the structural part of the message, drop numbers
    let mut s = String::new();
    for ch in e.chars() {
        if ch.is_ascii_digit() {
            if !s.ends_with('N') {
                s.push('N');
            }
        } else if ch == ' ' {
            s.push('_');
        } else {
            s.push(ch);
        }
    }
    s.truncate(120);
    s
}

/// coarse description of the next frame in an output stream
pub fn classify_reply(framing: Framing, bytes: &[u8]) -> String {
    let pdu: &[u8] = match framing {
        Framing::Mbap => {
            if bytes.len() < 8 {
                return "short".into();
            }
            &bytes[7..]
        }
        Framing::Rtu => {
            if bytes.len() < 2 {
                return "short".into();
            }
            &bytes[1..]
        }
    };
    if pdu.is_empty() {
        return "short".into();
    }
    if pdu[0] & 0x80 != 0 {
        format!(
            "exception{:#04x}_for_fc{:#04x}",
            pdu.get(1).copied().unwrap_or(0),
            pdu[0] & 0x7f
        )
    } else {
        format!("normal_fc{:#04x}", pdu[0])
    }
}
