#![allow(dead_code)]

use vsim::checks::server_props::Which;
use vsim::{checks, util};
use vcommon::report::{parse_args, EXIT_INCONCLUSIVE};

fn main() {
    let args = parse_args();
    util::install_panic_hook();
    util::install_tracing_sink();
    if !vcommon::model::crc_self_check() {
        eprintln!("reference CRC self-check failed");
        std::process::exit(EXIT_INCONCLUSIVE);
    }
    let code = match args.check.as_str() {
        "c01" => checks::server_props::run(Which::C01, &args),
        "c02" => checks::server_props::run(Which::C02, &args),
        "c03" => checks::c03::run(&args),
        "c04" => checks::c04::run(&args),
        "c05" => checks::c05::run(&args),
        "c06" => checks::c06::run(&args),
        "c07" | "c07-worker" | "c07-artifact" => checks::c07::run(&args),
        "c08" => checks::server_props::run(Which::C08, &args),
        "c10" => checks::c10::run(&args),
        "c11" => checks::c11::run(&args),
        "c12" => checks::c12::run(&args),
        "c17" => checks::server_props::run(Which::C17, &args),
        "c20" => checks::c20::run(&args),
        other => {
            eprintln!("unknown check {other}");
            EXIT_INCONCLUSIVE
        }
    };
    std::process::exit(code);
}
