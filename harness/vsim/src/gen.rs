//! Grammar-aware generators for request PDUs, unit maps and read partitions.

use crate::io::In;
use std::collections::BTreeMap;
use std::time::Duration;
use vcommon::model::*;
use vcommon::rng::Rng;

pub const UNIT_POOL: [u8; 8] = [1, 2, 17, 100, 247, 248, 255, 0];

pub fn gen_stores(rng: &mut Rng, seed: u64, framing: Framing, max_units: usize) -> BTreeMap<u8, Store> {
    let n = rng.usize_below(max_units + 1);
    let mut m = BTreeMap::new();
    while m.len() < n {
        let mut u = *rng.pick(&UNIT_POOL);
        if rng.chance(1, 5) {
            u = rng.u8();
        }
        if framing == Framing::Rtu && u == 0 {
            continue; // unit 0 is the broadcast address on serial links
        }
        let density = *rng.pick(&[0u64, 0, 1, 2, 8]);
        m.insert(u, Store::new(seed ^ rng.next_u64(), u, density));
    }
    m
}

pub fn gen_unit(rng: &mut Rng, stores: &BTreeMap<u8, Store>, framing: Framing) -> u8 {
    let keys: Vec<u8> = stores.keys().copied().collect();
    let r = rng.below(100);
    if !keys.is_empty() && r < 62 {
        return *rng.pick(&keys);
    }
    if r < 74 {
        return 0; // broadcast on RTU, ordinary (usually unconfigured) id on TCP
    }
    if r < 80 {
        return 255;
    }
    if r < 90 {
        return *rng.pick(&UNIT_POOL);
    }
    let _ = framing;
    rng.u8()
}

fn start_for(rng: &mut Rng, qty: u32) -> u16 {
    let max_start = 65536u32.saturating_sub(qty.max(1));
    let c = [0u32, 1, max_start / 2, max_start.saturating_sub(1), max_start];
    if rng.chance(1, 4) {
        rng.below(max_start as u64 + 1) as u16
    } else {
        (*rng.pick(&c)).min(max_start) as u16
    }
}

fn qty_lattice(rng: &mut Rng, limit: u32) -> u32 {
    let c = [1u32, 2, 7, 8, 9, 15, 16, 17, limit - 1, limit];
    if rng.chance(1, 4) {
        rng.range(1, limit as u64) as u32
    } else {
        (*rng.pick(&c)).clamp(1, limit)
    }
}

fn body_read(start: u16, qty: u16) -> Vec<u8> {
    let mut v = start.to_be_bytes().to_vec();
    v.extend_from_slice(&qty.to_be_bytes());
    v
}

/// A request PDU and a coarse tag describing what the generator intended
pub fn gen_pdu(rng: &mut Rng, framing: Framing, negative_bias: u64) -> (Vec<u8>, &'static str) {
    let rtu = framing == Framing::Rtu;
    // negative_bias in 0..=100: probability of steering towards the invalid space
    let negative = rng.below(100) < negative_bias;
    let cat = rng.below(if rtu { 8 } else { 11 });
    match cat {
        // reads
        0 | 1 | 2 | 3 => {
            let kind = [Kind::ReadCoils, Kind::ReadDiscrete, Kind::ReadHolding, Kind::ReadInput]
                [cat as usize];
            let limit = kind.limit();
            if !negative {
                let qty = qty_lattice(rng, limit);
                let start = start_for(rng, qty);
                let mut pdu = vec![kind.fc()];
                pdu.extend(body_read(start, qty as u16));
                (pdu, "read_valid")
            } else {
                let mut pdu = vec![kind.fc()];
                match rng.below(if rtu { 4 } else { 6 }) {
                    0 => {
                        pdu.extend(body_read(rng.u16(), 0));
                        (pdu, "read_qty0")
                    }
                    1 => {
                        let q = *rng.pick(&[limit + 1, limit + 2, 0x7FFF, 0xFFFF, 0x8000]);
                        pdu.extend(body_read(if rng.chance(1, 2) { 0 } else { rng.u16() }, q as u16));
                        (pdu, "read_over_limit")
                    }
                    2 => {
                        let qty = qty_lattice(rng, limit).max(2);
                        let start = 65536 - qty + 1 + rng.below(qty as u64 - 1) as u32;
                        pdu.extend(body_read(start.min(65535) as u16, qty as u16));
                        (pdu, "read_overflow")
                    }
                    3 => {
                        // exactly at the end of the address space (valid)
                        let qty = qty_lattice(rng, limit);
                        pdu.extend(body_read((65536 - qty) as u16, qty as u16));
                        (pdu, "read_valid_at_end")
                    }
                    4 => {
                        let n = *rng.pick(&[0usize, 1, 2, 3, 5, 6, 8]);
                        pdu.extend(rng.bytes(n));
                        (pdu, "read_wrong_length")
                    }
                    _ => {
                        let qty = qty_lattice(rng, limit);
                        pdu.extend(body_read(start_for(rng, qty), qty as u16));
                        let k = 1 + rng.usize_below(4);
                        pdu.extend(rng.bytes(k));
                        (pdu, "read_trailing")
                    }
                }
            }
        }
        4 => {
            let mut pdu = vec![5u8];
            pdu.extend_from_slice(&rng.u16().to_be_bytes());
            if !negative {
                pdu.extend_from_slice(if rng.chance(1, 2) { &[0xFF, 0x00] } else { &[0, 0] });
                (pdu, "wsc_valid")
            } else if rtu || rng.chance(2, 3) {
                let v = *rng.pick(&[0x00FFu16, 0xFF01, 0x0001, 0xFFFF, 0xFE00, 0x0100]);
                pdu.extend_from_slice(&v.to_be_bytes());
                (pdu, "wsc_bad_value")
            } else {
                let k = *rng.pick(&[0usize, 1, 3, 4]);
                pdu.extend(rng.bytes(k));
                (pdu, "wsc_wrong_length")
            }
        }
        5 => {
            let mut pdu = vec![6u8];
            pdu.extend_from_slice(&rng.u16().to_be_bytes());
            if !negative || rtu {
                pdu.extend_from_slice(&rng.u16().to_be_bytes());
                (pdu, "wsr_valid")
            } else {
                let k = *rng.pick(&[0usize, 1, 3, 4]);
                pdu.extend(rng.bytes(k));
                (pdu, "wsr_wrong_length")
            }
        }
        6 => {
            // write multiple coils
            let mut pdu = vec![15u8];
            if !negative {
                let qty = qty_lattice(rng, 1968);
                let start = start_for(rng, qty);
                let nbytes = (qty as usize).div_ceil(8);
                pdu.extend(body_read(start, qty as u16));
                pdu.push(nbytes as u8);
                pdu.extend(rng.bytes(nbytes));
                (pdu, "wmc_valid")
            } else {
                match rng.below(if rtu { 4 } else { 6 }) {
                    0 => {
                        // beyond the protocol limit but still fits a frame
                        let qty = rng.range(1969, 1976) as u32;
                        pdu.extend(body_read(start_for(rng, qty), qty as u16));
                        pdu.push(247);
                        pdu.extend(rng.bytes(247));
                        (pdu, "wmc_over_limit_fits")
                    }
                    1 => {
                        let qty = *rng.pick(&[0u32, 1977, 2000, 0xFFFF]);
                        let nbytes = rng.usize_below(4);
                        pdu.extend(body_read(rng.u16(), qty as u16));
                        pdu.push(nbytes as u8);
                        pdu.extend(rng.bytes(nbytes));
                        (pdu, "wmc_bad_qty")
                    }
                    2 => {
                        // data length inconsistent with quantity
                        let qty = qty_lattice(rng, 1968);
                        let need = (qty as usize).div_ceil(8);
                        let n = if need > 1 && rng.chance(1, 2) { need - 1 } else { (need + 1).min(247) };
                        pdu.extend(body_read(start_for(rng, qty), qty as u16));
                        pdu.push(n as u8);
                        pdu.extend(rng.bytes(n));
                        (pdu, "wmc_datalen")
                    }
                    3 => {
                        let qty = qty_lattice(rng, 1968).max(2);
                        let start = 65536 - qty + 1;
                        let nbytes = (qty as usize).div_ceil(8);
                        pdu.extend(body_read(start as u16, qty as u16));
                        pdu.push(nbytes as u8);
                        pdu.extend(rng.bytes(nbytes));
                        (pdu, "wmc_overflow")
                    }
                    4 => {
                        // byte-count field lies, data is exact (MBAP only)
                        let qty = qty_lattice(rng, 1968);
                        let nbytes = (qty as usize).div_ceil(8);
                        pdu.extend(body_read(start_for(rng, qty), qty as u16));
                        pdu.push((nbytes as u8).wrapping_add(1 + rng.u8() % 3));
                        pdu.extend(rng.bytes(nbytes));
                        (pdu, "wmc_bytecount_field")
                    }
                    _ => {
                        let k = rng.usize_below(5);
                        pdu.extend(rng.bytes(k));
                        (pdu, "wmc_truncated")
                    }
                }
            }
        }
        7 => {
            let mut pdu = vec![16u8];
            if !negative {
                let qty = qty_lattice(rng, 123);
                pdu.extend(body_read(start_for(rng, qty), qty as u16));
                pdu.push((2 * qty) as u8);
                pdu.extend(rng.bytes(2 * qty as usize));
                (pdu, "wmr_valid")
            } else {
                match rng.below(if rtu { 3 } else { 5 }) {
                    0 => {
                        let qty = *rng.pick(&[0u32, 124, 125, 126, 0xFFFF]);
                        let n = *rng.pick(&[0usize, 2, 246]);
                        pdu.extend(body_read(rng.u16(), qty as u16));
                        pdu.push(n as u8);
                        pdu.extend(rng.bytes(n));
                        (pdu, "wmr_bad_qty")
                    }
                    1 => {
                        let qty = qty_lattice(rng, 123);
                        let need = 2 * qty as usize;
                        let n = match rng.below(3) {
                            0 => need - 1,
                            1 => (need + 1).min(246),
                            _ => need.saturating_sub(2),
                        };
                        pdu.extend(body_read(start_for(rng, qty), qty as u16));
                        pdu.push(n as u8);
                        pdu.extend(rng.bytes(n));
                        (pdu, "wmr_datalen")
                    }
                    2 => {
                        let qty = qty_lattice(rng, 123).max(2);
                        let start = 65536 - qty + 1;
                        pdu.extend(body_read(start as u16, qty as u16));
                        pdu.push((2 * qty) as u8);
                        pdu.extend(rng.bytes(2 * qty as usize));
                        (pdu, "wmr_overflow")
                    }
                    3 => {
                        let qty = qty_lattice(rng, 123);
                        pdu.extend(body_read(start_for(rng, qty), qty as u16));
                        pdu.push(((2 * qty) as u8).wrapping_add(1 + rng.u8() % 3));
                        pdu.extend(rng.bytes(2 * qty as usize));
                        (pdu, "wmr_bytecount_field")
                    }
                    _ => {
                        let k = rng.usize_below(5);
                        pdu.extend(rng.bytes(k));
                        (pdu, "wmr_truncated")
                    }
                }
            }
        }
        // MBAP only below
        8 => {
            // unsupported function code, random body
            let fc = loop {
                let f = rng.u8();
                if Kind::from_fc(f).is_none() {
                    break f;
                }
            };
            let n = if rng.chance(1, 2) { rng.usize_below(8) } else { rng.usize_below(253) };
            let mut pdu = vec![fc];
            pdu.extend(rng.bytes(n));
            (pdu, "unsupported_fc")
        }
        9 => {
            // any (function byte, length) pair with random content
            let n = rng.usize_below(253);
            let mut pdu = vec![rng.u8()];
            if rng.chance(1, 2) {
                pdu[0] = *rng.pick(&[1u8, 2, 3, 4, 5, 6, 15, 16]);
            }
            pdu.extend(rng.bytes(n));
            (pdu, "fc_len_grid")
        }
        _ => (vec![], "empty_pdu"),
    }
}

/// the pdu for (fc, len) cell of the exhaustive grid
pub fn grid_pdu(rng: &mut Rng, fc: u8, len: usize) -> Vec<u8> {
    let mut pdu = vec![fc];
    let mut body = rng.bytes(len);
    // bias the quantity field towards plausible values half of the time so that deep
    // branches are reached, not only "wrong length"
    if len >= 4 && rng.chance(1, 2) {
        let q = rng.range(0, 2100) as u16;
        body[2] = (q >> 8) as u8;
        body[3] = q as u8;
    }
    pdu.append(&mut body);
    pdu
}

#[derive(Copy, Clone, Debug, PartialEq, Eq)]
pub enum PartStyle {
    Whole,
    OneByte,
    Random,
    PerFrame,
    HeaderBody,
    BufferEdge,
    Bursts,
}

pub const ALL_STYLES: [PartStyle; 7] = [
    PartStyle::Whole,
    PartStyle::OneByte,
    PartStyle::Random,
    PartStyle::PerFrame,
    PartStyle::HeaderBody,
    PartStyle::BufferEdge,
    PartStyle::Bursts,
];

/// Cut `stream` into read chunks. `boundaries` are the frame end offsets (used by the
/// frame-aware styles). Delays of `delay` are inserted between chunks when non-zero.
pub fn partition(
    rng: &mut Rng,
    stream: &[u8],
    boundaries: &[usize],
    style: PartStyle,
    delay: Option<Duration>,
) -> Vec<In> {
    let mut cuts: Vec<usize> = vec![];
    let n = stream.len();
    match style {
        PartStyle::Whole => {}
        PartStyle::OneByte => cuts.extend(1..n),
        PartStyle::Random => {
            let mut p = 0;
            while p < n {
                let step = match rng.below(4) {
                    0 => 1 + rng.usize_below(3),
                    1 => 1 + rng.usize_below(12),
                    2 => 1 + rng.usize_below(300),
                    _ => 1 + rng.usize_below(64),
                };
                p += step;
                if p < n {
                    cuts.push(p);
                }
            }
        }
        PartStyle::PerFrame => cuts.extend(boundaries.iter().copied().filter(|b| *b < n)),
        PartStyle::HeaderBody => {
            let mut prev = 0;
            for b in boundaries {
                let len = b - prev;
                if len > 1 {
                    cuts.push(prev + 1 + rng.usize_below(len - 1));
                }
                if *b < n {
                    cuts.push(*b);
                }
                prev = *b;
            }
        }
        PartStyle::BufferEdge => {
            // reads that end exactly at / one before / one after multiples of the 260 byte buffer
            let mut p = 0usize;
            while p < n {
                let target = *rng.pick(&[259usize, 260, 261, 130, 253, 267, 7, 8]);
                p += target;
                if p < n {
                    cuts.push(p);
                }
            }
        }
        PartStyle::Bursts => {
            let mut p = 0usize;
            while p < n {
                p += 260 + rng.usize_below(800);
                if p < n {
                    cuts.push(p);
                }
            }
        }
    }
    cuts.sort_unstable();
    cuts.dedup();
    let mut out = vec![];
    let mut prev = 0;
    for c in cuts.into_iter().chain(std::iter::once(n)) {
        if c > prev {
            out.push(In::Chunk(stream[prev..c].to_vec()));
            if let Some(d) = delay {
                out.push(In::Delay(d));
            }
            prev = c;
        }
    }
    out
}

/// number of read polls a partition would take ~ its chunk count
pub fn chunk_sizes(script: &[In]) -> Vec<usize> {
    script
        .iter()
        .filter_map(|i| match i {
            In::Chunk(c) => Some(c.len()),
            _ => None,
        })
        .collect()
}
