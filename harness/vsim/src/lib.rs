#![allow(dead_code)]
pub mod checks;
pub mod client_run;
pub mod gen;
pub mod handlers;
pub mod io;
pub mod server_run;
pub mod util;
