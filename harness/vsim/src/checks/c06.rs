//! C06: RTU frames are emitted with a correct CRC and accepted only if the CRC verifies.

use crate::client_run::*;
use crate::gen::*;
use crate::io::{sim_io, In, Seq};
use crate::server_run::*;
use crate::util::{decode_level, parallel};
use serde_json::json;
use std::collections::BTreeMap;
use std::sync::{Arc, Mutex};
use std::time::{Duration, Instant};
use vcommon::model::*;
use vcommon::report::*;
use vcommon::rng::Rng;

const UNIT: u8 = 0x2A;

fn base_requests() -> Vec<(String, Vec<u8>)> {
    let mut v = vec![];
    for (name, pdu) in [
        ("read_coils", vec![1u8, 0x00, 0x10, 0x00, 0x13]),
        ("read_discrete", vec![2, 0x00, 0x10, 0x00, 0x13]),
        ("read_holding", vec![3, 0x00, 0x10, 0x00, 0x03]),
        ("read_input", vec![4, 0x00, 0x10, 0x00, 0x03]),
        ("write_single_coil", vec![5, 0x00, 0x10, 0xFF, 0x00]),
        ("write_single_reg", vec![6, 0x00, 0x10, 0x12, 0x34]),
        ("write_multi_coils_10", vec![15, 0x00, 0x10, 0x00, 0x0A, 0x02, 0x12, 0x03]),
        ("write_multi_regs_2", vec![16, 0x00, 0x10, 0x00, 0x02, 0x04, 0x12, 0x34, 0x56, 0x78]),
    ] {
        v.push((name.to_string(), rtu_frame(UNIT, &pdu)));
    }
    // addresses in the reserved range 248..=255 (255 is the library's default unit id)
    v.push(("read_holding_unit248".to_string(), rtu_frame(248, &[3, 0x00, 0x10, 0x00, 0x03])));
    v.push(("write_single_reg_unit255".to_string(), rtu_frame(255, &[6, 0x00, 0x10, 0x12, 0x34])));
    // bigger ones
    let mut p = vec![16u8, 0x01, 0x00, 0x00, 0x10, 0x20];
    p.extend((0..32u8).map(|x| x.wrapping_mul(7)));
    v.push(("write_multi_regs_16".into(), rtu_frame(UNIT, &p)));
    let mut p = vec![15u8, 0x00, 0x00, 0x00, 0x40, 0x08];
    p.extend((0..8u8).map(|x| x.wrapping_mul(37) ^ 0x5A));
    v.push(("write_multi_coils_64".into(), rtu_frame(UNIT, &p)));
    // the largest frames the protocol allows (255 bytes): the byte count that delimits them is > 0x7F
    let mut p = vec![16u8, 0x00, 0x20, 0x00, 123, 246];
    p.extend((0..246usize).map(|x| (x as u8).wrapping_mul(29) ^ 0xC3));
    v.push(("write_multi_regs_123".into(), rtu_frame(UNIT, &p)));
    let mut p = vec![15u8, 0x00, 0x20, 0x07, 0xB0, 246];
    p.extend((0..246usize).map(|x| (x as u8).wrapping_mul(53) ^ 0x3C));
    v.push(("write_multi_coils_1968".into(), rtu_frame(UNIT, &p)));
    v
}

/// (name, request, response frame)
fn base_responses() -> Vec<(String, ClientReq, Vec<u8>)> {
    let mut v = vec![];
    let reqs = vec![
        ClientReq::Read { kind: Kind::ReadCoils, start: 0x10, count: 19 },
        ClientReq::Read { kind: Kind::ReadDiscrete, start: 0x10, count: 8 },
        ClientReq::Read { kind: Kind::ReadHolding, start: 0x10, count: 3 },
        ClientReq::Read { kind: Kind::ReadInput, start: 0x10, count: 1 },
        ClientReq::WriteSingleCoil { addr: 0x10, value: true },
        ClientReq::WriteSingleReg { addr: 0x10, value: 0x1234 },
        ClientReq::WriteMultiCoils { start: 0x10, values: vec![true; 10] },
        ClientReq::WriteMultiRegs { start: 0x10, values: vec![1, 2] },
        ClientReq::Read { kind: Kind::ReadHolding, start: 0, count: 20 },
        // the largest responses (255 bytes)
        ClientReq::Read { kind: Kind::ReadHolding, start: 0x20, count: 125 },
        ClientReq::Read { kind: Kind::ReadCoils, start: 0x20, count: 2000 },
    ];
    for (unit, r) in [(248u8, ClientReq::Read { kind: Kind::ReadHolding, start: 0x10, count: 3 }), (255, ClientReq::WriteSingleReg { addr: 0x10, value: 0x1234 })] {
        v.push((format!("resp_{}_unit{unit}", r.kind().name()), r.clone(), rtu_frame(unit, &genuine_reply(&r, 77))));
        v.push((format!("exc_{}_unit{unit}", r.kind().name()), r.clone(), rtu_frame(unit, &[r.kind().fc() | 0x80, 0x02])));
    }
    // exception replies with other codes than 02 (a flipped bit may turn one code into another)
    for (code, r) in [(0x01u8, ClientReq::Read { kind: Kind::ReadCoils, start: 0x10, count: 19 }), (0x03, ClientReq::WriteSingleReg { addr: 0x10, value: 0x1234 }), (0x04, ClientReq::Read { kind: Kind::ReadInput, start: 0x10, count: 1 }), (0x0B, ClientReq::WriteMultiRegs { start: 0x10, values: vec![1, 2] })] {
        v.push((format!("exc{code:02x}_{}", r.kind().name()), r.clone(), rtu_frame(UNIT, &[r.kind().fc() | 0x80, code])));
    }
    for r in reqs {
        let pdu = genuine_reply(&r, 77);
        let count = match &r {
            ClientReq::Read { count, .. } => *count,
            _ => 0,
        };
        v.push((format!("resp_{}{}", r.kind().name(), if count >= 125 { "_max" } else if count == 20 { "_20" } else { "" }), r.clone(), rtu_frame(UNIT, &pdu)));
        if count >= 20 {
            continue;
        }
        // exception response
        v.push((
            format!("exc_{}", r.kind().name()),
            r.clone(),
            rtu_frame(UNIT, &[r.kind().fc() | 0x80, 0x02]),
        ));
    }
    v
}

#[derive(Clone, Debug)]
enum Corruption {
    Bits(Vec<usize>),
    /// replace only the CRC trailer: (which byte 0/1, xor value)
    CrcByte(usize, u8),
}

fn apply(frame: &[u8], c: &Corruption) -> Vec<u8> {
    let mut f = frame.to_vec();
    match c {
        Corruption::Bits(bits) => {
            for b in bits {
                f[b / 8] ^= 1 << (b % 8);
            }
        }
        Corruption::CrcByte(which, x) => {
            let n = f.len();
            f[n - 2 + which] ^= *x;
        }
    }
    f
}

fn class_of(c: &Corruption) -> String {
    match c {
        Corruption::Bits(b) if b.len() == 1 => "1bit".into(),
        Corruption::Bits(b) if b.len() == 2 && b[1] - b[0] > 15 => "2bit".into(),
        Corruption::Bits(b) => format!("burst{}", b.last().unwrap() - b[0] + 1),
        Corruption::CrcByte(..) => "crc_byte".into(),
    }
}

/// enumerate corruptions for a frame. `full` = exhaustive for the classes the property names.
fn corruptions(frame: &[u8], full: bool, rng: &mut Rng, budget: usize) -> Vec<Corruption> {
    let nbits = frame.len() * 8;
    let mut v = vec![];
    // all single-bit flips
    for i in 0..nbits {
        v.push(Corruption::Bits(vec![i]));
    }
    // double-bit flips: all for short frames, sampled otherwise
    if frame.len() <= 16 || (full && frame.len() <= 80) {
        for i in 0..nbits {
            for j in (i + 1)..nbits {
                v.push(Corruption::Bits(vec![i, j]));
            }
        }
    } else {
        for _ in 0..budget {
            let i = rng.usize_below(nbits - 1);
            let j = i + 1 + rng.usize_below(nbits - i - 1);
            v.push(Corruption::Bits(vec![i, j]));
        }
    }
    // bursts of length 2..=16: first and last bit flipped, every interior pattern
    for len in 2..=16usize {
        if len > nbits {
            break;
        }
        let interior = len - 2;
        let patterns: u32 = 1 << interior;
        let offsets = nbits - len + 1;
        let total = patterns as usize * offsets;
        let exhaustive_here = full && frame.len() <= 8 || total <= budget;
        if exhaustive_here {
            for off in 0..offsets {
                for pat in 0..patterns {
                    let mut bits = vec![off];
                    for k in 0..interior {
                        if pat & (1 << k) != 0 {
                            bits.push(off + 1 + k);
                        }
                    }
                    bits.push(off + len - 1);
                    v.push(Corruption::Bits(bits));
                }
            }
        } else {
            for _ in 0..budget {
                let off = rng.usize_below(offsets);
                let pat = rng.below(patterns as u64) as u32;
                let mut bits = vec![off];
                for k in 0..interior {
                    if pat & (1 << k) != 0 {
                        bits.push(off + 1 + k);
                    }
                }
                bits.push(off + len - 1);
                v.push(Corruption::Bits(bits));
            }
        }
    }
    // CRC-byte-only corruption
    for which in 0..2 {
        for x in 1..=255u8 {
            v.push(Corruption::CrcByte(which, x));
        }
    }
    v
}

fn chunking(bytes: &[u8], mode: usize, rng: &mut Rng) -> Vec<In> {
    match mode % 3 {
        0 => vec![In::Chunk(bytes.to_vec())],
        1 => bytes.iter().map(|b| In::Chunk(vec![*b])).collect(),
        _ => partition(rng, bytes, &[], PartStyle::Random, None),
    }
}

fn server_one(name: &str, frame: &[u8], c: &Corruption, idx: usize, seed: u64, ev: &mut Evidence) {
    let bad = apply(frame, c);
    let mut rng = Rng::sub(seed, 106, idx as u64);
    let mut stores = BTreeMap::new();
    let unit = frame[0];
    stores.insert(unit, Store::new(99, unit, 0));
    // the corrupted unit id may address another unit: configure that one too so that a
    // wrongly accepted frame would have an observable effect
    if bad[0] != unit && bad[0] != 0 {
        stores.insert(bad[0], Store::new(98, bad[0], 0));
    }
    let sentinel = rtu_frame(unit, &[3, 0, 1, 0, 1]);
    let mut script = vec![In::Chunk(sentinel)];
    script.extend(chunking(&bad, idx, &mut rng));
    script.push(In::Eof);
    let case = ServerCase {
        framing: Framing::Rtu,
        stores,
        policy: None,
        script,
        decode: ((idx % 4) as u8, (idx % 3) as u8, 0),
        commands: vec![],
    };
    // campaign self-check: a corruption that keeps the derived length must be rejected by the
    // reference receiver (this is the CRC guarantee itself)
    let same_len = rtu_frame_len(RtuDir::Request, &bad) == RtuLen::Total(bad.len());
    let rx = rtu_receive(RtuDir::Request, &bad);
    if same_len && !matches!(rx, RtuRx::Reject(_)) {
        ev.inconclusive(format!("reference CRC accepted a corrupted frame ({name}, {c:?})"));
        return;
    }
    let obs = run_server_case(&case);
    let (disc, st) = compare_server(&case, &obs);
    ev.eval();
    ev.count("server_corruptions_executed", 1);
    ev.count(&format!("corruptions_{}", class_of(c)), 1);
    if !same_len {
        ev.count("length_changing_corruptions", 1);
    }
    ev.class(format!(
        "server|{name}|{}|{}|chunk{}",
        class_of(c),
        match rx {
            RtuRx::Reject(w) => w,
            RtuRx::NeedMore => "needs_more",
            RtuRx::Frame { .. } => "valid_after_corruption",
        },
        idx % 3
    ));
    let _ = st;
    for x in disc {
        ev.violation(
            format!("server:{name}:{}:{}", class_of(c), x.sig),
            format!("corrupted {name} ({c:?}) = {}: {}", hex(&bad), x.what),
            json!({"role": "server", "frame": name, "corruption": format!("{c:?}"), "bytes": hex(&bad), "chunking": idx % 3}),
        );
    }
}

fn client_one(name: &str, req: &ClientReq, frame: &[u8], c: &Corruption, idx: usize, seed: u64, ev: &mut Evidence) {
    let bad = apply(frame, c);
    let rx = rtu_receive(RtuDir::Response, &bad);
    let same_len = rtu_frame_len(RtuDir::Response, &bad) == RtuLen::Total(bad.len());
    if same_len && !matches!(rx, RtuRx::Reject(_)) {
        ev.inconclusive(format!("reference CRC accepted a corrupted frame ({name}, {c:?})"));
        return;
    }
    let expect = match &rx {
        RtuRx::Frame { pdu, .. } => decode_response(req, pdu),
        _ => RespExpect::Error,
    };
    let req2 = req.clone();
    let bad2 = bad.clone();
    let unit = frame[0];
    let result = run_paused(|| async move {
        let seq = Seq::default();
        let (io, handle) = sim_io(vec![], seq.clone());
        let asm = Arc::new(Mutex::new(RequestAssembler::new(Framing::Rtu)));
        let mut rng = Rng::sub(seed, 1106, idx as u64);
        handle.set_responder(Box::new(move |bytes, _| {
            let frames = asm.lock().unwrap().feed(bytes);
            let mut items = vec![];
            for _ in frames {
                items.extend(chunking(&bad2, idx, &mut rng));
            }
            items
        }));
        let (channel, mut sim) = rodbus::verif::client(rodbus::verif::Framing::Rtu, 4, decode_level(((idx % 4) as u8, (idx % 3) as u8, 0)), None);
        let task = tokio::spawn(async move { sim.run_session(Box::new(io)).await });
        channel.enable().await.unwrap();
        let slot = Slot::new(tokio::time::Instant::now(), seq.clone());
        let _ = submit(&channel, ALL_STYLES_API[idx % 3], unit, Duration::from_millis(100), &req2, slot.clone()).await;
        let _ = tokio::time::timeout(Duration::from_secs(5), slot.wait()).await;
        settle().await;
        drop(channel);
        let _ = tokio::time::timeout(Duration::from_secs(60), task).await;
        let c = slot.completions.lock().unwrap().clone();
        c
    });
    ev.eval();
    ev.count("client_corruptions_executed", 1);
    ev.count(&format!("corruptions_{}", class_of(c)), 1);
    if !same_len {
        ev.count("length_changing_corruptions", 1);
    }
    let rep = json!({"role": "client", "frame": name, "corruption": format!("{c:?}"), "bytes": hex(&bad), "chunking": idx % 3});
    match result {
        Err(p) => ev.violation(format!("client_panic:{}", crate::util::panic_site(&p)), format!("client panicked: {p}"), rep),
        Ok(comps) => {
            if comps.len() != 1 {
                ev.violation(format!("client:{name}:completions={}", comps.len()), "request did not complete exactly once".to_string(), rep);
                return;
            }
            match result_matches(&expect, req, &comps[0].res) {
                Ok(_) => ev.class(format!(
                    "client|{name}|{}|{}|chunk{}",
                    class_of(c),
                    comps[0].res.class(),
                    idx % 3
                )),
                Err(why) => ev.violation(
                    format!("client:{name}:{}:accepted_corrupted_response:{}", class_of(c), comps[0].res.class()),
                    format!("corrupted {name} ({c:?}) = {}: {why}, got {:?}", hex(&bad), comps[0].res.class()),
                    rep,
                ),
            }
        }
    }
}

/// Uncorrupted traffic on a USED link: streams of valid frames where every frame is cut at a
/// chosen offset (all offsets are visited across cases). The receive buffer then still holds
/// bytes of earlier frames beyond its end, which a length derivation that peeks too early
/// would pick up. Oracle: reference server on the whole stream + equality with the uncut run.
fn used_link_server(seed: u64, n: u64, ev: &mut Evidence) {
    let mut rng = Rng::sub(seed, 3106, n);
    let mut stores = BTreeMap::new();
    stores.insert(UNIT, Store::new(seed ^ n, UNIT, 0));
    let nframes = 2 + rng.usize_below(8);
    let mut frames: Vec<Vec<u8>> = vec![];
    for _ in 0..nframes {
        // valid requests only, biased to the variable-length ones and to 0xF8..0xFF bytes
        let pdu = match rng.below(6) {
            0 | 1 => {
                let qty = 1 + rng.below(40) as u16;
                let nb = (qty as usize).div_ceil(8);
                let mut p = vec![15u8, rng.u8(), rng.u8() / 2, 0, qty as u8, nb as u8];
                p.extend((0..nb).map(|_| if rng.chance(1, 2) { 0xFF } else { rng.u8() }));
                p
            }
            2 | 3 => {
                let qty = 1 + rng.below(20) as u16;
                let mut p = vec![16u8, rng.u8(), rng.u8() / 2, 0, qty as u8, (2 * qty) as u8];
                p.extend((0..2 * qty).map(|_| if rng.chance(1, 2) { 0xFF } else { rng.u8() }));
                p
            }
            4 => vec![6u8, rng.u8(), rng.u8(), 0xFF, 0xFC | (rng.u8() & 3)],
            _ => vec![3u8, rng.u8(), rng.u8() / 2, 0, 1 + rng.u8() % 100],
        };
        frames.push(rtu_frame(UNIT, &pdu));
    }
    let stream: Vec<u8> = frames.concat();
    let mut cut_script = vec![];
    for (i, f) in frames.iter().enumerate() {
        let c = 1 + ((n as usize + i * 3) % (f.len() - 1));
        cut_script.push(In::Chunk(f[..c].to_vec()));
        cut_script.push(In::Chunk(f[c..].to_vec()));
        ev.set("cut_offsets", c.to_string());
    }
    cut_script.push(In::Eof);
    let mk = |script: Vec<In>| ServerCase { framing: Framing::Rtu, stores: stores.clone(), policy: None, script, decode: ((n % 4) as u8, (n % 3) as u8, 0), commands: vec![] };
    let whole = mk(vec![In::Chunk(stream.clone()), In::Eof]);
    let cut = mk(cut_script);
    let o1 = run_server_case(&whole);
    let o2 = run_server_case(&cut);
    ev.eval();
    ev.count("used_link_streams", 1);
    ev.count("used_link_frames", nframes as u64);
    for (case, obs, how) in [(&whole, &o1, "whole"), (&cut, &o2, "cut_inside_every_frame")] {
        let (disc, _) = compare_server(case, obs);
        for x in disc {
            ev.violation(
                format!("used_link:server:{how}:{}", x.sig),
                format!("stream of {nframes} valid RTU requests delivered {how}: {}", x.what),
                json!({"n": n, "stream": hex(&stream), "how": how}),
            );
        }
    }
    if o1.out != o2.out || o1.log != o2.log {
        ev.violation("used_link:server:partition_dependence", "the same valid RTU byte stream gave different results when each frame was cut in two".to_string(), json!({"n": n, "stream": hex(&stream)}));
    }
    ev.class("server|used_link|valid_frames_cut_at_every_offset");
}

/// client side of the same idea: consecutive requests on one session, each genuine response
/// cut at a chosen offset
fn used_link_client(seed: u64, n: u64, ev: &mut Evidence) {
    let mut rng = Rng::sub(seed, 4106, n);
    let nreq = 2 + rng.usize_below(6);
    let reqs: Vec<ClientReq> = (0..nreq)
        .map(|_| match rng.below(5) {
            0 => ClientReq::WriteSingleReg { addr: 0xFC00 | rng.u16() % 1024, value: 0xFFFF },
            1 => ClientReq::WriteMultiRegs { start: 0xFD00 | (rng.u16() % 200), values: vec![0xFFFF; 1 + rng.usize_below(5)] },
            2 => ClientReq::Read { kind: Kind::ReadCoils, start: rng.u16() / 2, count: 1 + rng.below(200) as u16 },
            _ => ClientReq::Read { kind: Kind::ReadHolding, start: rng.u16() / 2, count: 1 + rng.below(60) as u16 },
        })
        .collect();
    let fill = rng.next_u64() | 0xFFFF_0000_FFFF_0000;
    let reqs2 = reqs.clone();
    let result = run_paused(|| async move {
        let seq = Seq::default();
        let (io, handle) = sim_io(vec![], seq.clone());
        let st = Arc::new(Mutex::new((RequestAssembler::new(Framing::Rtu), 0usize)));
        let r3 = reqs2.clone();
        handle.set_responder(Box::new(move |bytes, _| {
            let mut g = st.lock().unwrap();
            let frames = g.0.feed(bytes);
            let mut items = vec![];
            for f in frames {
                let k = g.1;
                g.1 += 1;
                let Some(r) = r3.get(k) else { continue };
                let bytes = rtu_frame(f[0], &genuine_reply(r, fill ^ k as u64));
                let c = 1 + ((n as usize + k * 5) % (bytes.len() - 1));
                items.push(In::Chunk(bytes[..c].to_vec()));
                items.push(In::Chunk(bytes[c..].to_vec()));
            }
            items
        }));
        let (channel, mut sim) = rodbus::verif::client(rodbus::verif::Framing::Rtu, 4, decode_level((0, 0, 0)), None);
        let task = tokio::spawn(async move { sim.run_session(Box::new(io)).await });
        channel.enable().await.unwrap();
        let start = tokio::time::Instant::now();
        let mut res = vec![];
        for r in &reqs2 {
            let slot = Slot::new(start, seq.clone());
            let _ = submit(&channel, Style::Callback, UNIT, Duration::from_millis(200), r, slot.clone()).await;
            let _ = tokio::time::timeout(Duration::from_secs(5), slot.wait()).await;
            settle().await;
            res.push(slot.first().map(|c| c.res));
        }
        drop(channel);
        let _ = tokio::time::timeout(Duration::from_secs(60), task).await;
        res
    });
    ev.eval();
    ev.count("used_link_client_sessions", 1);
    match result {
        Err(p) => ev.violation(format!("client_panic:{}", crate::util::panic_site(&p)), format!("client panicked: {p}"), json!({"n": n})),
        Ok(res) => {
            for (k, (r, got)) in reqs.iter().zip(res.iter()).enumerate() {
                let want = decode_response(r, &genuine_reply(r, fill ^ k as u64));
                match got {
                    Some(g) => {
                        if let Err(why) = result_matches(&want, r, g) {
                            ev.violation(
                                format!("used_link:client:valid_response_refused:{}:{}", r.kind().name(), g.class()),
                                format!("request #{k} {} on a used serial session, genuine response cut in two: {why}, got {}", r.describe(), g.class()),
                                json!({"n": n, "k": k}),
                            );
                            break;
                        }
                        ev.count("used_link_client_responses", 1);
                    }
                    None => {
                        ev.violation("used_link:client:no_completion".to_string(), format!("request #{k} never completed"), json!({"n": n}));
                        break;
                    }
                }
            }
        }
    }
    ev.class("client|used_link|valid_responses_cut_at_every_offset");
}

/// emission monitor: every RTU frame produced by server and client sessions
fn emission(seed: u64, n: u64, ev: &mut Evidence) {
    // server side: C01-style RTU sessions
    let mut found = None;
    for j in 0..16 {
        let g = crate::checks::server_props::gen_case(crate::checks::server_props::Which::C01, seed ^ 0x66, n * 16 + j);
        if g.case.framing == Framing::Rtu {
            found = Some(g);
            break;
        }
    }
    let Some(g) = found else { return };
    let obs = run_server_case(&g.case);
    ev.eval();
    let mut pos = 0;
    let out = &obs.out;
    while pos < out.len() {
        match rtu_receive(RtuDir::Response, &out[pos..]) {
            RtuRx::Frame { len, .. } => {
                ev.count("emitted_frames_crc_checked", 1);
                ev.max("emitted_frame_len", len as u64);
                if len > 256 {
                    ev.violation("emission:server:frame_longer_than_256", format!("server emitted a {len}-byte RTU frame"), json!({"n": n}));
                }
                pos += len;
            }
            other => {
                ev.violation(
                    format!("emission:server:{}", match other { RtuRx::Reject(w) => w, _ => "truncated" }),
                    format!("server output at offset {pos} is not a CRC-valid RTU response frame: {}", hex(&out[pos..out.len().min(pos + 24)])),
                    json!({"n": n, "case": crate::checks::server_props::case_json(&g.case)}),
                );
                break;
            }
        }
    }
    ev.class("emission|server");
}

pub fn run(args: &Args) -> i32 {
    let started = Instant::now();
    let seed = args.seed;
    let full = args.tier == Tier::Thorough;
    let budget = args.tier.pick(1500usize, 20000);
    let mut rng = Rng::sub(seed, 2106, 0);

    // work list
    enum Work {
        S(String, Vec<u8>, Corruption),
        C(String, ClientReq, Vec<u8>, Corruption),
    }
    let mut work: Vec<Work> = vec![];
    let mut enumerated: BTreeMap<String, usize> = BTreeMap::new();
    for (name, frame) in base_requests() {
        let cs = corruptions(&frame, full, &mut rng, budget);
        enumerated.insert(format!("server:{name}"), cs.len());
        for c in cs {
            work.push(Work::S(name.clone(), frame.clone(), c));
        }
    }
    for (name, req, frame) in base_responses() {
        // the 8-byte frames get the full treatment in thorough; here keep the client side
        // lighter (each case needs a whole client session)
        let cs = corruptions(&frame, false, &mut rng, if full { budget / 4 } else { budget / 3 });
        enumerated.insert(format!("client:{name}"), cs.len());
        for c in cs {
            work.push(Work::C(name.clone(), req.clone(), frame.clone(), c));
        }
    }
    if let Some(path) = &args.replay {
        let doc: serde_json::Value =
            serde_json::from_str(&std::fs::read_to_string(path).unwrap_or_default()).unwrap_or(json!({}));
        println!("replay of C06 cases: re-run the check; case = {}", doc["case"]);
    }
    let work = Arc::new(work);
    let w2 = work.clone();
    let mut ev = Evidence::new();
    for p in parallel(args.jobs, work.len() as u64, Evidence::new, move |i, ev| match &w2[i as usize] {
        Work::S(name, frame, c) => server_one(name, frame, c, i as usize, seed, ev),
        Work::C(name, req, frame, c) => client_one(name, req, frame, c, i as usize, seed, ev),
    }) {
        ev.merge(p);
    }
    // partition independence of the length derivation on the uncorrupted frames
    for (name, frame) in base_requests() {
        let mut recs = vec![];
        for mode in 0..3 {
            let mut stores = BTreeMap::new();
            stores.insert(UNIT, Store::new(99, UNIT, 0));
            let mut two = frame.clone();
            two.extend_from_slice(&frame);
            let mut script = chunking(&two, mode, &mut rng);
            script.push(In::Eof);
            let case = ServerCase { framing: Framing::Rtu, stores, policy: None, script, decode: (3, 2, 2), commands: vec![] };
            let obs = run_server_case(&case);
            let (disc, _) = compare_server(&case, &obs);
            ev.eval();
            for x in disc {
                ev.violation(format!("server:clean:{name}:chunk{mode}:{}", x.sig), x.what, json!({"frame": name, "mode": mode}));
            }
            recs.push((obs.out, obs.log));
        }
        if recs[0] != recs[1] || recs[1] != recs[2] {
            ev.violation(format!("server:clean:{name}:partition_dependence"), "same RTU bytes, different behaviour under different chunkings".to_string(), json!({"frame": name}));
        }
        ev.class(format!("server|{name}|clean|3_chunkings"));
    }
    let ul = args.tier.pick(60_000u64, 2_000_000);
    for p in parallel(args.jobs, ul, Evidence::new, |n, ev| {
        if n % 3 == 2 {
            used_link_client(seed, n / 3, ev)
        } else {
            used_link_server(seed, n - n / 3, ev)
        }
    }) {
        ev.merge(p);
    }
    let em = args.tier.pick(3_000u64, 100_000);
    for p in parallel(args.jobs, em, Evidence::new, |n, ev| emission(seed, n, ev)) {
        ev.merge(p);
    }
    // black box: the real RTU server task on a pseudo terminal (net engine)
    {
        let exe = std::env::current_exe().ok().and_then(|p| p.parent().map(|d| d.join("vnet")));
        let out = verif_root().join("out").join(format!("c06pty-{}.json", std::process::id()));
        let _ = std::fs::create_dir_all(verif_root().join("out"));
        match exe {
            Some(exe) if exe.exists() => {
                let st = std::process::Command::new(&exe)
                    .args(["c06pty", "--tier", args.tier.name(), "--seed", &(args.seed as i64).to_string(), "--out"])
                    .arg(&out)
                    .stdout(std::process::Stdio::null())
                    .status();
                match (st, std::fs::read_to_string(&out).ok().and_then(|t| serde_json::from_str::<serde_json::Value>(&t).ok())) {
                    (Ok(s), Some(v)) if s.success() => ev.merge(Evidence::from_json(&v)),
                    _ => ev.count("pty_leg_not_run", 1),
                }
                let _ = std::fs::remove_file(&out);
            }
            _ => ev.count("pty_leg_not_run", 1),
        }
    }
    ev.sample(json!({"corruptions_enumerated_per_base_frame": enumerated}));
    ev.sample(json!({"base_request_frames": base_requests().iter().map(|(n, f)| json!({"name": n, "hex": hex(f)})).collect::<Vec<_>>()}));

    let meta = Meta {
        property_id: "C06",
        level: "fault_enumeration",
        rule: format!("one evaluation = one session receiving one corrupted RTU frame (after a sentinel). Base frames: 14 request frames (server role) and 30 response / exception-response frames (client role; exception codes 01, 02, 03, 04, 0B), among them the 255-byte maxima (123 registers / 1968 coils written, 125 registers / 2000 coils read). Corruptions per frame: ALL single-bit flips; ALL double-bit flips for frames <= 16 bytes{}; bursts of length 2..16 (first and last bit flipped, every interior pattern) at every bit offset{}; all 510 CRC-byte-only corruptions; delivered whole / byte-per-byte / randomly chunked. Oracle: independent reference receiver (function-derived length + bitwise CRC) decides accept/reject, then reference server / reference decoder. Emission: every RTU frame emitted by generated server sessions is re-parsed and CRC-checked. distinct = (role, base frame, corruption class, reference verdict, chunking)", if full { " (and up to 80 bytes; sampled for the 255-byte frames)" } else { ", sampled for longer ones" }, if full { ", exhaustive for the 8-byte request frames" } else { ", sampled" }),
        assumptions: vec![
            "CRC reference: bitwise CRC-16/MODBUS self-checked against published vectors at start-up".into(),
            "behaviour after a rejected frame on the same session is unspecified; each corrupted frame gets its own session".into(),
        ],
        exhaustive: Some(false),
        floors: vec![
            ("server_corruptions_executed".into(), args.tier.pick(150_000, 5_000_000)),
            ("client_corruptions_executed".into(), args.tier.pick(100_000, 800_000)),
            ("emitted_frames_crc_checked".into(), args.tier.pick(5_000, 200_000)),
            ("used_link_frames".into(), args.tier.pick(100_000, 3_000_000)),
            ("used_link_client_responses".into(), args.tier.pick(30_000, 1_000_000)),
        ],
        min_classes: 100,
    };
    finish(args, meta, ev, started)
}
