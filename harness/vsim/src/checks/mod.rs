pub mod server_props;
