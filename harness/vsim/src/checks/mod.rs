pub mod c03;
pub mod c04;
pub mod c11;
pub mod c12;
pub mod server_props;
