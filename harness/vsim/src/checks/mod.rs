pub mod c03;
pub mod c04;
pub mod c05;
pub mod c06;
pub mod c07;
pub mod c11;
pub mod c12;
pub mod server_props;
