//! C07: no peer input can panic, wedge or silently kill a task.
//!
//! Workers run in child processes so that a non-yielding loop (which no in-process monitor can
//! interrupt) is caught by a wall-clock watchdog; such a case is re-run alone twice with a
//! 10x budget before it is reported.

use crate::client_run::*;
use crate::gen::*;
use crate::io::{sim_io, In, Seq};
use crate::server_run::*;
use crate::util::decode_level;
use serde_json::json;
use std::collections::BTreeMap;
use std::sync::{Arc, Mutex};
use std::time::{Duration, Instant};
use vcommon::model::*;
use vcommon::report::*;
use vcommon::rng::Rng;

fn valid_traffic(rng: &mut Rng, framing: Framing, server_side: bool, tx0: u16) -> Vec<Vec<u8>> {
    let n = 1 + rng.usize_below(5);
    let mut frames = vec![];
    for i in 0..n {
        let pdu = if server_side {
            loop {
                let (p, _) = gen_pdu(rng, framing, 15);
                if !p.is_empty() {
                    break p;
                }
            }
        } else {
            // a plausible reply
            let req = match rng.below(4) {
                0 => ClientReq::Read { kind: Kind::ReadCoils, start: 0, count: 1 + rng.below(64) as u16 },
                1 => ClientReq::Read { kind: Kind::ReadHolding, start: 0, count: 1 + rng.below(20) as u16 },
                2 => ClientReq::WriteSingleReg { addr: 1, value: 2 },
                _ => ClientReq::WriteMultiRegs { start: 0, values: vec![1, 2, 3] },
            };
            if rng.chance(1, 5) {
                vec![req.kind().fc() | 0x80, rng.u8()]
            } else {
                genuine_reply(&req, rng.next_u64())
            }
        };
        let unit = *rng.pick(&[1u8, 1, 1, 0, 255, 7]);
        frames.push(match framing {
            Framing::Mbap => mbap_frame(tx0.wrapping_add(i as u16), unit, &pdu),
            Framing::Rtu => rtu_frame(unit, &pdu),
        });
    }
    frames
}

fn fix_crc(frame: &mut Vec<u8>) {
    if frame.len() >= 3 {
        let n = frame.len();
        let crc = crc16(&frame[..n - 2]);
        frame[n - 2] = (crc & 0xFF) as u8;
        frame[n - 1] = (crc >> 8) as u8;
    }
}

/// grammar-aware mutation of valid traffic, or raw random bytes
pub fn hostile_stream(rng: &mut Rng, framing: Framing, server_side: bool, tx0: u16) -> (Vec<u8>, &'static str) {
    if rng.chance(1, 6) {
        let cap = if rng.chance(1, 4) { 2000 } else { 64 };
        let n = 1 + rng.usize_below(cap);
        return (rng.bytes(n), "random");
    }
    let mut frames = valid_traffic(rng, framing, server_side, tx0);
    let tag;
    let k = rng.usize_below(frames.len());
    match rng.below(9) {
        0 => {
            // header / length field lies
            let f = &mut frames[k];
            match framing {
                Framing::Mbap => {
                    let v = *rng.pick(&[0u16, 1, 2, 253, 254, 255, 256, 260, 0x7FFF, 0xFFFF]);
                    f[4] = (v >> 8) as u8;
                    f[5] = v as u8;
                    if rng.chance(1, 4) {
                        f[2] = rng.u8();
                        f[3] = rng.u8();
                    }
                }
                Framing::Rtu => {
                    // byte count / function code lies, CRC optionally repaired
                    let i = 1 + rng.usize_below((f.len() - 1).min(7));
                    f[i] = *rng.pick(&[0u8, 1, 0x7F, 0x80, 0xF9, 0xFA, 0xFB, 0xFF]);
                    if rng.chance(1, 2) {
                        fix_crc(f);
                    }
                }
            }
            tag = "length_field_lies";
        }
        1 => {
            // field-boundary values in the PDU
            let f = &mut frames[k];
            let hdr = if framing == Framing::Mbap { 7 } else { 1 };
            if f.len() > hdr + 2 {
                let i = hdr + 1 + rng.usize_below((f.len() - hdr - 1).min(6));
                f[i] = *rng.pick(&[0u8, 1, 0x7B, 0x7C, 0x7D, 0x7E, 0xB0, 0xB1, 0xD0, 0xD1, 0xFF]);
                if i + 1 < f.len() && rng.chance(1, 2) {
                    f[i + 1] = *rng.pick(&[0u8, 1, 0x7D, 0x7E, 0xB0, 0xB1, 0xD0, 0xD1, 0xFF]);
                }
                if framing == Framing::Rtu && rng.chance(2, 3) {
                    fix_crc(f);
                }
            }
            tag = "field_boundaries";
        }
        2 => {
            let f = &mut frames[k];
            let n = rng.usize_below(f.len());
            f.truncate(n);
            tag = "truncation";
        }
        3 => {
            // splice: prefix of one frame + suffix of another
            let a = frames[k].clone();
            let b = frames[rng.usize_below(frames.len())].clone();
            let i = rng.usize_below(a.len() + 1);
            let j = rng.usize_below(b.len() + 1);
            let mut s = a[..i].to_vec();
            s.extend_from_slice(&b[j..]);
            frames[k] = s;
            tag = "splice";
        }
        4 => {
            let f = &mut frames[k];
            for _ in 0..(1 + rng.usize_below(8)) {
                if f.is_empty() {
                    break;
                }
                let i = rng.usize_below(f.len());
                f[i] ^= 1 << rng.below(8);
            }
            tag = "bit_flips";
        }
        5 => {
            let f = &mut frames[k];
            let i = rng.usize_below(f.len() + 1);
            let n = 1 + rng.usize_below(300);
            let ins = rng.bytes(n);
            let tail = f.split_off(i);
            f.extend(ins);
            f.extend(tail);
            tag = "insertion";
        }
        6 => {
            // a maximal frame followed by garbage that pretends to be a header
            let mut f = match framing {
                Framing::Mbap => {
                    let mut pdu = vec![*rng.pick(&[1u8, 3, 15, 16, 0x2B])];
                    pdu.extend(rng.bytes(252));
                    mbap_frame(tx0, 1, &pdu)
                }
                Framing::Rtu => {
                    let mut pdu = vec![16u8, 0, 0, 0, 123, 246];
                    pdu.extend(rng.bytes(246));
                    rtu_frame(1, &pdu)
                }
            };
            f.extend(rng.bytes(7));
            frames[k] = f;
            tag = "max_frame_then_garbage";
        }
        7 => {
            // repeat a frame many times (buffer wrap-around)
            let f = frames[k].clone();
            let times = 2 + rng.usize_below(40);
            let mut s = vec![];
            for _ in 0..times {
                s.extend_from_slice(&f);
            }
            frames[k] = s;
            tag = "repetition";
        }
        _ => {
            // unknown function codes with well-formed framing
            let f = &mut frames[k];
            let i = if framing == Framing::Mbap { 7 } else { 1 };
            if f.len() > i {
                f[i] = rng.u8();
                if framing == Framing::Rtu {
                    fix_crc(f);
                }
            }
            tag = "function_code";
        }
    }
    (frames.concat(), tag)
}

fn sentinel_script(framing: Framing) -> (Vec<In>, Vec<u8>) {
    let pdu = [3u8, 0, 9, 0, 1];
    match framing {
        Framing::Mbap => (
            vec![In::Chunk(mbap_frame(0x7777, 1, &pdu)), In::Eof],
            vec![0x77, 0x77, 0, 0, 0, 5, 1, 3, 2],
        ),
        Framing::Rtu => (vec![In::Chunk(rtu_frame(1, &pdu)), In::Eof], vec![1, 3, 2]),
    }
}

/// A peer that never stops talking: thousands of valid back-to-back requests are readable at once,
/// and the session is told to stop (shutdown command or dropped handle) right when they start. The
/// session must stop while the traffic continues, not after it has drained the peer.
fn server_busy_peer_case(seed: u64, n: u64, ev: &mut Evidence) {
    let mut rng = Rng::sub(seed, 1070, n);
    let framing = if n % 2 == 0 { Framing::Mbap } else { Framing::Rtu };
    let level = (n / 2) % 36;
    let decode = ((level % 4) as u8, ((level / 4) % 3) as u8, ((level / 12) % 3) as u8);
    // what the backlog consists of: requests that are answered, requests to a unit that is not
    // configured (read, dropped, no reply: the session never writes), or both alternating
    let kind = (n / 72) % 3;
    // a session that never writes gives way only when the transport's cooperative budget is used up
    // (64 reads of up to 256 bytes here, 128 operations in tokio): the backlog must be several
    // times that, or "read most of it" says nothing
    let frames = if kind == 0 { 3000usize } else { 16_000 };
    let mut rest = vec![];
    for k in 0..frames {
        let pdu = [3u8, 0, (k % 50) as u8, 0, 1 + (k % 3) as u8];
        let unit = match kind {
            0 => 1u8,
            1 => 9,
            _ => [1u8, 9][k % 2],
        };
        rest.extend(match framing {
            Framing::Mbap => mbap_frame(k as u16, unit, &pdu),
            Framing::Rtu => rtu_frame(unit, &pdu),
        });
    }
    let frame_len = rest.len() / frames;
    let first = match framing {
        Framing::Mbap => mbap_frame(0xFFFF, 1, &[3, 0, 0, 0, 1]),
        Framing::Rtu => rtu_frame(1, &[3, 0, 0, 0, 1]),
    };
    let drop_handle = rng.chance(1, 2);
    let mut stores = BTreeMap::new();
    stores.insert(1u8, Store::new(seed ^ n, 1, 0));
    let case = ServerCase {
        framing,
        stores,
        policy: None,
        script: vec![In::Chunk(first), In::Delay(Duration::from_millis(1)), In::Chunk(rest), In::Eof],
        decode,
        commands: vec![(Duration::from_millis(1), if drop_handle { Cmd::DropHandle } else { Cmd::Shutdown })],
    };
    let obs = run_server_case(&case);
    ev.eval();
    ev.count("server_inputs", 1);
    ev.count("busy_peer_sessions", 1);
    // count the replies: every one is a read-holding-registers response with a byte count
    let answered = {
        let (mut i, mut k) = (0usize, 0usize);
        let hdr = if framing == Framing::Mbap { 7 } else { 1 };
        let trailer = if framing == Framing::Mbap { 0 } else { 2 };
        while i + hdr + 2 <= obs.out.len() {
            let bc = obs.out[i + hdr + 1] as usize;
            i += hdr + 2 + bc + trailer;
            k += 1;
        }
        k
    };
    ev.max("busy_peer_requests_answered_after_stop_command", answered as u64);
    let consumed = obs.bytes_delivered as usize / frame_len;
    ev.max("busy_peer_requests_read_after_stop_command", consumed as u64);
    let kind_name = ["answered", "unanswered", "alternating"][kind as usize];
    let rep = json!({"n": n, "role": "server", "tag": "busy_peer", "backlog": kind_name, "framing": framing.name(), "stop": if drop_handle { "handle_drop" } else { "shutdown" }});
    if let Some(p) = &obs.panic {
        ev.violation(format!("server_panic:{}", crate::util::panic_site(p)), format!("server session panicked with a busy peer: {p}"), rep);
        return;
    }
    ev.class(format!("server|{}|decode{}|busy_peer|{}|{}", framing.name(), level, kind_name, if obs.end_is_shutdown { "shutdown" } else { "other" }));
    // with a fair loop the stop is seen within a few hundred requests; draining half of the backlog
    // first means it is only seen when the peer pauses
    if !obs.end_is_shutdown || answered > frames / 2 || consumed > frames / 2 {
        ev.violation(
            format!("server_ignores_{}_while_peer_keeps_sending:{}:{kind_name}", if drop_handle { "handle_drop" } else { "shutdown" }, framing.name()),
            format!("{} was issued when a backlog of {frames} requests ({kind_name}) became readable; the session read {consumed} and answered {answered} of them and ended with {:?}", if drop_handle { "handle drop" } else { "shutdown" }, obs.end),
            rep,
        );
    }
}

/// A peer that sends requests and never reads the replies: the session blocks in a reply write. It
/// must still end when it is told to (shutdown command, dropped handle = eviction or server shutdown).
fn server_deaf_peer_case(seed: u64, n: u64, ev: &mut Evidence) {
    let mut rng = Rng::sub(seed, 1071, n);
    let framing = if n % 2 == 0 { Framing::Mbap } else { Framing::Rtu };
    let level = (n / 2) % 36;
    let decode = ((level % 4) as u8, ((level / 4) % 3) as u8, ((level / 12) % 3) as u8);
    let pdu: Vec<u8> = match rng.below(3) {
        0 => vec![3, 0, 0, 0, 125],
        1 => vec![1, 0, 0, 0, 9],
        _ => vec![3, 0, 0, 0, 0], // zero quantity, answered with an exception: the other write site
    };
    let frame = match framing {
        Framing::Mbap => mbap_frame(7, 1, &pdu),
        Framing::Rtu => rtu_frame(1, &pdu),
    };
    let drop_handle = rng.chance(1, 2);
    let mut stores = BTreeMap::new();
    stores.insert(1u8, Store::new(seed ^ n, 1, 0));
    let mut commands = vec![];
    if rng.chance(1, 2) {
        commands.push((Duration::from_millis(2), Cmd::Decode(3, 2, 2)));
    }
    commands.push((Duration::from_millis(5), if drop_handle { Cmd::DropHandle } else { Cmd::Shutdown }));
    let case = ServerCase {
        framing,
        stores,
        policy: None,
        // no EOF: the peer stays connected, it just does not read
        script: vec![In::Chunk(frame)],
        decode,
        commands,
    };
    let obs = crate::server_run::run_server_case_io(&case, None, Some((crate::server_run::WRITE_BLOCKED, Duration::ZERO)));
    ev.eval();
    ev.count("server_inputs", 1);
    ev.count("deaf_peer_sessions", 1);
    let rep = json!({"n": n, "role": "server", "tag": "deaf_peer", "framing": framing.name(), "stop": if drop_handle { "handle_drop" } else { "shutdown" }, "pdu": hex(&pdu)});
    if let Some(p) = &obs.panic {
        ev.violation(format!("server_panic:{}", crate::util::panic_site(p)), format!("server session panicked with a peer that does not read: {p}"), rep);
        return;
    }
    ev.class(format!("server|{}|decode{}|deaf_peer|{}", framing.name(), level, if obs.end_is_shutdown { "shutdown" } else if obs.timed_out { "never_ended" } else { "other" }));
    if obs.timed_out || !obs.end_is_shutdown {
        ev.violation(
            format!("server_ignores_{}_while_blocked_in_a_reply_write:{}", if drop_handle { "handle_drop" } else { "shutdown" }, framing.name()),
            format!("the peer sent a request and never read the reply; {} was issued 5 ms later; the session ended with {:?} (virtual-time watchdog fired: {})", if drop_handle { "handle drop" } else { "shutdown" }, obs.end, obs.timed_out),
            rep,
        );
    }
}

pub fn server_case(seed: u64, n: u64, ev: &mut Evidence) {
    if n % 997 == 5 {
        return server_busy_peer_case(seed, n, ev);
    }
    if n % 499 == 7 {
        return server_deaf_peer_case(seed, n, ev);
    }
    let mut rng = Rng::sub(seed, 107, n);
    let framing = if n % 2 == 0 { Framing::Mbap } else { Framing::Rtu };
    let level = (n / 2) % 36;
    let decode = ((level % 4) as u8, ((level / 4) % 3) as u8, ((level / 12) % 3) as u8);
    let tx0 = rng.u16();
    let (stream, tag) = hostile_stream(&mut rng, framing, true, tx0);
    let style = *rng.pick(&ALL_STYLES);
    let delay = if rng.chance(1, 4) { Some(Duration::from_millis(1)) } else { None };
    let mut script = partition(&mut rng, &stream, &[], style, delay);
    let end_mode = rng.below(3);
    let mut commands = vec![];
    match end_mode {
        0 => script.push(In::Eof),
        1 => commands.push((Duration::from_secs(100), Cmd::Shutdown)),
        _ => commands.push((Duration::from_secs(100), Cmd::DropHandle)),
    }
    let mut stores = BTreeMap::new();
    stores.insert(1u8, Store::new(seed ^ n, 1, *rng.pick(&[0u64, 2])));
    if rng.chance(1, 3) {
        stores.insert(7u8, Store::new(seed ^ n ^ 7, 7, 0));
    }
    let case = ServerCase {
        framing,
        stores,
        policy: if rng.chance(1, 6) { Some(crate::checks::server_props::gen_policy(&mut rng)) } else { None },
        script,
        decode,
        commands,
    };
    let (sscript, sprefix) = sentinel_script(framing);
    let obs = run_server_case_with(&case, Some(&Followup { script: sscript }));
    ev.eval();
    ev.count("server_inputs", 1);
    ev.count("bytes_fed", stream.len() as u64);
    let end_class = if obs.panic.is_some() {
        "panic"
    } else if obs.timed_out {
        "never_ended"
    } else if obs.end_is_shutdown {
        "shutdown"
    } else if obs.end_is_bad_frame {
        "bad_frame"
    } else if obs.end_is_io {
        "io"
    } else {
        "other"
    };
    ev.class(format!("server|{}|decode{}|{}|{}", framing.name(), level, end_class, tag));
    ev.set("session_end_reasons", obs.end.clone().unwrap_or_default());
    ev.max("read_polls_without_progress", obs.max_polls_without_progress);
    let rep = json!({"n": n, "role": "server", "tag": tag, "stream_hex": hex(&stream[..stream.len().min(600)]), "stream_len": stream.len(), "case": crate::checks::server_props::case_json(&case)});
    if let Some(p) = &obs.panic {
        ev.violation(
            format!("server_panic:{}", crate::util::panic_site(p)),
            format!("server session panicked on {tag} input: {p}"),
            rep.clone(),
        );
        return;
    }
    if obs.spin_detected {
        ev.violation(
            format!("server_spin:{}:{tag}", framing.name()),
            "the session polled the transport more than 50000 times without consuming input or waiting".to_string(),
            rep.clone(),
        );
    }
    if obs.timed_out {
        ev.violation(
            format!("server_ignores_{}:{}", match end_mode { 0 => "eof", 1 => "shutdown", _ => "handle_drop" }, framing.name()),
            format!("after {tag} input the session did not end on {} within 24 virtual hours", match end_mode { 0 => "EOF", 1 => "the shutdown command", _ => "the handle being dropped" }),
            rep.clone(),
        );
    }
    if obs.poisoned {
        ev.violation("handler_mutex_poisoned", "a handler mutex was poisoned by the session".to_string(), rep.clone());
    }
    if let Some(p) = &obs.followup_panic {
        ev.violation(
            format!("followup_session_panic:{}", crate::util::panic_site(p)),
            format!("a fresh session on the same handlers panicked: {p}"),
            rep.clone(),
        );
    } else if let Some(out) = &obs.followup_out {
        let answered = match framing {
            Framing::Mbap => out.len() >= 8 && out[..2] == sprefix[..2] && out[6] == 1 && out[7] & 0x7F == 3,
            Framing::Rtu => out.len() >= 2 && out[0] == 1 && out[1] & 0x7F == 3,
        };
        if !answered {
            ev.violation(
                format!("followup_session_sentinel_unanswered:{}", framing.name()),
                format!("a fresh session on the same handler map did not answer the sentinel read: got {}", hex(out)),
                rep.clone(),
            );
        } else {
            ev.count("followup_sentinels_answered", 1);
        }
    }
    if n < 4 {
        ev.sample(json!({"role": "server", "framing": framing.name(), "decode": level, "mutation": tag, "stream_hex": hex(&stream[..stream.len().min(48)]), "session_end": obs.end, "ended_by": match end_mode {0 => "eof", 1 => "shutdown", _ => "handle_drop"}}));
    }
}

pub fn client_case(seed: u64, n: u64, ev: &mut Evidence) {
    let mut rng = Rng::sub(seed, 1107, n);
    let framing = if n % 2 == 0 { Framing::Mbap } else { Framing::Rtu };
    let level = (n / 2) % 36;
    let decode = ((level % 4) as u8, ((level / 4) % 3) as u8, ((level / 12) % 3) as u8);
    let nreq = 1 + rng.usize_below(3);
    let seedr = rng.next_u64();
    let style_part = *rng.pick(&ALL_STYLES);
    let idle_garbage = rng.chance(1, 4);
    let mut tags: Vec<&'static str> = vec![];
    // precompute hostile streams per request
    let mut streams = vec![];
    for _ in 0..nreq {
        let (s, t) = hostile_stream(&mut rng, framing, false, 0);
        streams.push(s);
        tags.push(t);
    }
    let tx1 = rng.u16();
    let idle_bytes = if idle_garbage { hostile_stream(&mut rng, framing, false, tx1).0 } else { vec![] };
    // a peer that keeps talking: well-formed frames that never match the outstanding request,
    // spaced closer than the response timeout, for many timeouts in a row
    let flood = framing == Framing::Mbap && rng.chance(1, 8);
    let streams2 = streams.clone();
    let idle2 = idle_bytes.clone();
    let result = run_paused(|| async move {
        let seq = Seq::default();
        let (io, handle) = sim_io(vec![], seq.clone());
        let st = Arc::new(Mutex::new((RequestAssembler::new(framing), 0usize, Rng::new(seedr))));
        handle.set_responder(Box::new(move |bytes, _| {
            let mut g = st.lock().unwrap();
            let frames = g.0.feed(bytes);
            let mut items = vec![];
            for f in frames {
                let k = g.1;
                g.1 += 1;
                let Some(s) = streams2.get(k) else { continue };
                if flood {
                    let tx = ((f[0] as u16) << 8) | f[1] as u16;
                    for j in 0..60u16 {
                        items.push(In::Delay(Duration::from_millis(20)));
                        items.push(In::Chunk(mbap_frame(tx.wrapping_sub(1 + j), f[6], &[3, 2, 0, j as u8])));
                    }
                    continue;
                }
                let mut s = s.clone();
                // half of the time give the hostile bytes the outstanding transaction id
                if framing == Framing::Mbap && s.len() >= 2 && f.len() >= 2 && k % 2 == 0 {
                    s[0] = f[0];
                    s[1] = f[1];
                }
                items.extend(partition(&mut g.2, &s, &[], style_part, None));
            }
            items
        }));
        let (channel, mut sim) = rodbus::verif::client(rframing(framing), 8, decode_level(decode), std::num::NonZeroUsize::new(3));
        let (io2, handle2) = sim_io(vec![], seq.clone());
        // second, sane connection used after the first session ends
        let asm2 = Arc::new(Mutex::new(RequestAssembler::new(framing)));
        handle2.set_responder(Box::new(move |bytes, _| {
            let frames = asm2.lock().unwrap().feed(bytes);
            frames
                .into_iter()
                .map(|f| {
                    In::Chunk(match framing {
                        Framing::Mbap => mbap_frame(((f[0] as u16) << 8) | f[1] as u16, f[6], &[3, 2, 0x12, 0x34]),
                        Framing::Rtu => rtu_frame(f[0], &[3, 2, 0x12, 0x34]),
                    })
                })
                .collect()
        }));
        let task = tokio::spawn(async move {
            let first = sim.run_session(Box::new(io)).await;
            let second = if first != rodbus::verif::SessionEnd::Shutdown {
                Some(sim.run_session(Box::new(io2)).await)
            } else {
                None
            };
            (first, second)
        });
        channel.enable().await.unwrap();
        if !idle2.is_empty() {
            handle.push(vec![In::Chunk(idle2)]);
            settle().await;
        }
        let start = tokio::time::Instant::now();
        let mut slots = vec![];
        for k in 0..nreq {
            let slot = Slot::new(start, seq.clone());
            let req = match k % 3 {
                0 => ClientReq::Read { kind: Kind::ReadHolding, start: 0, count: 3 },
                1 => ClientReq::Read { kind: Kind::ReadCoils, start: 5, count: 17 },
                _ => ClientReq::WriteMultiRegs { start: 0, values: vec![1, 2, 3] },
            };
            let _ = submit(&channel, ALL_STYLES_API[k % 3], 1, Duration::from_millis(50), &req, slot.clone()).await;
            slots.push(slot);
        }
        for s in &slots {
            let _ = tokio::time::timeout(Duration::from_secs(30), s.wait()).await;
        }
        settle().await;
        let all_done_after = start.elapsed();
        // the handle must remain usable: a sentinel request must complete (on the first
        // session if it survived, otherwise on the second connection)
        let sentinel = Slot::new(start, seq.clone());
        let req = ClientReq::Read { kind: Kind::ReadHolding, start: 0, count: 1 };
        // drain whatever hostile bytes are still in flight first
        tokio::time::sleep(Duration::from_secs(1)).await;
        let _ = submit(&channel, Style::Future, 1, Duration::from_millis(50), &req, sentinel.clone()).await;
        let _ = tokio::time::timeout(Duration::from_secs(30), sentinel.wait()).await;
        let sres = sentinel.first().map(|c| c.res);
        let counts: Vec<usize> = slots.iter().map(|s| s.count()).collect();
        let classes: Vec<String> = slots.iter().map(|s| s.first().map(|c| c.res.class()).unwrap_or("pending".into())).collect();
        let spin = handle.with(|s| s.spin_detected);
        channel.shutdown().await.ok();
        let end = tokio::time::timeout(Duration::from_secs(3600), task).await;
        (counts, classes, sres, spin, end.is_ok(), end.ok().and_then(|r| r.ok()), all_done_after)
    });
    ev.eval();
    ev.count("client_inputs", 1);
    ev.count("bytes_fed", streams.iter().map(|s| s.len() as u64).sum::<u64>() + idle_bytes.len() as u64);
    let rep = json!({"n": n, "role": "client", "tags": tags, "streams_hex": streams.iter().map(|s| hex(&s[..s.len().min(300)])).collect::<Vec<_>>(), "idle_hex": hex(&idle_bytes[..idle_bytes.len().min(300)]), "framing": framing.name(), "decode": level});
    match result {
        Err(p) => {
            ev.violation(
                format!("client_panic:{}", crate::util::panic_site(&p)),
                format!("client task panicked on hostile input ({tags:?}): {p}"),
                rep,
            );
        }
        Ok((counts, classes, sres, spin, ended, ends, all_done_after)) => {
            // bounded progress: nreq requests with a 50 ms timeout are all resolved within
            // nreq x (50 ms + margin) of virtual time, whatever the peer keeps sending
            if counts.iter().all(|c| *c == 1) && all_done_after > Duration::from_millis(nreq as u64 * 60 + 20) {
                ev.violation(
                    format!("client_request_outlived_its_timeout:{}", framing.name()),
                    format!("{nreq} request(s) with a 50 ms timeout took {all_done_after:?} of virtual time to resolve while the peer kept sending frames (flood={flood})"),
                    rep.clone(),
                );
            }
            if flood {
                ev.count("client_floods", 1);
            }
            for c in &classes {
                ev.class(format!("client|{}|decode{}|{}|{}", framing.name(), level, c, tags[0]));
            }
            if spin {
                ev.violation(format!("client_spin:{}", framing.name()), "the client polled the transport more than 50000 times without progress".to_string(), rep.clone());
            }
            for (k, c) in counts.iter().enumerate() {
                if *c != 1 {
                    ev.violation(
                        format!("client_request_completions={c}"),
                        format!("request #{k} completed {c} times after hostile input"),
                        rep.clone(),
                    );
                }
            }
            match &sres {
                Some(Res::Err(rodbus::RequestError::Shutdown)) => {
                    // nobody asked the task to stop: it died
                    ev.violation(
                        format!("client_task_gone_after_hostile_input:{}", framing.name()),
                        "a request submitted after the hostile input completed with Shutdown although the task was never shut down".to_string(),
                        rep.clone(),
                    );
                }
                Some(Res::Regs(_)) | Some(Res::Err(_)) => {
                    ev.count("handles_usable_after_hostile_input", 1);
                    if matches!(sres, Some(Res::Regs(_))) {
                        ev.count("sentinels_answered_after_hostile_input", 1);
                    }
                }
                other => {
                    ev.violation(
                        format!("client_handle_unusable:{}", framing.name()),
                        format!("a request submitted after the hostile input never completed: {other:?}"),
                        rep.clone(),
                    );
                }
            }
            if !ended {
                ev.violation(
                    format!("client_ignores_shutdown:{}", framing.name()),
                    "the client task did not end after shutdown".to_string(),
                    rep.clone(),
                );
            }
            ev.set("session_end_reasons", format!("{ends:?}"));
            if n < 4 {
                ev.sample(json!({"role": "client", "framing": framing.name(), "decode": level, "mutations": tags, "results": classes, "sentinel": sres.map(|r| r.class()), "session_ends": format!("{ends:?}")}));
            }
        }
    }
}

/// One client request answered with exactly these bytes (used by the coverage-guided leg)
pub fn client_bytes(framing: Framing, decode: (u8, u8, u8), bytes: &[u8], ev: &mut Evidence) {
    let bytes2 = bytes.to_vec();
    let result = run_paused(|| async move {
        let seq = Seq::default();
        let (io, handle) = sim_io(vec![], seq.clone());
        let st = Arc::new(Mutex::new((RequestAssembler::new(framing), false)));
        handle.set_responder(Box::new(move |b, _| {
            let mut g = st.lock().unwrap();
            let frames = g.0.feed(b);
            let mut items = vec![];
            for f in frames {
                if g.1 {
                    continue;
                }
                g.1 = true;
                let mut s = bytes2.clone();
                // give the first frame the outstanding transaction id when the input asks for it
                if framing == Framing::Mbap && s.len() > 2 && s[0] & 1 == 1 {
                    s[0] = f[0];
                    s[1] = f[1];
                }
                items.push(In::Chunk(s));
            }
            items
        }));
        let (channel, mut sim) = rodbus::verif::client(rframing(framing), 4, decode_level(decode), std::num::NonZeroUsize::new(2));
        let task = tokio::spawn(async move { sim.run_session(Box::new(io)).await });
        channel.enable().await.unwrap();
        let start = tokio::time::Instant::now();
        let slot = Slot::new(start, seq.clone());
        let req = ClientReq::Read { kind: Kind::ReadHolding, start: 0, count: 3 };
        let _ = submit(&channel, Style::Callback, 1, Duration::from_millis(50), &req, slot.clone()).await;
        let _ = tokio::time::timeout(Duration::from_secs(30), slot.wait()).await;
        settle().await;
        let n = slot.count();
        let spin = handle.with(|s| s.spin_detected);
        channel.shutdown().await.ok();
        let ended = tokio::time::timeout(Duration::from_secs(3600), task).await.is_ok();
        (n, spin, ended)
    });
    match result {
        Err(p) => ev.violation(format!("client_panic:{}", crate::util::panic_site(&p)), format!("client task panicked: {p}"), json!({})),
        Ok((n, spin, ended)) => {
            if n != 1 {
                ev.violation(format!("client_request_completions={n}"), "request did not complete exactly once".to_string(), json!({}));
            }
            if spin {
                ev.violation("client_spin".to_string(), "client spun on the transport".to_string(), json!({}));
            }
            if !ended {
                ev.violation("client_ignores_shutdown".to_string(), "client task did not end after shutdown".to_string(), json!({}));
            }
        }
    }
}

pub fn one(seed: u64, n: u64, ev: &mut Evidence) {
    if n % 3 == 2 {
        client_case(seed, n / 3, ev)
    } else {
        server_case(seed, n - n / 3, ev)
    }
}

/// child process: run cases lo..hi, write progress + evidence
fn worker(args: &Args) -> i32 {
    let lo: u64 = args.extra.get("lo").and_then(|s| s.parse().ok()).unwrap_or(0);
    let hi: u64 = args.extra.get("hi").and_then(|s| s.parse().ok()).unwrap_or(0);
    let out = args.extra.get("out").cloned().unwrap_or_default();
    let progress = format!("{out}.progress");
    let mut ev = Evidence::new();
    for n in lo..hi {
        if n % 64 == 0 {
            let _ = std::fs::write(&progress, n.to_string());
        }
        // a cheap per-case marker for the watchdog: only the last value matters
        CURRENT.store(n, std::sync::atomic::Ordering::Relaxed);
        one(args.seed, n, &mut ev);
    }
    let _ = std::fs::write(&out, serde_json::to_string(&ev.to_json()).unwrap());
    let _ = std::fs::write(&progress, "done");
    0
}

static CURRENT: std::sync::atomic::AtomicU64 = std::sync::atomic::AtomicU64::new(0);

fn spawn_worker(args: &Args, lo: u64, hi: u64, out: &str) -> std::io::Result<std::process::Child> {
    std::process::Command::new(std::env::current_exe()?)
        .arg("c07-worker")
        .arg("--seed")
        .arg((args.seed as i64).to_string())
        .arg("--lo")
        .arg(lo.to_string())
        .arg("--hi")
        .arg(hi.to_string())
        .arg("--out")
        .arg(out)
        .stdout(std::process::Stdio::null())
        .stderr(std::process::Stdio::null())
        .spawn()
}

/// run one case alone in a child with a wall-clock limit; true = it finished
fn run_alone(args: &Args, n: u64, limit: Duration) -> bool {
    let out = format!("{}/out/c07-alone-{}-{}.json", verif_root().display(), std::process::id(), n);
    let Ok(mut ch) = spawn_worker(args, n, n + 1, &out) else { return true };
    let t0 = Instant::now();
    loop {
        match ch.try_wait() {
            Ok(Some(_)) => {
                let _ = std::fs::remove_file(&out);
                let _ = std::fs::remove_file(format!("{out}.progress"));
                return true;
            }
            Ok(None) => {
                if t0.elapsed() > limit {
                    let _ = ch.kill();
                    let _ = ch.wait();
                    return false;
                }
                std::thread::sleep(Duration::from_millis(50));
            }
            Err(_) => return true,
        }
    }
}

/// replay one fuzzer artifact in this (non-sanitizer) build: exit code 0 = nothing found
fn artifact(args: &Args) -> i32 {
    let Some(path) = args.extra.get("file") else { return EXIT_INCONCLUSIVE };
    let Ok(data) = std::fs::read(path) else { return EXIT_INCONCLUSIVE };
    if data.len() < 3 {
        return 0;
    }
    let sel = data[0];
    let framing = if sel & 1 == 0 { Framing::Mbap } else { Framing::Rtu };
    let level = (sel >> 1) % 36;
    let decode = (level % 4, (level / 4) % 3, (level / 12) % 3);
    let chunk = 1 + (data[1] as usize % 64) * if data[1] > 127 { 9 } else { 1 };
    let body = &data[2..];
    let mut script: Vec<In> = body.chunks(chunk).map(|c| In::Chunk(c.to_vec())).collect();
    script.push(In::Eof);
    let mut stores = BTreeMap::new();
    stores.insert(1u8, Store::new(7, 1, 2));
    stores.insert(0x2Au8, Store::new(9, 0x2A, 0));
    let case = ServerCase { framing, stores, policy: None, script, decode, commands: vec![] };
    let obs = run_server_case(&case);
    let mut ev = Evidence::new();
    client_bytes(framing, decode, body, &mut ev);
    if obs.panic.is_some() || obs.spin_detected || obs.timed_out || !ev.violations.is_empty() {
        println!("artifact reproduces: panic={:?} spin={} never_ended={} client={:?}", obs.panic, obs.spin_detected, obs.timed_out, ev.violations.first().map(|v| v.sig.clone()));
        return EXIT_VIOLATION;
    }
    0
}

/// thorough tier: coverage-guided fuzzing (libFuzzer + AddressSanitizer) seeded from the
/// generator's corpus, and the Miri leg over the SIM sessions
fn thorough_legs(args: &Args, ev: &mut Evidence) {
    use vcommon::legs::run_leg;
    let root = verif_root();
    let corpus = root.join("out").join("fuzz-corpus");
    let artifacts = root.join("out").join("fuzz-artifacts");
    let _ = std::fs::remove_dir_all(&corpus);
    let _ = std::fs::remove_dir_all(&artifacts);
    let _ = std::fs::create_dir_all(&corpus);
    let _ = std::fs::create_dir_all(&artifacts);
    let mut rng = Rng::sub(args.seed, 7107, 0);
    for i in 0..3000u32 {
        let framing = if i % 2 == 0 { Framing::Mbap } else { Framing::Rtu };
        let tx0 = rng.u16();
        let (stream, _) = hostile_stream(&mut rng, framing, i % 3 != 0, tx0);
        let mut data = vec![((i % 72) as u8) << 1 | (i % 2) as u8, rng.u8()];
        data.extend(stream);
        let _ = std::fs::write(corpus.join(format!("seed-{i:05}")), data);
    }
    let secs = args.extra.get("fuzz-seconds").and_then(|s| s.parse::<u64>().ok()).unwrap_or(600);
    let target = root.join(".build").join("fuzz").display().to_string();
    let fuzzdir = root.join("fuzz").display().to_string();
    let total = format!("-max_total_time={secs}");
    let art = format!("-artifact_prefix={}/", artifacts.display());
    let forks = format!("-fork={}", args.jobs.min(16));
    let r = run_leg(
        "cargo",
        &["+nightly", "fuzz", "run", "--fuzz-dir", &fuzzdir, "c07", &corpus.display().to_string(), "--", &total, "-timeout=10", "-rss_limit_mb=4096", "-len_control=0", "-ignore_ooms=1", "-ignore_timeouts=0", &art, &forks],
        &[("CARGO_NET_OFFLINE", "true"), ("CARGO_TARGET_DIR", &target)],
        Some(&fuzzdir),
        Duration::from_secs(secs + 1500),
    );
    ev.count("fuzz_leg_runs", 1);
    // "#1234: cov: 5678 ft: ..." lines of fork mode
    let mut execs = 0u64;
    let mut cov = 0u64;
    for l in r.output.lines() {
        if let Some(rest) = l.strip_prefix('#') {
            if let Some((n, tail)) = rest.split_once(':') {
                if let Ok(n) = n.trim().parse::<u64>() {
                    execs = execs.max(n);
                }
                if let Some(p) = tail.find("cov: ") {
                    if let Some(c) = tail[p + 5..].split_whitespace().next().and_then(|x| x.parse::<u64>().ok()) {
                        cov = cov.max(c);
                    }
                }
            }
        }
    }
    ev.count("fuzz_executions", execs);
    ev.max("fuzz_coverage_edges", cov);
    let mut crashes = vec![];
    let mut timeouts = vec![];
    if let Ok(rd) = std::fs::read_dir(&artifacts) {
        for e in rd.flatten() {
            let name = e.file_name().to_string_lossy().to_string();
            if name.starts_with("crash-") {
                crashes.push(e.path());
            } else if name.starts_with("timeout-") {
                timeouts.push(e.path());
            }
        }
    }
    let exe = std::env::current_exe().unwrap();
    for c in crashes.iter().take(5) {
        // confirm in the plain build; the message of the crash is in the fuzzer output
        let rr = run_leg(&exe.display().to_string(), &["c07-artifact", "--file", &c.display().to_string()], &[], None, Duration::from_secs(120));
        let what = r.output.lines().find(|l| l.contains("panicked at") || l.contains("ERROR: AddressSanitizer")).unwrap_or("crash").to_string();
        let keep = root.join("out").join("replay").join(c.file_name().unwrap());
        let _ = std::fs::create_dir_all(keep.parent().unwrap());
        let _ = std::fs::copy(c, &keep);
        if rr.code == Some(EXIT_VIOLATION) || what.contains("AddressSanitizer") {
            ev.violation(
                format!("fuzz_crash:{}", what.split(" at ").last().unwrap_or("?").split(':').take(2).collect::<Vec<_>>().join(":").replace(' ', "_")),
                format!("libFuzzer found a crashing input ({}): {what}", keep.display()),
                json!({"artifact": keep.display().to_string(), "replayed": rr.output.lines().last()}),
            );
        } else {
            ev.inconclusive(format!("fuzzer crash artifact {} did not reproduce in the plain build", c.display()));
        }
    }
    for t in timeouts.iter().take(3) {
        let a = run_leg(&exe.display().to_string(), &["c07-artifact", "--file", &t.display().to_string()], &[], None, Duration::from_secs(100));
        let b = if a.code.is_none() { run_leg(&exe.display().to_string(), &["c07-artifact", "--file", &t.display().to_string()], &[], None, Duration::from_secs(100)).code } else { a.code };
        if a.code.is_none() && b.is_none() {
            let keep = root.join("out").join("replay").join(t.file_name().unwrap());
            let _ = std::fs::copy(t, &keep);
            ev.violation("fuzz_timeout:wedge_confirmed_twice".to_string(), format!("libFuzzer timeout artifact {} hangs in the plain build as well (twice, 100 s each)", keep.display()), json!({"artifact": keep.display().to_string()}));
        } else {
            ev.inconclusive(format!("fuzzer timeout artifact {} finishes when run alone", t.display()));
        }
    }
    if crashes.is_empty() && timeouts.is_empty() {
        if execs > 0 {
            ev.class("leg|libfuzzer_asan|no_artifacts");
            ev.sample(json!({"fuzz_leg": {"executions": execs, "coverage_edges": cov, "seconds": secs, "forks": args.jobs.min(16), "seed_corpus_files": 3000}}));
        } else {
            ev.inconclusive(format!("fuzz leg produced no executions: {}", r.output.lines().rev().take(3).collect::<Vec<_>>().join(" | ")));
        }
    }
    // Miri over a handful of SIM sessions (dependency unsafe code under rodbus' usage)
    let manifest = root.join("harness").join("Cargo.toml").display().to_string();
    let mtarget = root.join(".build").join("miri").display().to_string();
    let m = run_leg(
        "cargo",
        &["+nightly", "miri", "run", "-q", "--manifest-path", &manifest, "-p", "vmiri", "--", "sim", &(args.seed % 1000).to_string()],
        &[("MIRIFLAGS", "-Zmiri-disable-isolation"), ("CARGO_TARGET_DIR", &mtarget), ("CARGO_NET_OFFLINE", "true")],
        None,
        Duration::from_secs(3000),
    );
    ev.count("miri_leg_runs", 1);
    if m.output.contains("Undefined Behavior") || m.output.contains("VMIRI-MISMATCH") {
        let first = m.output.lines().find(|l| l.contains("Undefined Behavior") || l.contains("VMIRI-MISMATCH")).unwrap_or("").to_string();
        ev.violation("miri:C07:sim_sessions".to_string(), format!("Miri reported on the SIM sessions: {first}"), json!({"tail": m.output.lines().rev().take(30).collect::<Vec<_>>()}));
    } else if m.output.contains("VMIRI-OK") && m.code == Some(0) {
        ev.count("miri_leg_clean", 1);
        ev.class("leg|miri|sim_sessions");
    } else {
        ev.inconclusive(format!("Miri leg did not complete: {}", m.output.lines().rev().take(3).collect::<Vec<_>>().join(" | ")));
    }
}

pub fn run(args: &Args) -> i32 {
    if args.check == "c07-worker" {
        return worker(args);
    }
    if args.check == "c07-artifact" {
        return artifact(args);
    }
    let started = Instant::now();
    if let Some(path) = &args.replay {
        let doc: serde_json::Value =
            serde_json::from_str(&std::fs::read_to_string(path).unwrap_or_default()).unwrap_or(json!({}));
        let mut ev = Evidence::new();
        let seed = doc["seed"].as_u64().unwrap_or(1);
        if let Some(n) = doc["case"]["n"].as_u64() {
            if doc["case"]["role"] == "client" {
                client_case(seed, n, &mut ev);
            } else if doc["case"]["role"] == "server" {
                server_case(seed, n, &mut ev);
            } else {
                one(seed, n, &mut ev);
            }
        }
        for v in &ev.violations {
            println!("replayed violation: sig={} :: {}", v.sig, v.what);
        }
        if ev.violations.is_empty() {
            println!("replay: no violation reproduced");
            return EXIT_OK;
        }
        println!("VIOLATION property=C07 replay={path}");
        return EXIT_VIOLATION;
    }
    let total: u64 = args.tier.pick(1_200_000, 40_000_000);
    let shards = args.jobs as u64;
    let per = total.div_ceil(shards);
    // cap on a whole shard; a stuck case is caught by the progress watchdog below long before
    let budget = Duration::from_secs(args.tier.pick(1200, 7200));
    let outdir = verif_root().join("out");
    let _ = std::fs::create_dir_all(&outdir);
    struct W {
        child: std::process::Child,
        lo: u64,
        hi: u64,
        out: String,
        started: Instant,
        last_progress: (String, Instant),
    }
    let mut workers: Vec<W> = vec![];
    let mut ev = Evidence::new();
    let pid = std::process::id();
    let mut spawn_idx = 0;
    let mut spawn = |lo: u64, hi: u64, workers: &mut Vec<W>, ev: &mut Evidence| {
        let out = format!("{}/c07-{}-{}.json", outdir.display(), pid, spawn_idx);
        spawn_idx += 1;
        match spawn_worker(args, lo, hi, &out) {
            Ok(child) => workers.push(W {
                child,
                lo,
                hi,
                out,
                started: Instant::now(),
                last_progress: (String::new(), Instant::now()),
            }),
            Err(e) => ev.inconclusive(format!("cannot spawn worker: {e}")),
        }
    };
    for s in 0..shards {
        let lo = s * per;
        let hi = ((s + 1) * per).min(total);
        if lo < hi {
            spawn(lo, hi, &mut workers, &mut ev);
        }
    }
    // a worker making no progress for this long is considered stuck on one case
    let stall = Duration::from_secs(60);
    while !workers.is_empty() {
        std::thread::sleep(Duration::from_millis(100));
        let mut i = 0;
        while i < workers.len() {
            let w = &mut workers[i];
            let done = matches!(w.child.try_wait(), Ok(Some(_)));
            if done {
                let w = workers.remove(i);
                match std::fs::read_to_string(&w.out).ok().and_then(|t| serde_json::from_str::<serde_json::Value>(&t).ok()) {
                    Some(v) => ev.merge(Evidence::from_json(&v)),
                    None => ev.inconclusive(format!("worker for cases {}..{} died without a result", w.lo, w.hi)),
                }
                let _ = std::fs::remove_file(&w.out);
                let _ = std::fs::remove_file(format!("{}.progress", w.out));
                continue;
            }
            let p = std::fs::read_to_string(format!("{}.progress", w.out)).unwrap_or_default();
            if p != w.last_progress.0 {
                w.last_progress = (p, Instant::now());
            }
            let stuck = w.last_progress.1.elapsed() > stall;
            let over = w.started.elapsed() > budget;
            if stuck || over {
                let _ = w.child.kill();
                let _ = w.child.wait();
                let w = workers.remove(i);
                let at: u64 = w.last_progress.0.trim().parse().unwrap_or(w.lo);
                if over && !stuck {
                    ev.inconclusive(format!("worker for cases {}..{} exceeded the wall-clock budget at case ~{at}", w.lo, w.hi));
                } else {
                    // find the case in the 64-case window that does not finish, confirm twice
                    let mut culprit = None;
                    for n in at..(at + 64).min(w.hi) {
                        if !run_alone(args, n, Duration::from_secs(20)) {
                            culprit = Some(n);
                            break;
                        }
                    }
                    match culprit {
                        Some(n) => {
                            let again = !run_alone(args, n, Duration::from_secs(200)) && !run_alone(args, n, Duration::from_secs(200));
                            if again {
                                ev.violation(
                                    "wedge_non_yielding_loop",
                                    format!("case {n} never finishes (no transport polls, no timers): confirmed twice with a 10x budget"),
                                    json!({"n": n, "role": "either"}),
                                );
                            } else {
                                ev.inconclusive(format!("case {n} stalled once but finished when re-run alone"));
                            }
                            if n + 1 < w.hi {
                                spawn(n + 1, w.hi, &mut workers, &mut ev);
                            }
                        }
                        None => {
                            ev.inconclusive(format!("worker stalled near case {at} but every case finishes alone"));
                            if at + 64 < w.hi {
                                spawn(at + 64, w.hi, &mut workers, &mut ev);
                            }
                        }
                    }
                }
                let _ = std::fs::remove_file(&w.out);
                let _ = std::fs::remove_file(format!("{}.progress", w.out));
                continue;
            }
            i += 1;
        }
    }
    if args.tier == Tier::Thorough && !args.extra.contains_key("no-legs") {
        thorough_legs(args, &mut ev);
    }
    let meta = Meta {
        property_id: "C07",
        level: "exploration",
        rule: "one evaluation = one hostile byte stream (grammar-aware mutation of valid traffic: length-field lies, field-boundary values, truncation, splices, bit flips, insertions, maximal frames, repetition, unknown function codes - or raw random bytes) fed under a random partition to the production server session or client loop, MBAP and RTU, cycling through all 36 decode levels with a formatting tracing subscriber installed, built with overflow checks and debug assertions. Monitors: panic hook, transport poll counter (spin), virtual-time watchdog (session must end on EOF / shutdown / handle drop), wall-clock watchdog on worker processes (non-yielding loops, confirmed by re-running alone), a fresh session on the same handler map must answer a sentinel, a request submitted afterwards must complete. distinct = (role, framing, decode level, terminal outcome, mutation kind)".into(),
        assumptions: vec![
            "a case is reported as a wedge only if it fails to finish alone twice with a 10x budget".into(),
            "rustc overflow checks and debug assertions are enabled for rodbus and all dependencies in this build".into(),
        ],
        exhaustive: None,
        floors: vec![
            ("server_inputs".into(), args.tier.pick(700_000, 20_000_000)),
            ("client_inputs".into(), args.tier.pick(350_000, 10_000_000)),
            ("busy_peer_sessions".into(), args.tier.pick(500, 15_000)),
            ("deaf_peer_sessions".into(), args.tier.pick(1_000, 30_000)),
            ("followup_sentinels_answered".into(), args.tier.pick(700_000, 20_000_000)),
        ],
        min_classes: 500,
    };
    finish(args, meta, ev, started)
}
