//! C10: every client request completes exactly once, under every interleaving, with an error
//! that tells what happened.
//!
//! The production `ClientLoop` is driven by random event scripts in virtual time. The outer
//! connect/wait loop is composed from the hooked primitives in the same order as
//! `TcpChannelTask::run_inner` (harness code; the real task is checked black-box in C13/C14).
//! A sequential reference of the client semantics stated in the property predicts, for every
//! request, the set of allowed result classes.

use crate::client_run::*;
use crate::io::{sim_io, Handle, In, Seq, SimIo, WriteStep};
use crate::util::{decode_level, parallel};
use serde_json::json;
use std::collections::VecDeque;
use std::sync::{Arc, Mutex};
use std::time::{Duration, Instant};
use vcommon::model::*;
use vcommon::report::*;
use vcommon::rng::Rng;

const WAIT_MS: u64 = 100;

#[derive(Clone, Debug, PartialEq)]
enum Ev {
    Submit { style: Style, timeout_ms: u64, handle: usize },
    ReplyMatch,
    ReplyStale,
    ReplyWrongFn,
    ReplyException,
    ReplyPartial,
    GarbageHeader,
    ReadErr,
    Eof,
    WriteErrNext,
    Enable,
    Disable,
    SetDecode,
    Shutdown,
    CloneHandle,
    DropHandle(usize),
    AbortTask,
    Advance(u64),
}

/// what the environment does when the task tries to connect
#[derive(Copy, Clone, Debug, PartialEq)]
enum Conn {
    Up,
    Refused,
}

struct World {
    plan: VecDeque<Conn>,
    current: Option<Handle>,
    seq: Seq,
    connects: u64,
}

impl World {
    fn next_connection(&mut self) -> Option<SimIo> {
        self.connects += 1;
        match self.plan.pop_front().unwrap_or(Conn::Up) {
            Conn::Refused => {
                self.current = None;
                None
            }
            Conn::Up => {
                let (io, h) = sim_io(vec![], self.seq.clone());
                self.current = Some(h);
                Some(io)
            }
        }
    }
}

/// the outer loop, composed exactly like TcpChannelTask::run_inner / try_connect_and_run
async fn channel_task(mut sim: rodbus::verif::ClientSim, world: Arc<Mutex<World>>) {
    use rodbus::verif::{SessionEnd, WaitEnd};
    loop {
        if sim.wait_for_enabled().await.is_err() {
            return;
        }
        let io = world.lock().unwrap().next_connection();
        let res = match io {
            None => sim.fail_requests_for(Duration::from_millis(WAIT_MS)).await,
            Some(io) => match sim.run_session(Box::new(io)).await {
                SessionEnd::Shutdown => Err(WaitEnd::Shutdown),
                SessionEnd::Disabled => {
                    world.lock().unwrap().current = None;
                    Ok(())
                }
                SessionEnd::IoError(_) | SessionEnd::BadFrame | SessionEnd::MaxTimeouts(_) => {
                    world.lock().unwrap().current = None;
                    sim.fail_requests_for(Duration::from_millis(WAIT_MS)).await
                }
            },
        };
        if let Err(WaitEnd::Shutdown) = res {
            return;
        }
    }
}

// ------------------------------------------------------------------------------------------
// sequential reference of the client semantics
// ------------------------------------------------------------------------------------------

#[derive(Clone, Debug, PartialEq)]
enum MCmd {
    Request(usize),
    Enable,
    Disable,
    SetDecode,
    Shutdown,
}

#[derive(Clone, Debug, PartialEq)]
enum Mode {
    Disabled,
    Connected { outstanding: Option<(usize, u64)>, write_err_armed: bool, partial: bool },
    Wait { until: u64 },
    Gone,
}

struct Model {
    mode: Mode,
    enabled: bool,
    q: VecDeque<MCmd>,
    cap: usize,
    now: u64,
    plan: VecDeque<Conn>,
    senders: usize,
    /// request id -> allowed result classes (decided when the request resolves)
    decided: Vec<Option<Vec<&'static str>>>,
    timeouts: Vec<u64>,
    closed: bool,
    states_visited: std::collections::BTreeSet<String>,
    /// consecutive-timeout limit of the channel and the current count on this connection
    max_timeouts: Option<u64>,
    consecutive_timeouts: u64,
}

impl Model {
    fn decide(&mut self, id: usize, classes: &[&'static str]) {
        if self.decided[id].is_none() {
            self.decided[id] = Some(classes.to_vec());
            // any outcome other than a timeout restarts the consecutive-timeout count
            if classes != ["timeout"] {
                self.consecutive_timeouts = 0;
            }
        }
    }
    fn mode_name(&self) -> &'static str {
        match self.mode {
            Mode::Disabled => "disabled",
            Mode::Connected { outstanding: Some(_), .. } => "connected_busy",
            Mode::Connected { .. } => "connected_idle",
            Mode::Wait { .. } => "wait",
            Mode::Gone => "gone",
        }
    }
    fn connect(&mut self) {
        self.consecutive_timeouts = 0;
        match self.plan.pop_front().unwrap_or(Conn::Up) {
            Conn::Up => {
                self.mode = Mode::Connected {
                    outstanding: None,
                    write_err_armed: false,
                    partial: false,
                }
            }
            Conn::Refused => self.mode = Mode::Wait { until: self.now + WAIT_MS },
        }
    }
    fn go_gone(&mut self) {
        self.mode = Mode::Gone;
        // everything still queued is dropped: the task is gone
        while let Some(c) = self.q.pop_front() {
            if let MCmd::Request(id) = c {
                self.decide(id, &["shutdown"]);
            }
        }
    }
    /// process queued commands until blocked
    fn pump(&mut self) {
        loop {
            if let Mode::Wait { until } = self.mode {
                if self.now >= until {
                    // the wait elapsed: the channel is still enabled, so it reconnects
                    self.connect();
                    continue;
                }
            }
            if let Mode::Connected { outstanding: Some(_), .. } = self.mode {
                return;
            }
            if self.mode == Mode::Gone {
                while let Some(c) = self.q.pop_front() {
                    if let MCmd::Request(id) = c {
                        self.decide(id, &["shutdown"]);
                    }
                }
                return;
            }
            let Some(cmd) = self.q.pop_front() else {
                if self.closed {
                    // all handles dropped and queue drained: the task ends
                    self.go_gone();
                }
                return;
            };
            match (&self.mode.clone(), cmd) {
                (Mode::Disabled, MCmd::Request(id)) => self.decide(id, &["no_connection"]),
                (Mode::Disabled, MCmd::Enable) => {
                    self.enabled = true;
                    self.connect();
                }
                (Mode::Disabled, MCmd::Disable) | (Mode::Disabled, MCmd::SetDecode) => {}
                (_, MCmd::Shutdown) => self.go_gone(),
                (Mode::Wait { .. }, MCmd::Request(id)) => self.decide(id, &["no_connection"]),
                (Mode::Wait { .. }, MCmd::Disable) => {
                    self.enabled = false;
                    self.mode = Mode::Disabled;
                }
                (Mode::Wait { .. }, _) => {}
                (Mode::Connected { write_err_armed, .. }, MCmd::Request(id)) => {
                    if *write_err_armed {
                        self.decide(id, &["io"]);
                        self.mode = Mode::Wait { until: self.now + WAIT_MS };
                    } else {
                        let deadline = self.now + self.timeouts[id];
                        self.mode = Mode::Connected {
                            outstanding: Some((id, deadline)),
                            write_err_armed: false,
                            partial: false,
                        };
                    }
                }
                (Mode::Connected { .. }, MCmd::Disable) => {
                    self.enabled = false;
                    self.mode = Mode::Disabled;
                }
                (Mode::Connected { .. }, _) => {}
                (Mode::Gone, _) => {}
            }
        }
    }
    fn next_timer(&self) -> Option<u64> {
        match &self.mode {
            Mode::Connected { outstanding: Some((_, d)), .. } => Some(*d),
            Mode::Wait { until } => Some(*until),
            _ => None,
        }
    }
    fn advance(&mut self, ms: u64) {
        let target = self.now + ms;
        while let Some(t) = self.next_timer() {
            if t > target {
                break;
            }
            self.now = self.now.max(t);
            if let Mode::Connected { outstanding: Some((id, _)), write_err_armed, .. } = self.mode.clone() {
                self.decide(id, &["timeout"]);
                self.consecutive_timeouts += 1;
                if self.max_timeouts.map(|m| self.consecutive_timeouts >= m).unwrap_or(false) {
                    // the connection is dropped for re-establishment
                    self.mode = Mode::Wait { until: self.now + WAIT_MS };
                } else {
                    self.mode = Mode::Connected {
                        outstanding: None,
                        write_err_armed,
                        partial: false,
                    };
                }
            }
            self.pump();
        }
        self.now = target;
        self.pump();
    }
}

fn gen_script(rng: &mut Rng) -> (Vec<Ev>, Vec<Conn>, usize) {
    let len = 4 + rng.usize_below(36);
    let mut evs = vec![Ev::Enable];
    let mut handles = 1usize;
    for _ in 0..len {
        let e = match rng.below(40) {
            0..=13 => Ev::Submit {
                style: ALL_STYLES_API[rng.usize_below(3)],
                timeout_ms: *rng.pick(&[5u64, 20, 50, 200]),
                handle: rng.usize_below(handles),
            },
            14..=18 => Ev::ReplyMatch,
            19 => Ev::ReplyStale,
            20 => Ev::ReplyWrongFn,
            21 => Ev::ReplyException,
            22 => Ev::ReplyPartial,
            23 => Ev::GarbageHeader,
            24 => Ev::ReadErr,
            25 => Ev::Eof,
            26 => Ev::WriteErrNext,
            27 | 28 => Ev::Enable,
            29 | 30 => Ev::Disable,
            31 => Ev::SetDecode,
            32 => {
                if rng.chance(1, 3) {
                    Ev::Shutdown
                } else {
                    Ev::Enable
                }
            }
            33 => {
                handles += 1;
                Ev::CloneHandle
            }
            34 => Ev::DropHandle(rng.usize_below(handles)),
            35 => {
                if rng.chance(1, 4) {
                    Ev::AbortTask
                } else {
                    Ev::ReplyMatch
                }
            }
            _ => Ev::Advance(*rng.pick(&[1u64, 4, 5, 6, 19, 20, 21, 49, 50, 51, 99, 100, 101, 250])),
        };
        evs.push(e);
    }
    let plan: Vec<Conn> = (0..12).map(|_| if rng.chance(1, 4) { Conn::Refused } else { Conn::Up }).collect();
    (evs, plan, *rng.pick(&[1usize, 2, 4, 16]))
}

fn reply_for(id: usize) -> Vec<u8> {
    vec![3, 4, (id >> 8) as u8, id as u8, 0xC1, 0x0C]
}

fn last_request_tx(h: &Handle) -> Option<(u16, u8)> {
    let out = h.out_bytes();
    let mut asm = RequestAssembler::new(Framing::Mbap);
    asm.feed(&out).last().map(|f| (((f[0] as u16) << 8) | f[1] as u16, f[6]))
}

fn run_script(seed: u64, n: u64, ev: &mut Evidence) {
    let mut rng = Rng::sub(seed, 110, n);
    let (script, plan, cap) = gen_script(&mut rng);
    let decode = (rng.u8() % 4, rng.u8() % 3, rng.u8() % 3);
    let script2 = script.clone();
    let plan2 = plan.clone();
    let max_timeouts: Option<u64> = *rng.pick(&[None, None, Some(1), Some(2), Some(3)]);

    let result = run_paused(|| async move {
        let seq = Seq::default();
        let world = Arc::new(Mutex::new(World {
            plan: plan2.clone().into(),
            current: None,
            seq: seq.clone(),
            connects: 0,
        }));
        let (channel, sim) = rodbus::verif::client(rodbus::verif::Framing::Mbap, cap, decode_level(decode), max_timeouts.and_then(|m| std::num::NonZeroUsize::new(m as usize)));
        let task = tokio::spawn(channel_task(sim, world.clone()));
        let start = tokio::time::Instant::now();
        let mut handles: Vec<Option<rodbus::client::Channel>> = vec![Some(channel)];
        let mut model = Model {
            mode: Mode::Disabled,
            enabled: false,
            q: VecDeque::new(),
            cap,
            now: 0,
            plan: plan2.into(),
            senders: 1,
            decided: vec![],
            timeouts: vec![],
            closed: false,
            states_visited: Default::default(),
            max_timeouts,
            consecutive_timeouts: 0,
        };
        let mut slots: Vec<Arc<Slot>> = vec![];
        let mut outcomes: Vec<CallOutcome> = vec![];
        let mut styles: Vec<Style> = vec![];
        let mut aborted = false;
        let mut log: Vec<String> = vec![];
        // second half of a split reply: (request id, connection number, bytes)
        let mut pending_rest: Option<(usize, u64, Vec<u8>)> = None;
        for e in &script2 {
            // deliver the late half of a split reply as soon as its request is resolved
            if let Some((id, conn, bytes)) = pending_rest.clone() {
                if model.decided[id].is_some() {
                    pending_rest = None;
                    let w = world.lock().unwrap();
                    if w.connects == conn {
                        if let Some(h) = &w.current {
                            h.push(vec![In::Chunk(bytes)]);
                        }
                    }
                    drop(w);
                    settle().await;
                }
            }
            model.states_visited.insert(format!("{}|{}", model.mode_name(), ev_name(e)));
            log.push(format!("{:?}@{}:{}", e, model.now, model.mode_name()));
            let live = |handles: &Vec<Option<rodbus::client::Channel>>| handles.iter().flatten().next().cloned();
            // how many commands the model thinks are queued (requests behind a busy session)
            match e {
                Ev::Submit { style, timeout_ms, handle } => {
                    let id = slots.len();
                    let slot = Slot::new(start, seq.clone());
                    slots.push(slot.clone());
                    styles.push(*style);
                    model.decided.push(None);
                    model.timeouts.push(*timeout_ms);
                    let ch = handles.get(*handle).cloned().flatten().or_else(|| live(&handles));
                    let Some(ch) = ch else {
                        // no handle left to submit through
                        outcomes.push(CallOutcome::RejectedAtApi("no handle".into()));
                        model.decided[id] = Some(vec!["not_submitted"]);
                        continue;
                    };
                    let req = ClientReq::Read { kind: Kind::ReadHolding, start: id as u16, count: 2 };
                    let full = model.q.len() >= model.cap;
                    let gone = model.mode == Mode::Gone;
                    if *style == Style::Ffi && (full || gone) {
                        // try_send fails: the call reports it and the callback fires with Shutdown
                        let o = submit(&ch, *style, 1, Duration::from_millis(*timeout_ms), &req, slot).await;
                        outcomes.push(o);
                        // gone: Shutdown is the truth. Full queue with the task alive: any error is
                        // acceptable, Shutdown is the recorded known finding
                        model.decided[id] = Some(if gone { vec!["shutdown"] } else { vec!["FFI_REFUSED_WHILE_ALIVE"] });
                        settle().await;
                        continue;
                    }
                    if full && !gone {
                        // a blocking sender would wait for room: keep scripts free of that
                        outcomes.push(CallOutcome::RejectedAtApi("skipped: queue full".into()));
                        model.decided[id] = Some(vec!["not_submitted"]);
                        slots[id].complete(Res::Rejected("skipped".into()), true);
                        continue;
                    }
                    let o = if *style == Style::Callback {
                        // returns once the command is queued (or dropped when the task is gone)
                        submit(&ch, *style, 1, Duration::from_millis(*timeout_ms), &req, slot).await
                    } else {
                        submit(&ch, *style, 1, Duration::from_millis(*timeout_ms), &req, slot).await
                    };
                    outcomes.push(o);
                    if gone {
                        model.decided[id] = Some(vec!["shutdown"]);
                    } else {
                        model.q.push_back(MCmd::Request(id));
                    }
                }
                Ev::Enable | Ev::Disable | Ev::SetDecode | Ev::Shutdown => {
                    if let Some(ch) = live(&handles) {
                        let full = model.q.len() >= model.cap;
                        if !full || model.mode == Mode::Gone {
                            let r = match e {
                                Ev::Enable => ch.enable().await.is_ok(),
                                Ev::Disable => ch.disable().await.is_ok(),
                                Ev::SetDecode => ch.set_decode_level(decode_level((3, 2, 2))).await.is_ok(),
                                _ => ch.shutdown().await.is_ok(),
                            };
                            if r && model.mode != Mode::Gone {
                                model.q.push_back(match e {
                                    Ev::Enable => MCmd::Enable,
                                    Ev::Disable => MCmd::Disable,
                                    Ev::SetDecode => MCmd::SetDecode,
                                    _ => MCmd::Shutdown,
                                });
                            }
                        }
                    }
                }
                Ev::CloneHandle => {
                    let c = live(&handles);
                    if c.is_some() {
                        model.senders += 1;
                    }
                    handles.push(c);
                }
                Ev::DropHandle(i) => {
                    if let Some(h) = handles.get_mut(*i) {
                        if h.take().is_some() {
                            model.senders -= 1;
                            if model.senders == 0 {
                                model.closed = true;
                            }
                        }
                    }
                }
                Ev::AbortTask => {
                    task.abort();
                    aborted = true;
                    // the task is destroyed: outstanding and queued requests are dropped
                    if let Mode::Connected { outstanding: Some((id, _)), .. } = model.mode.clone() {
                        model.decide(id, &["shutdown"]);
                    }
                    model.go_gone();
                }
                Ev::Advance(ms) => {
                    tokio::time::sleep(Duration::from_millis(*ms)).await;
                    settle().await;
                    model.advance(*ms);
                    continue;
                }
                // transport events act on the current connection, if any
                Ev::ReplyMatch | Ev::ReplyStale | Ev::ReplyWrongFn | Ev::ReplyException | Ev::ReplyPartial | Ev::GarbageHeader | Ev::ReadErr | Ev::Eof | Ev::WriteErrNext => {
                    let cur = world.lock().unwrap().current.clone();
                    let connected = matches!(model.mode, Mode::Connected { .. });
                    if let (Some(h), true) = (cur, connected) {
                        let Mode::Connected { outstanding, write_err_armed, partial } = model.mode.clone() else { unreachable!() };
                        if partial && !matches!(e, Ev::WriteErrNext | Ev::ReadErr | Ev::Eof) {
                            // generator constraint: no other frame arrives while half a reply is in flight
                            // (the connection may break there: the next session must start clean)
                            continue;
                        }
                        let txu = last_request_tx(&h);
                        match e {
                            Ev::ReplyMatch => match (outstanding, txu) {
                                (Some((id, _)), Some((tx, unit))) => {
                                    h.push(vec![In::Chunk(mbap_frame(tx, unit, &reply_for(id)))]);
                                    model.decide(id, &["ok"]);
                                    model.mode = Mode::Connected { outstanding: None, write_err_armed, partial: false };
                                }
                                _ => h.push(vec![In::Chunk(mbap_frame(0x5555, 1, &reply_for(9999)))]),
                            },
                            Ev::ReplyStale => {
                                let tx = txu.map(|t| t.0.wrapping_sub(1)).unwrap_or(0x4444);
                                h.push(vec![In::Chunk(mbap_frame(tx, 1, &reply_for(8888)))]);
                            }
                            Ev::ReplyWrongFn => {
                                if let (Some((id, _)), Some((tx, unit))) = (outstanding, txu) {
                                    h.push(vec![In::Chunk(mbap_frame(tx, unit, &[4, 4, 0, 0, 0, 0]))]);
                                    model.decide(id, &["bad_response"]);
                                    model.mode = Mode::Connected { outstanding: None, write_err_armed, partial: false };
                                }
                            }
                            Ev::ReplyException => {
                                if let (Some((id, _)), Some((tx, unit))) = (outstanding, txu) {
                                    h.push(vec![In::Chunk(mbap_frame(tx, unit, &[0x83, 0x04]))]);
                                    model.decide(id, &["exception"]);
                                    model.mode = Mode::Connected { outstanding: None, write_err_armed, partial: false };
                                }
                            }
                            Ev::ReplyPartial => {
                                if let (Some((id, d)), Some((tx, unit))) = (outstanding, txu) {
                                    let f = mbap_frame(tx, unit, &reply_for(id));
                                    // first half now; the rest is delivered by the harness right
                                    // after the request has been resolved (i.e. too late)
                                    // inside the header, right after it, or inside the body
                                    let cut = [5usize, 7, 9][id % 3];
                                    h.push(vec![In::Chunk(f[..cut].to_vec())]);
                                    pending_rest = Some((id, world.lock().unwrap().connects, f[cut..].to_vec()));
                                    model.mode = Mode::Connected { outstanding: Some((id, d)), write_err_armed, partial: true };
                                }
                            }
                            Ev::GarbageHeader => {
                                h.push(vec![In::Chunk(mbap_frame_raw(1, 0x4242, 6, 1, &[3, 2, 0, 0]))]);
                                if let Some((id, _)) = outstanding {
                                    model.decide(id, &["bad_frame"]);
                                }
                                model.mode = Mode::Wait { until: model.now + WAIT_MS };
                            }
                            Ev::ReadErr | Ev::Eof => {
                                h.push(vec![if *e == Ev::Eof { In::Eof } else { In::Err(std::io::ErrorKind::ConnectionReset) }]);
                                if let Some((id, _)) = outstanding {
                                    model.decide(id, &["io"]);
                                }
                                model.mode = Mode::Wait { until: model.now + WAIT_MS };
                            }
                            Ev::WriteErrNext => {
                                if outstanding.is_none() {
                                    h.set_write_plan(vec![WriteStep::Fail(std::io::ErrorKind::BrokenPipe)]);
                                    model.mode = Mode::Connected { outstanding: None, write_err_armed: true, partial };
                                }
                            }
                            _ => {}
                        }
                    }
                }
            }
            settle().await;
            model.pump();
        }
        // quiescence: past every deadline, then drop all handles, then join
        tokio::time::sleep(Duration::from_secs(2)).await;
        settle().await;
        model.advance(2000);
        handles.clear();
        model.closed = true;
        model.pump();
        tokio::time::sleep(Duration::from_secs(2)).await;
        settle().await;
        model.advance(2000);
        let joined = tokio::time::timeout(Duration::from_secs(600), task).await;
        settle().await;
        // anything still undecided in the model after the task is gone
        if model.mode != Mode::Gone {
            model.go_gone();
        }
        let comps: Vec<Vec<Completion>> = slots.iter().map(|s| s.completions.lock().unwrap().clone()).collect();
        let task_panicked = matches!(&joined, Ok(Err(e)) if e.is_panic());
        let connects = world.lock().unwrap().connects;
        (comps, outcomes, styles, model.decided.clone(), joined.is_ok(), task_panicked, aborted, log, model.states_visited.clone(), connects)
    });

    ev.eval();
    let rep = json!({"n": n, "script": script.iter().map(|e| format!("{e:?}")).collect::<Vec<_>>(), "conn_plan": plan.iter().map(|c| format!("{c:?}")).collect::<Vec<_>>(), "queue": cap, "max_timeouts": max_timeouts});
    let (comps, outcomes, styles, decided, joined, task_panicked, _aborted, log, states, _connects) = match result {
        Err(p) => {
            ev.violation(format!("panic:{}", crate::util::panic_site(&p)), format!("panicked: {p}"), rep);
            return;
        }
        Ok(x) => x,
    };
    ev.count("scripts", 1);
    for s in states {
        ev.set("reference_state_x_event_pairs", s);
    }
    if task_panicked {
        ev.violation("client_task_panicked", "the client task panicked".to_string(), rep.clone());
    }
    if !joined {
        ev.violation(
            "task_did_not_end_after_all_handles_dropped",
            "the client task was still running 10 virtual minutes after every handle had been dropped".to_string(),
            rep.clone(),
        );
    }
    for (id, cs) in comps.iter().enumerate() {
        let allowed = decided.get(id).cloned().flatten().unwrap_or_default();
        if allowed == vec!["not_submitted"] {
            continue;
        }
        ev.count("requests_tracked", 1);
        let style = styles[id];
        let real: Vec<&Completion> = cs.iter().filter(|c| !matches!(c.res, Res::Rejected(_))).collect();
        if real.is_empty() {
            ev.violation(
                format!("lost:{}:{}", style.name(), allowed.join("/")),
                format!("request #{id} ({}) never completed; expected {:?}. outcome of the call: {:?}. trace: {}", style.name(), allowed, outcomes.get(id), log.join(" ")),
                rep.clone(),
            );
            continue;
        }
        if real.len() > 1 {
            ev.violation(
                format!("completed_{}_times:{}", real.len(), style.name()),
                format!("request #{id} completed {} times", real.len()),
                rep.clone(),
            );
            continue;
        }
        let got = real[0].res.class();
        if allowed.contains(&"FFI_REFUSED_WHILE_ALIVE") {
            if got == "ok" {
                ev.violation("ffi_refused_call_completed_ok".to_string(), format!("request #{id}: FfiChannel refused the call (queue full) but the callback reported success"), rep.clone());
            } else if got == "shutdown" {
                ffi_refused_reports_shutdown(ev, FFI_REFUSED_SIG_FULL, "queue full");
            }
            ev.class(format!("{}|refused_queue_full|{}", style.name(), got));
            continue;
        }
        let ok = allowed.iter().any(|a| *a == got || (*a == "ANY_CONNECTED" && ["ok", "timeout", "io", "bad_frame", "bad_response", "exception"].contains(&got.as_str())));
        if !ok {
            ev.violation(
                format!("wrong_result:{}:expected={}:got={}", style.name(), allowed.join("/"), got),
                format!("request #{id} ({}) completed with {got}, the history allows {:?}. trace: {}", style.name(), allowed, log.join(" ")),
                rep.clone(),
            );
        } else {
            ev.class(format!("{}|{}", style.name(), got));
            if let Res::Regs(v) = &real[0].res {
                // the data must be this request's own unique payload
                if v.first().map(|x| x.1 as usize) != Some(id) {
                    ev.violation("ok_with_foreign_payload", format!("request #{id} returned the payload of another request: {v:?}"), rep.clone());
                }
            }
        }
    }
    if n < 3 {
        ev.sample(json!({"script": script.iter().take(14).map(|e| format!("{e:?}")).collect::<Vec<_>>(), "queue": cap, "results": comps.iter().take(8).map(|c| c.first().map(|c| c.res.class())).collect::<Vec<_>>()}));
    }
}

/// Back-pressure: more concurrent submitters than queue slots. A blocking sender (Channel future,
/// CallbackSession) must wait for room and then be served; only FfiChannel may refuse (its call
/// reports the error and its callback fires with Shutdown). The peer answers everything, after
/// random delays shorter than the timeouts, so every accepted request must complete Ok with its
/// own payload, exactly once, and exactly the accepted requests are transmitted.
fn run_backpressure(seed: u64, n: u64, ev: &mut Evidence) {
    let mut rng = Rng::sub(seed, 1010, n);
    let cap = *rng.pick(&[1usize, 1, 2, 3, 4]);
    let nreq = 2 + rng.usize_below(40);
    let styles: Vec<Style> = (0..nreq).map(|_| *rng.pick(&ALL_STYLES_API)).collect();
    let delays: Vec<u64> = (0..nreq).map(|_| *rng.pick(&[0u64, 0, 1, 3, 10])).collect();
    let yields: Vec<bool> = (0..nreq).map(|_| rng.chance(1, 3)).collect();
    let (styles2, delays2) = (styles.clone(), delays.clone());
    let result = run_paused(|| async move {
        let seq = Seq::default();
        let (io, handle) = sim_io(vec![], seq.clone());
        let mut asm = RequestAssembler::new(Framing::Mbap);
        let seen = Arc::new(Mutex::new(Vec::<u16>::new()));
        let seen2 = seen.clone();
        handle.set_responder(Box::new(move |bytes, _| {
            let mut items = vec![];
            for f in asm.feed(bytes) {
                if f.len() < 12 {
                    continue;
                }
                let tx = ((f[0] as u16) << 8) | f[1] as u16;
                let start = ((f[8] as u16) << 8) | f[9] as u16;
                seen2.lock().unwrap().push(start);
                let d = delays2.get(start as usize).copied().unwrap_or(0);
                if d > 0 {
                    items.push(In::Delay(Duration::from_millis(d)));
                }
                let mut pdu = vec![3u8, 4];
                pdu.extend_from_slice(&start.to_be_bytes());
                pdu.extend_from_slice(&(!start).to_be_bytes());
                items.push(In::Chunk(mbap_frame(tx, f[6], &pdu)));
            }
            items
        }));
        let (channel, mut sim) = rodbus::verif::client(rodbus::verif::Framing::Mbap, cap, decode_level((0, 0, 0)), None);
        let task = tokio::spawn(async move { sim.run_session(Box::new(io)).await });
        channel.enable().await.unwrap();
        let start = tokio::time::Instant::now();
        let slots: Vec<Arc<Slot>> = (0..nreq).map(|_| Slot::new(start, seq.clone())).collect();
        let outcomes = Arc::new(Mutex::new(vec![None; nreq]));
        let mut subs = vec![];
        for k in 0..nreq {
            let (ch, slot, style, outcomes) = (channel.clone(), slots[k].clone(), styles2[k], outcomes.clone());
            // every submission is its own task: a blocking sender parks without blocking the others
            subs.push(tokio::spawn(async move {
                let req = ClientReq::Read { kind: Kind::ReadHolding, start: k as u16, count: 2 };
                let o = submit(&ch, style, 1, Duration::from_secs(3600), &req, slot).await;
                outcomes.lock().unwrap()[k] = Some(o);
            }));
            if yields[k] {
                settle().await;
            }
        }
        for s in subs {
            let _ = tokio::time::timeout(Duration::from_secs(7200), s).await;
        }
        for s in &slots {
            let _ = tokio::time::timeout(Duration::from_secs(7200), s.wait()).await;
        }
        settle().await;
        // a call FfiChannel refuses for its range (126 registers), with the task alive and idle
        let mut bad_res = vec![];
        for breq in [ClientReq::Read { kind: Kind::ReadHolding, start: 0, count: 126 }, ClientReq::Read { kind: Kind::ReadCoils, start: 0, count: 2001 }] {
            let bad = Slot::new(start, seq.clone());
            let _ = submit(&channel, Style::Ffi, 1, Duration::from_secs(10), &breq, bad.clone()).await;
            settle().await;
            // only completions made by the library's callback count (the harness marks a refused call itself)
            let c: Vec<Completion> = bad.completions.lock().unwrap().iter().filter(|c| !matches!(c.res, Res::Rejected(_))).cloned().collect();
            bad_res.push(c);
        }
        drop(channel);
        let _ = tokio::time::timeout(Duration::from_secs(3600), task).await;
        let comps: Vec<Vec<Completion>> = slots.iter().map(|s| s.completions.lock().unwrap().clone()).collect();
        let o = outcomes.lock().unwrap().clone();
        let seen = seen.lock().unwrap().clone();
        (comps, o, seen, bad_res)
    });
    ev.eval();
    let rep = json!({"backpressure": true, "n": n, "queue": cap, "styles": styles.iter().map(|s| s.name()).collect::<Vec<_>>(), "delays": delays});
    let (comps, outcomes, seen, bad_res) = match result {
        Err(p) => {
            ev.violation(format!("client_panic:{}", crate::util::panic_site(&p)), format!("client panicked: {p}"), rep);
            return;
        }
        Ok(x) => x,
    };
    ev.count("backpressure_sessions", 1);
    for (what, bad_res) in ["126 registers", "2001 coils"].iter().zip(bad_res.iter()) {
        ev.count("ffi_refused_for_range_checked", 1);
        match bad_res.len() {
            1 if bad_res[0].res.class() == "shutdown" => ffi_refused_reports_shutdown(ev, FFI_REFUSED_SIG_RANGE, what),
            1 if bad_res[0].res.class() == "ok" => ev.violation("backpressure:ffi_bad_range_completed_ok".to_string(), format!("a read of {what} through FfiChannel completed Ok"), rep.clone()),
            1 => {}
            n => ev.violation(format!("backpressure:ffi_bad_range_callback_invoked_{n}_times"), format!("a read of {what} through FfiChannel was refused by the call and its callback was invoked {n} times"), rep.clone()),
        }
    }
    let mut accepted = 0usize;
    for k in 0..nreq {
        ev.count("requests_tracked", 1);
        let style = styles[k];
        let refused = matches!(outcomes[k], Some(CallOutcome::FfiFull) | Some(CallOutcome::FfiClosed));
        if comps[k].len() != 1 {
            ev.violation(
                format!("backpressure:completed_{}_times:{}", comps[k].len(), style.name()),
                format!("request #{k} of {nreq} ({}, queue {cap}) completed {} times", style.name(), comps[k].len()),
                rep.clone(),
            );
            continue;
        }
        let got = comps[k][0].res.clone();
        if refused {
            ev.count("backpressure_ffi_refused_queue_full", 1);
            if got.class() == "shutdown" {
                ffi_refused_reports_shutdown(ev, FFI_REFUSED_SIG_FULL, "queue full");
            }
            if got.class() == "ok" {
                ev.violation("backpressure:ffi_refused_but_ok".to_string(), format!("FfiChannel refused request #{k} but its callback got {got:?}"), rep.clone());
            }
            if seen.contains(&(k as u16)) {
                ev.violation("backpressure:refused_request_transmitted", format!("request #{k} was refused by FfiChannel and transmitted anyway"), rep.clone());
            }
            continue;
        }
        accepted += 1;
        let want = Res::Regs(vec![(k as u16, k as u16), (k as u16 + 1, !(k as u16))]);
        if got != want {
            ev.violation(
                format!("backpressure:{}:waiting_sender_got_{}", style.name(), got.class()),
                format!("request #{k} of {nreq} ({}, queue capacity {cap}, peer answers everything) completed with {got:?}", style.name()),
                rep.clone(),
            );
        } else {
            ev.class(format!("backpressure|{}|ok|queue={cap}", style.name()));
        }
    }
    let mut sorted = seen.clone();
    sorted.sort();
    sorted.dedup();
    if sorted.len() != seen.len() || seen.len() != accepted {
        ev.violation(
            "backpressure:transmitted_frames_differ_from_accepted_requests",
            format!("{accepted} requests accepted, {} frames transmitted ({} distinct)", seen.len(), sorted.len()),
            rep.clone(),
        );
    }
    if nreq > cap + 1 {
        ev.count("backpressure_sessions_exceeding_queue", 1);
    }
}

/// The peer stops reading: writes to the transport never complete. Requests must still complete
/// (each within its own timeout, with an error), the queue behind them must move, and disable /
/// shutdown / dropping the handles must still take effect.
fn run_peer_stops_reading(seed: u64, n: u64, ev: &mut Evidence) {
    let mut rng = Rng::sub(seed, 1011, n);
    let nreq = 1 + rng.usize_below(4);
    let styles: Vec<Style> = (0..nreq).map(|_| *rng.pick(&ALL_STYLES_API)).collect();
    let timeouts: Vec<u64> = (0..nreq).map(|_| *rng.pick(&[20u64, 100, 500, 2000])).collect();
    let ending = *rng.pick(&["shutdown", "drop_handles", "disable_then_shutdown"]);
    let framing = if rng.chance(1, 3) { Framing::Rtu } else { Framing::Mbap };
    let (styles2, timeouts2) = (styles.clone(), timeouts.clone());
    let result = run_paused(|| async move {
        let seq = Seq::default();
        let (io, handle) = sim_io(vec![], seq.clone());
        handle.set_write_blocked(true);
        let rf = match framing {
            Framing::Mbap => rodbus::verif::Framing::Mbap,
            Framing::Rtu => rodbus::verif::Framing::Rtu,
        };
        let (channel, mut sim) = rodbus::verif::client(rf, 8, decode_level((0, 0, 0)), None);
        let task = tokio::spawn(async move {
            let first = sim.run_session(Box::new(io)).await;
            // afterwards the channel is "down": requests fail fast until the handles go away
            let _ = sim.fail_requests_for(Duration::from_secs(100_000)).await;
            first
        });
        channel.enable().await.unwrap();
        let start = tokio::time::Instant::now();
        let slots: Vec<Arc<Slot>> = (0..nreq).map(|_| Slot::new(start, seq.clone())).collect();
        for k in 0..nreq {
            let req = ClientReq::Read { kind: Kind::ReadHolding, start: k as u16, count: 2 };
            let _ = submit(&channel, styles2[k], 1, Duration::from_millis(timeouts2[k]), &req, slots[k].clone()).await;
        }
        // every request gets its own timeout, one after the other, and some slack
        let budget: u64 = timeouts2.iter().sum::<u64>() + 1000;
        tokio::time::sleep(Duration::from_millis(budget)).await;
        settle().await;
        let done_in_time: Vec<usize> = slots.iter().map(|s| s.count()).collect();
        let t_cmd = tokio::time::Instant::now();
        match ending {
            "shutdown" => {
                let _ = channel.shutdown().await;
                drop(channel);
            }
            "disable_then_shutdown" => {
                let _ = channel.disable().await;
                let _ = channel.shutdown().await;
                drop(channel);
            }
            _ => drop(channel),
        }
        let ended = tokio::time::timeout(Duration::from_secs(3600), task).await.is_ok();
        let took = t_cmd.elapsed();
        let comps: Vec<Vec<Completion>> = slots.iter().map(|s| s.completions.lock().unwrap().clone()).collect();
        (done_in_time, comps, ended, took, handle.out_bytes().len())
    });
    ev.eval();
    ev.count("peer_stops_reading_sessions", 1);
    let rep = json!({"peer_stops_reading": true, "n": n, "framing": framing.name(), "styles": styles.iter().map(|s| s.name()).collect::<Vec<_>>(), "timeouts_ms": timeouts, "ending": ending});
    match result {
        Err(p) => ev.violation(format!("peer_stops_reading:panic:{}", crate::util::panic_site(&p)), format!("client panicked: {p}"), rep),
        Ok((done, comps, ended, took, written)) => {
            ev.count("requests_tracked", nreq as u64);
            for k in 0..nreq {
                if done[k] != 1 {
                    ev.violation(
                        format!("peer_stops_reading:request_pending_after_its_timeout:{}", styles[k].name()),
                        format!("request #{k} of {nreq} (timeout {} ms) had {} completions {} ms after submission although the peer accepts no bytes (bytes written: {written})", timeouts[k], done[k], timeouts.iter().sum::<u64>() + 1000),
                        rep.clone(),
                    );
                } else if comps[k][0].res.is_ok() {
                    ev.violation("peer_stops_reading:ok_without_transmission".to_string(), format!("request #{k} completed Ok: {:?}", comps[k][0].res), rep.clone());
                } else {
                    ev.class(format!("peer_stops_reading|{}|{}", styles[k].name(), comps[k][0].res.class()));
                }
                if comps[k].len() > 1 {
                    ev.violation(format!("peer_stops_reading:completed_{}_times", comps[k].len()), format!("request #{k} completed {} times", comps[k].len()), rep.clone());
                }
            }
            if !ended || took > Duration::from_secs(10) {
                ev.violation(
                    format!("peer_stops_reading:{ending}_not_honoured"),
                    format!("{ending} with the peer not reading: session ended={ended} after {took:?} of virtual time"),
                    rep,
                );
            }
        }
    }
}

/// Known finding (known_findings.txt): a call through `FfiChannel` that is refused synchronously (queue
/// full, range beyond the protocol limit) drops its promise, so the callback reports `Shutdown`
/// although the task is alive - C10 says "shutdown only when the task is gone". Reported once per
/// evidence object under a fixed signature; every observation is counted.
pub const FFI_REFUSED_SIG_FULL: &str = "ffi:refused_at_full_queue:callback=shutdown:task_alive";
pub const FFI_REFUSED_SIG_RANGE: &str = "ffi:refused_for_its_range:callback=shutdown:task_alive";
fn ffi_refused_reports_shutdown(ev: &mut Evidence, sig: &str, what: &str) {
    ev.count("ffi_refused_calls_reporting_shutdown_while_task_alive", 1);
    if !ev.violations.iter().any(|v| v.sig == sig) {
        ev.violation(sig, format!("FfiChannel call refused ({what}) while the task is alive: the call returns an error and the callback reports Shutdown"), json!({"known_finding": true}));
        // (violation() counted an observation; the dedicated counter above is the exact one)
    }
}

fn ev_name(e: &Ev) -> &'static str {
    match e {
        Ev::Submit { style, .. } => match style {
            Style::Future => "submit_future",
            Style::Callback => "submit_callback",
            Style::Ffi => "submit_ffi",
        },
        Ev::ReplyMatch => "reply_match",
        Ev::ReplyStale => "reply_stale",
        Ev::ReplyWrongFn => "reply_wrong_function",
        Ev::ReplyException => "reply_exception",
        Ev::ReplyPartial => "reply_partial",
        Ev::GarbageHeader => "garbage_header",
        Ev::ReadErr => "read_error",
        Ev::Eof => "eof",
        Ev::WriteErrNext => "write_error",
        Ev::Enable => "enable",
        Ev::Disable => "disable",
        Ev::SetDecode => "set_decode",
        Ev::Shutdown => "shutdown",
        Ev::CloneHandle => "clone_handle",
        Ev::DropHandle(_) => "drop_handle",
        Ev::AbortTask => "abort_task",
        Ev::Advance(_) => "advance",
    }
}

pub fn run(args: &Args) -> i32 {
    let started = Instant::now();
    let seed = args.seed;
    if let Some(path) = &args.replay {
        let doc: serde_json::Value =
            serde_json::from_str(&std::fs::read_to_string(path).unwrap_or_default()).unwrap_or(json!({}));
        let mut ev = Evidence::new();
        if let Some(n) = doc["case"]["n"].as_u64() {
            run_script(doc["seed"].as_u64().unwrap_or(1), n, &mut ev);
        }
        for v in &ev.violations {
            println!("replayed violation: sig={} :: {}", v.sig, v.what);
        }
        if ev.violations.is_empty() {
            println!("replay: no violation reproduced");
            return EXIT_OK;
        }
        println!("VIOLATION property=C10 replay={path}");
        return EXIT_VIOLATION;
    }
    let scripts = args.tier.pick(400_000u64, 12_000_000);
    let mut ev = Evidence::new();
    for p in parallel(args.jobs, scripts, Evidence::new, |n, ev| run_script(seed, n, ev)) {
        ev.merge(p);
    }
    for p in parallel(args.jobs, args.tier.pick(6_000u64, 150_000), Evidence::new, |n, ev| run_peer_stops_reading(seed, n, ev)) {
        ev.merge(p);
    }
    let bp = args.tier.pick(40_000u64, 1_000_000);
    for p in parallel(args.jobs, bp, Evidence::new, |n, ev| run_backpressure(seed, n, ev)) {
        ev.merge(p);
    }
    // real schedules: the production TCP client task under multi-thread stress (net engine)
    {
        let exe = std::env::current_exe().ok().and_then(|p| p.parent().map(|d| d.join("vnet")));
        let out = verif_root().join("out").join(format!("c10net-{}.json", std::process::id()));
        let _ = std::fs::create_dir_all(verif_root().join("out"));
        match exe {
            Some(exe) if exe.exists() => {
                let st = std::process::Command::new(&exe)
                    .args(["c10net", "--tier", args.tier.name(), "--seed", &(args.seed as i64).to_string(), "--out"])
                    .arg(&out)
                    .stdout(std::process::Stdio::null())
                    .status();
                match (st, std::fs::read_to_string(&out).ok().and_then(|t| serde_json::from_str::<serde_json::Value>(&t).ok())) {
                    (Ok(s), Some(v)) if s.success() => ev.merge(Evidence::from_json(&v)),
                    _ => ev.inconclusive("the net engine did not deliver the stress part of the C10 evidence"),
                }
                let _ = std::fs::remove_file(&out);
            }
            _ => ev.inconclusive("vnet binary not found next to vsim"),
        }
    }
    // the serial client's error for requests submitted while a lost port is being re-opened (pty)
    crate::util::merge_net_leg(&mut ev, args, "c10serial");
    let meta = Meta {
        property_id: "C10",
        level: "exploration",
        rule: "one evaluation = one random event script (5-40 events over submit via Channel/CallbackSession/FfiChannel on any handle, matching/stale/wrong-function/exception/partial replies, garbage header, read error, EOF, write error, enable, disable, set-decode, shutdown, clone/drop handle, abort task, advance virtual time around the deadlines; queue sizes 1-16; refused/accepted connections) driven against the production client loop; each event is run to quiescence, then time is advanced past every deadline, all handles dropped and the task joined. Oracle: per request exactly one completion and a result class inside the set a sequential reference of the stated client semantics allows. distinct = (api, result class); reference (state x event) pairs visited are reported".into(),
        assumptions: vec![
            "outer connect/wait loop is composed from hooked primitives in the order of TcpChannelTask::run_inner (harness code); the real task is exercised in C13/C14".into(),
            "event scripts never make a blocking sender wait on a full queue; that is the back-pressure leg (2-41 concurrent submitters on queues of 1-4 slots, peer answers everything: every blocking sender must be served Ok, only FfiChannel may refuse)".into(),
            "a request queued at the exact instant a wait elapses may be failed with no-connection or served".into(),
        ],
        exhaustive: None,
        floors: vec![
            ("requests_tracked".into(), args.tier.pick(1_500_000, 40_000_000)),
            ("distinct_reference_state_x_event_pairs".into(), 0),
            ("net_requests".into(), args.tier.pick(20_000, 700_000)),
            ("backpressure_sessions_exceeding_queue".into(), args.tier.pick(20_000, 500_000)),
        ],
        min_classes: 18,
    };
    finish(args, meta, ev, started)
}
