//! C04: the client accepts only the genuine matching reply and returns exactly its data.

use crate::client_run::*;
use crate::io::{sim_io, In, Seq};
use crate::util::{decode_level, parallel};
use serde_json::json;
use std::sync::{Arc, Mutex};
use std::time::{Duration, Instant};
use vcommon::model::*;
use vcommon::report::*;
use vcommon::rng::Rng;

fn gen_valid_req(rng: &mut Rng) -> ClientReq {
    match rng.below(8) {
        k @ 0..=3 => {
            let kind = [Kind::ReadCoils, Kind::ReadDiscrete, Kind::ReadHolding, Kind::ReadInput][k as usize];
            let limit = kind.limit() as u16;
            let count = match rng.below(8) {
                0 => 1,
                1 => limit,
                2 => limit - 1,
                3 => *rng.pick(&[7u16, 8, 9, 15, 16, 17]),
                _ => 1 + rng.below(limit as u64) as u16,
            }
            .min(limit);
            let max_start = 65536u32 - count as u32;
            let start = match rng.below(4) {
                0 => 0,
                1 => max_start as u16,
                _ => rng.below(max_start as u64 + 1) as u16,
            };
            ClientReq::Read { kind, start, count }
        }
        4 => ClientReq::WriteSingleCoil {
            addr: rng.u16(),
            value: rng.chance(1, 2),
        },
        5 => ClientReq::WriteSingleReg {
            addr: rng.u16(),
            value: rng.u16(),
        },
        k => {
            let limit = if k == 6 { 1968usize } else { 123 };
            let n = match rng.below(4) {
                0 => 1,
                1 => limit,
                _ => 1 + rng.usize_below(limit),
            };
            let start = rng.below(65536 - n as u64 + 1) as u16;
            if k == 6 {
                ClientReq::WriteMultiCoils {
                    start,
                    values: (0..n).map(|i| i % 3 == 0).collect(),
                }
            } else {
                ClientReq::WriteMultiRegs {
                    start,
                    values: (0..n).map(|i| i as u16).collect(),
                }
            }
        }
    }
}

/// crafted reply PDU + tag of the variant
fn gen_reply(rng: &mut Rng, req: &ClientReq, variant: u64) -> (Vec<u8>, &'static str) {
    let genuine = genuine_reply(req, rng.next_u64());
    let fc = req.kind().fc();
    match variant % 12 {
        0 => (genuine, "genuine"),
        1 => {
            // every function byte with the genuine body
            let mut p = genuine;
            p[0] = rng.u8();
            (p, "function_byte")
        }
        2 => {
            // truncation
            let mut p = genuine;
            let n = rng.usize_below(p.len());
            p.truncate(n);
            (p, "truncated")
        }
        3 => {
            // extension
            let mut p = genuine;
            let room = 253 - p.len();
            if room > 0 {
                let cap = if rng.chance(1, 2) { 3 } else { room };
                let k = 1 + rng.usize_below(room.min(cap));
                p.extend(rng.bytes(k));
            }
            (p, "extended")
        }
        4 => {
            // byte count field variations (reads) / echo variations (writes)
            let mut p = genuine;
            if req.kind().is_read() {
                if p.len() > 1 {
                    p[1] = match rng.below(4) {
                        0 => p[1].wrapping_add(1),
                        1 => p[1].wrapping_sub(1),
                        2 => 0,
                        _ => rng.u8(),
                    };
                }
                (p, "byte_count_field")
            } else {
                // address +-1
                let a = (((p[1] as u16) << 8) | p[2] as u16).wrapping_add(if rng.chance(1, 2) { 1 } else { 0xFFFF });
                p[1] = (a >> 8) as u8;
                p[2] = a as u8;
                (p, "echo_address")
            }
        }
        5 => {
            let mut p = genuine;
            if req.kind().is_read() {
                // data of a different quantity
                let other = match req {
                    ClientReq::Read { kind, start, count } => {
                        let limit = kind.limit() as u16;
                        let c = if *count > 1 && rng.chance(1, 2) { count - 1 } else { (*count + 1).min(limit) };
                        ClientReq::Read { kind: *kind, start: *start, count: c }
                    }
                    _ => unreachable!(),
                };
                p = genuine_reply(&other, rng.next_u64());
                (p, "other_quantity")
            } else {
                // value / quantity bit flips
                let bit = rng.usize_below(16);
                p[3 + bit / 8] ^= 1 << (bit % 8);
                (p, "echo_value_bitflip")
            }
        }
        6 => {
            // undefined coil value in a write-single-coil echo, else random flip anywhere
            let mut p = genuine;
            if let ClientReq::WriteSingleCoil { .. } = req {
                let v = *rng.pick(&[0x00FFu16, 0xFF01, 0x0001, 0xFFFF]);
                p[3] = (v >> 8) as u8;
                p[4] = v as u8;
                (p, "undefined_coil_value")
            } else {
                let i = rng.usize_below(p.len());
                p[i] ^= 1 << rng.below(8);
                (p, "bitflip")
            }
        }
        7 => {
            // exception reply, all 256 codes, 0/1/2 trailing bytes
            let mut p = vec![fc | 0x80];
            match rng.below(6) {
                0 => (p, "exception_no_code"),
                1 => {
                    p.push(rng.u8());
                    let k = 1 + rng.usize_below(2);
                    p.extend(rng.bytes(k));
                    (p, "exception_trailing")
                }
                _ => {
                    p.push(rng.u8());
                    (p, "exception")
                }
            }
        }
        8 => {
            // exception for a different function
            let other = loop {
                let f = *rng.pick(&[1u8, 2, 3, 4, 5, 6, 15, 16, 7, 0x2B]);
                if f != fc {
                    break f;
                }
            };
            (vec![other | 0x80, 1 + rng.u8() % 11], "exception_other_function")
        }
        9 => {
            let k = rng.usize_below(254);
            (rng.bytes(k), "random")
        }
        10 => (vec![], "empty"),
        _ => {
            // the genuine reply of a different kind of request
            let other = gen_valid_req(rng);
            (genuine_reply(&other, rng.next_u64()), "other_kind_genuine")
        }
    }
}

fn run_case(seed: u64, n: u64, ev: &mut Evidence) {
    let mut rng = Rng::sub(seed, 104, n);
    let framing = if rng.chance(1, 3) { Framing::Rtu } else { Framing::Mbap };
    let req = gen_valid_req(&mut rng);
    let unit = rng.u8();
    let style = ALL_STYLES_API[rng.usize_below(3)];
    let variant = rng.below(12);
    let (reply_pdu, tag) = gen_reply(&mut rng, &req, variant);
    let decode = (rng.u8() % 4, rng.u8() % 3, rng.u8() % 3);
    let split = rng.chance(1, 3);

    // expectation
    let expect = match framing {
        Framing::Mbap => decode_response(&req, &reply_pdu),
        Framing::Rtu => {
            let bytes = rtu_frame(unit, &reply_pdu);
            match rtu_receive(RtuDir::Response, &bytes) {
                RtuRx::Frame { pdu, .. } => decode_response(&req, &pdu),
                RtuRx::Reject(_) | RtuRx::NeedMore => RespExpect::Error,
            }
        }
    };

    let req2 = req.clone();
    let reply2 = reply_pdu.clone();
    let result = run_paused(|| async move {
        let seq = Seq::default();
        let (io, handle) = sim_io(vec![], seq.clone());
        let asm = Arc::new(Mutex::new(RequestAssembler::new(framing)));
        let mut cut = if split && !reply2.is_empty() { Some(1 + (n as usize % reply2.len().max(1))) } else { None };
        handle.set_responder(Box::new(move |bytes, _| {
            let frames = asm.lock().unwrap().feed(bytes);
            let mut items = vec![];
            for f in frames {
                let bytes = match framing {
                    Framing::Mbap => {
                        let tx = ((f[0] as u16) << 8) | f[1] as u16;
                        mbap_frame(tx, f[6], &reply2)
                    }
                    Framing::Rtu => rtu_frame(f[0], &reply2),
                };
                match cut.take() {
                    Some(c) if c < bytes.len() => {
                        items.push(In::Chunk(bytes[..c].to_vec()));
                        items.push(In::Delay(Duration::from_millis(3)));
                        items.push(In::Chunk(bytes[c..].to_vec()));
                    }
                    _ => items.push(In::Chunk(bytes)),
                }
            }
            items
        }));
        let (channel, mut sim) = rodbus::verif::client(rframing(framing), 4, decode_level(decode), None);
        let task = tokio::spawn(async move { sim.run_session(Box::new(io)).await });
        channel.enable().await.unwrap();
        let start = tokio::time::Instant::now();
        let slot = Slot::new(start, seq.clone());
        let outcome = submit(&channel, style, unit, Duration::from_secs(1), &req2, slot.clone()).await;
        let _ = tokio::time::timeout(Duration::from_secs(5), slot.wait()).await;
        settle().await;
        drop(channel);
        let end = tokio::time::timeout(Duration::from_secs(3600), task).await;
        let completions = slot.completions.lock().unwrap().clone();
        (outcome, completions, end.is_ok())
    });

    ev.eval();
    let base = format!("client.{}.{}.{}", req.kind().name(), framing.name(), tag);
    let rep = json!({"n": n, "request": req.describe(), "unit": unit, "style": style.name(), "framing": framing.name(), "reply_variant": tag, "reply_pdu_hex": hex(&reply_pdu[..reply_pdu.len().min(64)]), "reply_pdu_len": reply_pdu.len(), "expected": format!("{:?}", short_expect(&expect))});
    let (outcome, completions, _ended) = match result {
        Err(p) => {
            ev.violation(
                format!("{base}.panic:{}", crate::util::panic_site(&p)),
                format!("client panicked handling reply variant {tag}: {p}"),
                rep,
            );
            return;
        }
        Ok(x) => x,
    };
    if outcome != CallOutcome::Accepted {
        ev.inconclusive(format!("valid request not accepted by the API: {outcome:?}"));
        return;
    }
    ev.count("replies_delivered", 1);
    if completions.len() != 1 {
        ev.violation(
            format!("{base}.completions={}", completions.len()),
            format!("request completed {} times", completions.len()),
            rep,
        );
        return;
    }
    let c = &completions[0];
    if !c.iter_ok {
        ev.violation(
            format!("{base}.iterator_length_bookkeeping"),
            "size_hint/len of the result iterator disagree with the items it yields".to_string(),
            rep.clone(),
        );
    }
    match result_matches(&expect, &req, &c.res) {
        Ok(preferred) => {
            if !preferred {
                ev.count("dont_care_outcomes_taken", 1);
            }
            ev.class(format!(
                "{}|{}|{}|{}|{}",
                req.kind().name(),
                framing.name(),
                tag,
                expect_class(&expect),
                style.name()
            ));
            if c.res.is_ok() {
                ev.count("ok_results_value_checked", 1);
            }
            if n < 4 {
                ev.sample(json!({"request": req.describe(), "framing": framing.name(), "api": style.name(), "reply_variant": tag, "reply_pdu_hex": hex(&reply_pdu[..reply_pdu.len().min(24)]), "expected": expect_class(&expect), "got": c.res.class()}));
            }
        }
        Err(why) => {
            ev.violation(
                format!("{base}.want={}.got={}", expect_class(&expect), c.res.class()),
                format!(
                    "{} answered with variant {tag} ({} bytes): {why}, got {}",
                    req.describe(),
                    reply_pdu.len(),
                    short_res(&c.res)
                ),
                rep,
            );
        }
    }
}

fn expect_class(e: &RespExpect) -> &'static str {
    match e {
        RespExpect::Bits(_) | RespExpect::Regs(_) => "values",
        RespExpect::Echo => "echo",
        RespExpect::Exception(_) => "exception",
        RespExpect::Error => "error",
        RespExpect::BitsOrError(_) | RespExpect::RegsOrError(_) => "values_or_error",
    }
}

fn short_expect(e: &RespExpect) -> String {
    match e {
        RespExpect::Bits(v) => format!("Bits(n={})", v.len()),
        RespExpect::Regs(v) => format!("Regs(n={})", v.len()),
        RespExpect::BitsOrError(v) => format!("BitsOrError(n={})", v.len()),
        RespExpect::RegsOrError(v) => format!("RegsOrError(n={})", v.len()),
        x => format!("{x:?}"),
    }
}

fn short_res(r: &Res) -> String {
    match r {
        Res::Bits(v) => format!("Ok(bits n={}, first={:?})", v.len(), v.first()),
        Res::Regs(v) => format!("Ok(regs n={}, first={:?})", v.len(), v.first()),
        x => format!("{x:?}"),
    }
}

pub fn run(args: &Args) -> i32 {
    let started = Instant::now();
    let cases = args.tier.pick(800_000u64, 20_000_000);
    let seed = args.seed;
    if let Some(path) = &args.replay {
        let doc: serde_json::Value =
            serde_json::from_str(&std::fs::read_to_string(path).unwrap_or_default()).unwrap_or(json!({}));
        let mut ev = Evidence::new();
        if let Some(n) = doc["case"]["n"].as_u64() {
            run_case(doc["seed"].as_u64().unwrap_or(1), n, &mut ev);
        }
        for v in &ev.violations {
            println!("replayed violation: sig={} :: {}", v.sig, v.what);
        }
        if ev.violations.is_empty() {
            println!("replay: no violation reproduced");
            return EXIT_OK;
        }
        println!("VIOLATION property=C04 replay={path}");
        return EXIT_VIOLATION;
    }
    let mut ev = Evidence::new();
    for p in parallel(args.jobs, cases, Evidence::new, |n, ev| run_case(seed, n, ev)) {
        ev.merge(p);
    }
    let meta = Meta {
        property_id: "C04",
        level: "exploration",
        rule: "one evaluation = one client request (eight kinds, lattice ranges) answered by a crafted reply PDU with the correct transaction id: genuine, every function byte, truncated/extended to 0..253 bytes, byte-count field variations, echo variations, exception replies with all codes and trailing bytes, replies of other requests, random; future- and callback-style result paths; MBAP and RTU. Result compared with the reference decoder. distinct = (kind, framing, reply variant, expected outcome class, api)".into(),
        assumptions: vec![
            "reference decoder in harness/vcommon/src/model.rs".into(),
            "byte-count field disagreeing with otherwise exact data: the values or a non-exception error are both accepted".into(),
            "RTU: a reply that the reference RTU receiver rejects or cannot delimit only has to fail with a non-exception error".into(),
        ],
        exhaustive: None,
        floors: vec![
            ("replies_delivered".into(), args.tier.pick(700_000, 15_000_000)),
            ("ok_results_value_checked".into(), args.tier.pick(50_000, 1_000_000)),
        ],
        min_classes: 100,
    };
    finish(args, meta, ev, started)
}
