//! C11: replies are matched to requests by transaction id; no cross-talk.

use crate::client_run::*;
use crate::io::{sim_io, In, Seq};
use crate::util::{decode_level, parallel};
use serde_json::json;
use std::collections::BTreeMap;
use std::sync::{Arc, Mutex};
use std::time::{Duration, Instant};
use vcommon::model::*;
use vcommon::report::*;
use vcommon::rng::Rng;

#[derive(Clone, Debug)]
enum Beh {
    Genuine,
    /// a frame whose id is behind by d, then the genuine one
    StaleThenGenuine(u16),
    /// a frame whose id is ahead by d, then the genuine one
    FutureThenGenuine(u16),
    /// the genuine reply twice
    Duplicate,
    /// the genuine reply and, in the same segment, a frame that already carries the NEXT transaction
    /// id (it arrives before the next request is transmitted: it must not become its result)
    GenuineThenNextInOneRead,
    /// only a stale frame: the request must time out
    StaleOnly(u16),
    Silent,
    /// the genuine reply, but only after the deadline
    Late,
}

#[derive(Clone, Debug)]
struct Plan {
    count: u16,
    timeout_ms: u64,
    beh: Beh,
    /// wait for all earlier requests and inject unsolicited frames while idle
    gap: bool,
}

#[derive(Clone, Debug)]
struct Sent {
    serial: u32,
    tx: u16,
    matching: bool,
    /// inbound stream offset one past this reply's last byte
    end_off: u64,
    /// number of registers in the payload
    count: u16,
}

fn reply_pdu(count: u16, serial: u32) -> Vec<u8> {
    let mut pdu = vec![3u8, (2 * count) as u8];
    pdu.extend_from_slice(&((serial >> 16) as u16).to_be_bytes());
    pdu.extend_from_slice(&(serial as u16).to_be_bytes());
    for i in 2..count {
        pdu.extend_from_slice(&(i ^ 0x5A5A).to_be_bytes());
    }
    pdu
}

fn serial_of(vals: &[(u16, u16)]) -> Option<u32> {
    if vals.len() < 2 {
        return None;
    }
    Some(((vals[0].1 as u32) << 16) | vals[1].1 as u32)
}

struct Peer {
    asm: RequestAssembler,
    plans: Vec<Plan>,
    serial: u32,
    /// inbound bytes handed to the transport so far
    pushed: u64,
    /// request start address -> replies sent for it
    sent: BTreeMap<u16, Vec<Sent>>,
    /// every frame handed to the transport, in stream order
    all: Vec<Sent>,
    /// (tx, start, seq placeholder) of every request frame seen, in order
    frames: Vec<(u16, u16, u16)>,
}

fn run_session(seed: u64, n: u64, long: bool, ev: &mut Evidence) {
    let mut rng = Rng::sub(seed, 111, n);
    let nreq = if long { 70_000 } else { 1 + rng.usize_below(200) };
    let style = if long || rng.chance(2, 3) { Style::Callback } else { Style::Future };
    let decode = if long { (0, 0, 0) } else { (rng.u8() % 4, rng.u8() % 3, rng.u8() % 3) };
    let queue = *rng.pick(&[1usize, 2, 16, 64]);
    let plans: Vec<Plan> = (0..nreq)
        .map(|_| {
            let beh = if long {
                Beh::Genuine
            } else {
                match rng.below(14) {
                    0 => Beh::StaleThenGenuine(1),
                    1 => Beh::StaleThenGenuine(rng.range(1, 65535) as u16),
                    2 => Beh::FutureThenGenuine(rng.range(1, 65535) as u16),
                    3 => Beh::FutureThenGenuine(1),
                    4 => Beh::Duplicate,
                    9 => Beh::GenuineThenNextInOneRead,
                    5 => Beh::StaleOnly(*rng.pick(&[1u16, 256, 0x8000, 65535])),
                    6 => Beh::Silent,
                    7 => Beh::Late,
                    8 => Beh::StaleThenGenuine(256), // same low byte
                    _ => Beh::Genuine,
                }
            };
            Plan {
                count: 2 + rng.below(3) as u16,
                timeout_ms: *rng.pick(&[5u64, 20, 100, 1000]),
                beh,
                gap: !long && rng.chance(1, 6),
            }
        })
        .collect();

    let plans2 = plans.clone();
    // 0 = nothing, 1 = set_decode_level, 2 = (redundant) enable before request k
    // (callback style only: there the command is queued by the call itself, so submission order is defined)
    let settings: Vec<u8> = (0..nreq).map(|_| if long || style != Style::Callback { 0 } else { [0u8, 0, 0, 0, 0, 0, 1, 2][rng.usize_below(8)] }).collect();
    let n_settings = settings.iter().filter(|x| **x != 0).count() as u64;
    let settings_rep = settings.clone();
    let result = run_paused(|| async move {
        let seq = Seq::default();
        let (io, handle) = sim_io(vec![], seq.clone());
        let peer = Arc::new(Mutex::new(Peer {
            asm: RequestAssembler::new(Framing::Mbap),
            plans: plans2.clone(),
            serial: 1,
            pushed: 0,
            sent: BTreeMap::new(),
            all: vec![],
            frames: vec![],
        }));
        let p2 = peer.clone();
        handle.set_responder(Box::new(move |bytes, _| {
            let mut p = p2.lock().unwrap();
            let frames = p.asm.feed(bytes);
            let mut items = vec![];
            for f in frames {
                if f.len() < 12 {
                    continue;
                }
                let tx = ((f[0] as u16) << 8) | f[1] as u16;
                let unit = f[6];
                let start = ((f[8] as u16) << 8) | f[9] as u16;
                let count = ((f[10] as u16) << 8) | f[11] as u16;
                p.frames.push((tx, start, count));
                let plan = match p.plans.get(start as usize) {
                    Some(x) => x.clone(),
                    None => continue,
                };
                let send = |p: &mut Peer, items: &mut Vec<In>, txu: u16, _late: bool| {
                    let serial = p.serial;
                    p.serial += 1;
                    let bytes = mbap_frame(txu, unit, &reply_pdu(plan.count, serial));
                    p.pushed += bytes.len() as u64;
                    let rec = Sent {
                        serial,
                        tx: txu,
                        matching: txu == tx,
                        end_off: p.pushed,
                        count: plan.count,
                    };
                    p.all.push(rec.clone());
                    p.sent.entry(start).or_default().push(rec);
                    items.push(In::Chunk(bytes));
                };
                match plan.beh {
                    Beh::Genuine => send(&mut p, &mut items, tx, false),
                    Beh::StaleThenGenuine(d) => {
                        send(&mut p, &mut items, tx.wrapping_sub(d), false);
                        send(&mut p, &mut items, tx, false);
                    }
                    Beh::FutureThenGenuine(d) => {
                        send(&mut p, &mut items, tx.wrapping_add(d), false);
                        send(&mut p, &mut items, tx, false);
                    }
                    Beh::Duplicate => {
                        send(&mut p, &mut items, tx, false);
                        send(&mut p, &mut items, tx, false);
                    }
                    Beh::GenuineThenNextInOneRead => {
                        send(&mut p, &mut items, tx, false);
                        send(&mut p, &mut items, tx.wrapping_add(1), false);
                        // one segment: the client reads both frames with one read
                        if let (Some(In::Chunk(b)), true) = (items.pop(), items.len() >= 1) {
                            if let Some(In::Chunk(a)) = items.last_mut() {
                                a.extend(b);
                            }
                        }
                    }
                    Beh::StaleOnly(d) => send(&mut p, &mut items, tx.wrapping_sub(d), false),
                    Beh::Silent => {}
                    Beh::Late => {
                        items.push(In::Delay(Duration::from_millis(plan.timeout_ms + 2)));
                        send(&mut p, &mut items, tx, true);
                    }
                }
            }
            items
        }));
        let (channel, mut sim) =
            rodbus::verif::client(rodbus::verif::Framing::Mbap, queue, decode_level(decode), None);
        let task = tokio::spawn(async move { sim.run_session(Box::new(io)).await });
        channel.enable().await.unwrap();
        let start = tokio::time::Instant::now();
        let slots: Vec<Arc<Slot>> = (0..plans2.len()).map(|_| Slot::new(start, seq.clone())).collect();
        let mut idle_injected: Vec<(usize, u16, u32)> = vec![];
        for (k, plan) in plans2.iter().enumerate() {
            if plan.gap && k > 0 {
                for s in &slots[..k] {
                    let _ = tokio::time::timeout(Duration::from_secs(7200), s.wait()).await;
                }
                settle().await;
                // unsolicited frame while idle; give it the id the NEXT request will carry
                let next_tx = peer.lock().unwrap().frames.last().map(|f| f.0.wrapping_add(1)).unwrap_or(0);
                let bytes;
                let serial = {
                    let mut p = peer.lock().unwrap();
                    let s = p.serial;
                    p.serial += 1;
                    bytes = mbap_frame(next_tx, 1, &reply_pdu(plan.count, s));
                    p.pushed += bytes.len() as u64;
                    let end_off = p.pushed;
                    p.all.push(Sent {
                        serial: s,
                        tx: next_tx,
                        matching: false,
                        end_off,
                        count: plan.count,
                    });
                    s
                };
                handle.push(vec![In::Chunk(bytes)]);
                idle_injected.push((k, next_tx, serial));
                // the frame counts as "arrived while idle" only once the client has read it:
                // earlier late replies may still be in flight in front of it
                let target = peer.lock().unwrap().pushed;
                for _ in 0..20_000 {
                    settle().await;
                    if handle.with(|s| s.bytes_delivered) >= target {
                        break;
                    }
                    tokio::time::sleep(Duration::from_millis(1)).await;
                }
                settle().await;
            }
            // commands that are not requests travel through the same queue: they must not consume ids
            if settings[k] == 1 {
                let _ = channel.set_decode_level(decode_level(decode)).await;
            } else if settings[k] == 2 {
                let _ = channel.enable().await;
            }
            let req = ClientReq::Read {
                kind: Kind::ReadHolding,
                start: (k % 60_000) as u16,
                count: plan.count,
            };
            let _ = submit(
                &channel,
                style,
                1,
                Duration::from_millis(plan.timeout_ms),
                &req,
                slots[k].clone(),
            )
            .await;
        }
        for s in &slots {
            let _ = tokio::time::timeout(Duration::from_secs(7200), s.wait()).await;
        }
        settle().await;
        drop(channel);
        let _ = tokio::time::timeout(Duration::from_secs(3600), task).await;
        let comps: Vec<Vec<Completion>> = slots.iter().map(|s| s.completions.lock().unwrap().clone()).collect();
        let out = handle.out_records();
        let deliveries = handle.with(|s| s.deliveries.clone());
        let p = peer.lock().unwrap();
        (comps, out, p.frames.clone(), p.all.clone(), idle_injected, deliveries)
    });

    ev.eval();
    let rep = |what: &str| json!({"n": n, "long": long, "what": what});
    let (comps, out, frames, sent, idle, deliveries) = match result {
        Err(p) => {
            ev.violation(
                format!("client_panic:{}", crate::util::panic_site(&p)),
                format!("client panicked: {p}"),
                rep("panic"),
            );
            return;
        }
        Ok(x) => x,
    };
    ev.count("requests", plans.len() as u64);
    ev.count("setting_commands_interleaved", n_settings);
    ev.count("idle_frames_injected", idle.len() as u64);

    // 1. order and uniqueness of transmitted requests
    if frames.len() != plans.len() {
        ev.violation(
            format!("frames_transmitted={}_for_{}_requests", if frames.len() > plans.len() { "more" } else { "fewer" }, "n"),
            format!("{} request frames transmitted for {} submitted requests", frames.len(), plans.len()),
            rep("frame count"),
        );
        return;
    }
    for (k, f) in frames.iter().enumerate() {
        if f.1 as usize != k % 60_000 {
            ev.violation(
                "requests_not_in_submission_order",
                format!("frame #{k} carries the request submitted as #{} (style {}, queue {queue}, settings around: {:?}, plan {:?})", f.1, style.name(), &settings_rep[k.saturating_sub(2)..(k + 3).min(settings_rep.len())], plans.get(k)),
                rep("order"),
            );
            return;
        }
    }
    // 2. id arithmetic
    for w in frames.windows(2) {
        let d = w[1].0.wrapping_sub(w[0].0);
        if d != 1 {
            ev.violation(
                format!("txid_step={d}"),
                format!("consecutive requests carried transaction ids {} and {}", w[0].0, w[1].0),
                rep("txid"),
            );
            return;
        }
    }
    if frames.len() > 65536 {
        ev.count("txid_wraps_observed", (frames.len() / 65536) as u64);
    }
    // 3. one outstanding (callback style: completion is logged inside the client task)
    if style == Style::Callback {
        // seq of the last byte of each frame
        let mut frame_seq = vec![];
        let mut asm = RequestAssembler::new(Framing::Mbap);
        for r in &out {
            for _ in asm.feed(&r.bytes) {
                frame_seq.push(r.seq);
            }
        }
        for k in 1..frame_seq.len().min(comps.len()) {
            if let Some(c) = comps[k - 1].first() {
                if frame_seq[k] < c.seq {
                    ev.violation(
                        "second_request_transmitted_while_first_outstanding",
                        format!("request #{k} was written before request #{} completed", k - 1),
                        rep("one outstanding"),
                    );
                    return;
                }
            }
        }
        ev.count("one_outstanding_checks", frame_seq.len() as u64);
    }
    // virtual instant at which the inbound byte at `off` (exclusive end) had been delivered
    // (seq, instant) at which the inbound byte before `off` had been delivered
    let delivered = |off: u64| -> Option<(u64, Duration)> {
        let i = deliveries.partition_point(|d| d.1 < off);
        deliveries.get(i).map(|d| (d.0, d.2))
    };
    // virtual instant of the write of each request frame
    let mut frame_at = vec![];
    let mut frame_wseq = vec![];
    {
        let mut asm = RequestAssembler::new(Framing::Mbap);
        for r in &out {
            for _ in asm.feed(&r.bytes) {
                frame_at.push(r.at);
                frame_wseq.push(r.seq);
            }
        }
    }
    if std::env::var("VERIF_DEBUG").is_ok() {
        for (k, plan) in plans.iter().enumerate() {
            eprintln!("#{k} {:?} gap={} to={} tx={:?} at={:?} res={:?}", plan.beh, plan.gap, plan.timeout_ms, frames.get(k), frame_at.get(k), comps[k].first().map(|c| (c.at, format!("{:?}", c.res))));
        }
        eprintln!("idle={idle:?} style={style:?} queue={queue}");
    }
    // 4. results: only the matching reply delivered in time can be the result
    for (k, plan) in plans.iter().enumerate() {
        let cs = &comps[k];
        if cs.len() != 1 {
            ev.violation(
                format!("completions={}", cs.len()),
                format!("request #{k} completed {} times", cs.len()),
                rep("completion count"),
            );
            continue;
        }
        let tx_k = frames[k].0;
        // A frame can be the result of request k only if it carries k's id and is completely
        // delivered after k was written and strictly before k's deadline. The first such
        // frame in stream order is the reply.
        let deadline = frame_at[k] + Duration::from_millis(plan.timeout_ms);
        let mut tie = false;
        let mut expected_ok: Option<u32> = None;
        let mut expected_bad_response = false;
        for f in sent.iter() {
            if f.tx != tx_k {
                continue;
            }
            if let Some((dseq, dat)) = delivered(f.end_off) {
                if dseq < frame_wseq[k] {
                    continue; // arrived before the request existed (idle / earlier request)
                }
                if dat < deadline {
                    if f.count == plan.count {
                        expected_ok = Some(f.serial);
                    } else {
                        // matching id but a payload of the wrong size: a bad response (C04)
                        expected_bad_response = true;
                    }
                    break;
                }
                if dat == deadline {
                    tie = true;
                }
            }
        }
        if tie {
            ev.count("deadline_ties_skipped", 1);
            continue;
        }
        let beh = format!("{:?}", plan.beh);
        let beh = beh.split('(').next().unwrap().to_string();
        match (&cs[0].res, expected_ok) {
            (Res::Regs(v), Some(s)) => {
                if serial_of(v) != Some(s) {
                    ev.violation(
                        format!("cross_talk:{beh}"),
                        format!("request #{k} (tx {tx_k}) returned payload serial {:?}, the matching reply carried {s}", serial_of(v)),
                        rep("cross talk"),
                    );
                } else {
                    ev.class(format!("{beh}|ok|{}|gap={}", style.name(), plan.gap));
                    ev.count("results_identified_by_unique_payload", 1);
                }
            }
            (Res::Regs(v), None) => {
                ev.violation(
                    format!("accepted_non_matching_reply:{beh}"),
                    format!("request #{k} (tx {tx_k}) returned data (serial {:?}) although no matching reply was delivered in time", serial_of(v)),
                    rep("accepted wrong reply"),
                );
            }
            (Res::Err(rodbus::RequestError::BadResponse(_)), None) if expected_bad_response => {
                ev.class(format!("{beh}|matching_id_wrong_size_rejected|{}|gap={}", style.name(), plan.gap));
            }
            (Res::Err(rodbus::RequestError::ResponseTimeout), None) if !expected_bad_response => {
                ev.class(format!("{beh}|timeout|{}|gap={}", style.name(), plan.gap));
            }
            (other, exp) => {
                ev.violation(
                    format!("unexpected_result:{beh}:{}", other.class()),
                    format!("request #{k}: got {other:?}, expected {}", if exp.is_some() { "Ok" } else { "timeout" }),
                    rep("unexpected result"),
                );
            }
        }
    }
    // idle frames must never have become a result: covered by the unique-serial check above
    if n < 40 && !long {
        ev.sample(json!({"requests": plans.len(), "style": style.name(), "queue": queue, "first_plans": plans.iter().take(5).map(|p| format!("{:?}", p.beh)).collect::<Vec<_>>(), "first_tx_ids": frames.iter().take(5).map(|f| f.0).collect::<Vec<_>>(), "idle_frames": idle.len()}));
    }
    if long {
        ev.class("long_session_70000_requests|txid_wrap");
        ev.sample(json!({"long_session_requests": plans.len(), "first_tx": frames.first().map(|f| f.0), "last_tx": frames.last().map(|f| f.0)}));
    }
}

/// One client loop over several connections in a row (the connection is lost - EOF, read error,
/// or a reply that never comes and a dropped connection - and a new one is set up): the id keeps
/// advancing by one per transmitted request across connections - "consecutive requests never share an
/// id" - whatever ended the previous connection.
fn run_reconnect_session(seed: u64, n: u64, ev: &mut Evidence) {
    let mut rng = Rng::sub(seed, 1112, n);
    let conns = 2 + rng.usize_below(3);
    // per connection: how many requests are answered before the connection ends, and how it ends
    let plan: Vec<(usize, u8)> = (0..conns).map(|_| (rng.usize_below(4), (rng.below(3)) as u8)).collect();
    let plan2 = plan.clone();
    let result = run_paused(|| async move {
        let seq = Seq::default();
        let (channel, mut sim) = rodbus::verif::client(rodbus::verif::Framing::Mbap, 16, decode_level((0, 0, 0)), None);
        channel.enable().await.unwrap();
        let mut ids: Vec<Vec<u16>> = vec![];
        let mut ch = channel;
        for (answered, ending) in plan2.iter().copied() {
            let (io, handle) = sim_io(vec![], seq.clone());
            let seen = Arc::new(Mutex::new((RequestAssembler::new(Framing::Mbap), vec![] as Vec<u16>)));
            let s2 = seen.clone();
            handle.set_responder(Box::new(move |bytes, _| {
                let mut g = s2.lock().unwrap();
                let frames = g.0.feed(bytes);
                let mut items = vec![];
                for f in frames {
                    if f.len() < 12 {
                        continue;
                    }
                    let tx = ((f[0] as u16) << 8) | f[1] as u16;
                    g.1.push(tx);
                    if g.1.len() <= answered {
                        items.push(In::Chunk(mbap_frame(tx, f[6], &[3, 2, 0, 7])));
                    } else {
                        // this request ends the connection
                        match ending {
                            0 => items.push(In::Eof),
                            1 => items.push(In::Err(std::io::ErrorKind::ConnectionReset)),
                            _ => {
                                // a frame that breaks the framing (protocol id 1)
                                items.push(In::Chunk(vec![0, 0, 0, 1, 0, 2, 1, 3]));
                            }
                        }
                    }
                }
                items
            }));
            let session = tokio::spawn(async move {
                let end = sim.run_session(Box::new(io)).await;
                (sim, end)
            });
            let start = tokio::time::Instant::now();
            for _ in 0..(answered + 1) {
                let slot = Slot::new(start, seq.clone());
                let req = ClientReq::Read { kind: Kind::ReadHolding, start: 0, count: 1 };
                let _ = submit(&ch, Style::Future, 1, Duration::from_millis(200), &req, slot.clone()).await;
                let _ = tokio::time::timeout(Duration::from_secs(5), slot.wait()).await;
            }
            let Ok(Ok((s, _end))) = tokio::time::timeout(Duration::from_secs(10), session).await else {
                return Err("the session did not end after its connection was lost".to_string());
            };
            sim = s;
            ids.push(seen.lock().unwrap().1.clone());
            let _ = &mut ch;
        }
        Ok(ids)
    });
    ev.eval();
    ev.count("reconnect_sessions", 1);
    let rep = json!({"reconnect": true, "n": n, "plan": plan.iter().map(|(a, e)| format!("{a} answered, then {}", ["eof", "reset", "bad frame"][*e as usize])).collect::<Vec<_>>()});
    match result {
        Err(p) => ev.violation(format!("reconnect:panic:{}", crate::util::panic_site(&p)), format!("client panicked: {p}"), rep),
        Ok(Err(e)) => ev.violation("reconnect:session_did_not_end".to_string(), e, rep),
        Ok(Ok(ids)) => {
            let flat: Vec<u16> = ids.iter().flatten().copied().collect();
            ev.count("requests", flat.len() as u64);
            ev.count("connections_in_reconnect_sessions", ids.len() as u64);
            for (c, e) in plan.iter().map(|(_, e)| e).enumerate() {
                ev.class(format!("reconnect|connection_ended_by={}|position={}", ["eof", "reset", "bad_frame"][*e as usize], c.min(2)));
            }
            for w in flat.windows(2) {
                if w[1] != w[0].wrapping_add(1) {
                    ev.violation(
                        format!("reconnect:id_step={}", w[1].wrapping_sub(w[0])),
                        format!("transaction ids transmitted over {} consecutive connections of one channel: {ids:?} - {} is followed by {}", ids.len(), w[0], w[1]),
                        rep.clone(),
                    );
                    break;
                }
            }
        }
    }
}

pub fn run(args: &Args) -> i32 {
    let started = Instant::now();
    let sessions = args.tier.pick(25_000u64, 800_000);
    let long_sessions = args.tier.pick(2u64, 32);
    let seed = args.seed;
    if let Some(path) = &args.replay {
        let doc: serde_json::Value =
            serde_json::from_str(&std::fs::read_to_string(path).unwrap_or_default()).unwrap_or(json!({}));
        let mut ev = Evidence::new();
        if let Some(n) = doc["case"]["n"].as_u64() {
            run_session(doc["seed"].as_u64().unwrap_or(1), n, doc["case"]["long"].as_bool().unwrap_or(false), &mut ev);
        }
        for v in &ev.violations {
            println!("replayed violation: sig={} :: {}", v.sig, v.what);
        }
        if ev.violations.is_empty() {
            println!("replay: no violation reproduced");
            return EXIT_OK;
        }
        println!("VIOLATION property=C11 replay={path}");
        return EXIT_VIOLATION;
    }
    let mut ev = Evidence::new();
    let total = sessions + long_sessions;
    for p in parallel(args.jobs, total, Evidence::new, |n, ev| {
        if n < long_sessions {
            run_session(seed, 1_000_000 + n, true, ev)
        } else if n % 16 == 7 {
            run_reconnect_session(seed, n, ev)
        } else {
            run_session(seed, n, false, ev)
        }
    }) {
        ev.merge(p);
    }
    let meta = Meta {
        property_id: "C11",
        level: "exploration",
        rule: "one evaluation = one MBAP client session of 1-200 queued reads (plus sessions of 70000 requests crossing the id wrap) against a peer whose every reply carries a unique payload serial; per request the peer sends genuine / stale-by-d / future-by-d / duplicate / only-stale / nothing / late replies, and unsolicited frames carrying the NEXT id are injected while idle. Checked: submission order, id step = 1, next write after previous completion, result payload = the matching in-time reply or timeout. distinct = (peer behaviour, outcome, api, idle-gap)".into(),
        assumptions: vec![
            "responder and submitter run on the same paused single-thread runtime; completions are logged inside the client task (callback style) so ordering against writes is exact".into(),
        ],
        exhaustive: None,
        floors: vec![
            ("requests".into(), args.tier.pick(1_500_000, 50_000_000)),
            ("results_identified_by_unique_payload".into(), args.tier.pick(800_000, 25_000_000)),
            ("txid_wraps_observed".into(), 1),
            ("reconnect_sessions".into(), args.tier.pick(1_000, 30_000)),
        ],
        min_classes: 20,
    };
    finish(args, meta, ev, started)
}
