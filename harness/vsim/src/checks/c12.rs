//! C12: response timeouts fire exactly at the deadline; N in a row drop the connection.

use crate::client_run::*;
use crate::io::{sim_io, In, Seq};
use crate::util::{decode_level, parallel};
use serde_json::json;
use std::num::NonZeroUsize;
use std::sync::{Arc, Mutex};
use std::time::{Duration, Instant};
use vcommon::model::*;
use vcommon::report::*;
use vcommon::rng::Rng;

const MS: Duration = Duration::from_millis(1);

#[derive(Clone, Debug)]
enum Arrival {
    Never,
    /// whole reply at this offset from transmission
    At(Duration),
    /// first part at `.0`, rest at `.1`
    Split(Duration, Duration),
}

#[derive(Clone, Debug)]
struct Plan {
    timeout: Duration,
    arrival: Arrival,
    /// frames carrying a foreign transaction id delivered at these offsets (MBAP only); they
    /// must neither complete the request nor move its deadline
    stale_at: Vec<Duration>,
}

fn reply_pdu(serial: u32) -> Vec<u8> {
    let mut pdu = vec![3u8, 4];
    pdu.extend_from_slice(&((serial >> 16) as u16).to_be_bytes());
    pdu.extend_from_slice(&(serial as u16).to_be_bytes());
    pdu
}

struct Peer {
    asm: RequestAssembler,
    plans: Vec<Plan>,
    pushed: u64,
    /// per request index: (serial, end offset of the reply in the inbound stream)
    sent: Vec<Option<(u32, u64)>>,
    nframes: usize,
}

fn gen_plan(rng: &mut Rng) -> Plan {
    let timeout = match rng.below(12) {
        0 => Duration::from_millis(1),
        1 => Duration::from_millis(2),
        2 => Duration::from_micros(1500),
        3 => Duration::from_micros(999),
        4 => Duration::from_millis(5),
        5 => Duration::from_millis(50),
        6 => Duration::from_secs(1),
        7 => Duration::from_secs(60),
        8 => Duration::from_secs(3600),
        9 => Duration::ZERO,
        10 => Duration::from_nanos(1 + rng.below(5_000_000)),
        _ => Duration::from_millis(10),
    };
    let t = timeout;
    let arrival = match rng.below(12) {
        0 => Arrival::Never,
        1 => Arrival::At(Duration::ZERO),
        2 => Arrival::At(t.saturating_sub(MS)),
        3 => Arrival::At(t),
        4 => Arrival::At(t + MS),
        5 => Arrival::At(t / 2),
        6 => Arrival::Split(t.saturating_sub(MS), t + MS),
        7 => Arrival::Split(t.saturating_sub(2 * MS), t.saturating_sub(MS)),
        8 => Arrival::Split(Duration::ZERO, t),
        9 => Arrival::At(t + 5 * MS),
        10 => Arrival::At(t.saturating_sub(Duration::from_nanos(1))),
        _ => Arrival::At(Duration::from_nanos(rng.below(t.as_nanos().min(u64::MAX as u128) as u64 + 1))),
    };
    let mut stale_at = vec![];
    if rng.chance(1, 3) && timeout >= 2 * MS {
        let n = 1 + rng.below(3);
        for _ in 0..n {
            let frac = rng.range(1, 9);
            stale_at.push(Duration::from_nanos((timeout.as_nanos() as u64 / 10).saturating_mul(frac)));
        }
        stale_at.sort();
    }
    Plan { timeout, arrival, stale_at }
}

fn run_timing_session(seed: u64, n: u64, ev: &mut Evidence) {
    let mut rng = Rng::sub(seed, 112, n);
    let framing = if rng.chance(1, 4) { Framing::Rtu } else { Framing::Mbap };
    let nreq = 1 + rng.usize_below(16);
    let plans: Vec<Plan> = (0..nreq).map(|_| gen_plan(&mut rng)).collect();
    let style = ALL_STYLES_API[rng.usize_below(3)];
    let decode = (rng.u8() % 4, rng.u8() % 3, rng.u8() % 3);
    // one session in six writes through a slow peer (a few bytes per 1-4 ms): only when every timeout
    // leaves the write - which is bounded by the same timeout - plenty of room
    let slow_write = if rng.chance(1, 6) && plans.iter().all(|p| p.timeout >= Duration::from_millis(100)) { Some((3 + rng.usize_below(4), Duration::from_millis(1 + rng.below(4)))) } else { None };

    let plans2 = plans.clone();
    let result = run_paused(|| async move {
        let seq = Seq::default();
        let (io, handle) = sim_io(vec![], seq.clone());
        if let Some((bytes, stall)) = slow_write {
            // the peer takes the request slowly: the timeout still runs from the completed transmission
            handle.set_write_chunking(bytes, stall);
        }
        let peer = Arc::new(Mutex::new(Peer {
            asm: RequestAssembler::new(framing),
            plans: plans2.clone(),
            pushed: 0,
            sent: vec![None; plans2.len()],
            nframes: 0,
        }));
        let p2 = peer.clone();
        handle.set_responder(Box::new(move |bytes, _| {
            let mut p = p2.lock().unwrap();
            let frames = p.asm.feed(bytes);
            let mut items = vec![];
            for f in frames {
                let k = p.nframes;
                p.nframes += 1;
                let plan = match p.plans.get(k) {
                    Some(x) => x.clone(),
                    None => continue,
                };
                let serial = 1000 + k as u32;
                let bytes = match framing {
                    Framing::Mbap => {
                        let tx = ((f[0] as u16) << 8) | f[1] as u16;
                        mbap_frame(tx, f[6], &reply_pdu(serial))
                    }
                    Framing::Rtu => rtu_frame(f[0], &reply_pdu(serial)),
                };
                // timeline of (offset, bytes, is_last_byte_of_reply)
                let mut timeline: Vec<(Duration, Vec<u8>, bool)> = vec![];
                if framing == Framing::Mbap {
                    for (j, at) in plan.stale_at.iter().enumerate() {
                        let tx = (((f[0] as u16) << 8) | f[1] as u16).wrapping_sub(1 + j as u16);
                        timeline.push((*at, mbap_frame(tx, f[6], &reply_pdu(77_000 + k as u32)), false));
                    }
                }
                match plan.arrival {
                    Arrival::Never => {}
                    Arrival::At(d) => timeline.push((d, bytes.clone(), true)),
                    Arrival::Split(a, b) => {
                        let cut = 1 + (k % (bytes.len() - 1));
                        timeline.push((a, bytes[..cut].to_vec(), false));
                        timeline.push((b.max(a), bytes[cut..].to_vec(), true));
                    }
                }
                // a stale frame must not land in the middle of a split reply
                if matches!(plan.arrival, Arrival::Split(..)) {
                    if let Arrival::Split(a, b) = plan.arrival {
                        timeline.retain(|t| t.2 || t.0 <= a || t.0 > b || t.1.len() < 13 || false);
                        timeline.retain(|t| !(t.1.len() == 13 && t.0 > a && t.0 <= b));
                    }
                }
                timeline.sort_by_key(|t| t.0);
                let mut now = Duration::ZERO;
                for (at, b, last) in timeline {
                    items.push(In::Delay(at.saturating_sub(now)));
                    now = now.max(at);
                    p.pushed += b.len() as u64;
                    if last {
                        p.sent[k] = Some((serial, p.pushed));
                    }
                    items.push(In::Chunk(b));
                }
            }
            items
        }));
        let (channel, mut sim) = rodbus::verif::client(rframing(framing), 4, decode_level(decode), None);
        let task = tokio::spawn(async move { sim.run_session(Box::new(io)).await });
        channel.enable().await.unwrap();
        let start = tokio::time::Instant::now();
        let mut comps = vec![];
        for (k, plan) in plans2.iter().enumerate() {
            // let late traffic of earlier requests drain so that offsets are relative to this
            // request's own transmission
            let target = peer.lock().unwrap().pushed;
            for _ in 0..10_000 {
                if handle.with(|s| s.bytes_delivered) >= target {
                    break;
                }
                tokio::time::sleep(MS).await;
            }
            settle().await;
            let slot = Slot::new(start, seq.clone());
            let req = ClientReq::Read {
                kind: Kind::ReadHolding,
                start: k as u16,
                count: 2,
            };
            let _ = submit(&channel, style, 1, plan.timeout, &req, slot.clone()).await;
            let _ = tokio::time::timeout(plan.timeout + Duration::from_secs(10), slot.wait()).await;
            settle().await;
            let c = slot.completions.lock().unwrap().clone();
            comps.push(c);
        }
        let finished_early = task.is_finished();
        drop(channel);
        let end = tokio::time::timeout(Duration::from_secs(2 * 3600), task).await;
        let out = handle.out_records();
        let deliveries = handle.with(|s| s.deliveries.clone());
        let sent = peer.lock().unwrap().sent.clone();
        (comps, out, deliveries, sent, finished_early, end.ok().map(|r| r.ok()))
    });

    ev.eval();
    let rep = |k: usize, what: &str| json!({"n": n, "request": k, "what": what, "kind": "timing"});
    let (comps, out, deliveries, sent, finished_early, _end) = match result {
        Err(p) => {
            ev.violation(
                format!("client_panic:{}", crate::util::panic_site(&p)),
                format!("client panicked: {p}"),
                rep(0, "panic"),
            );
            return;
        }
        Ok(x) => x,
    };
    if finished_early {
        ev.violation(
            "session_ended_without_timeout_limit",
            "the session ended although no consecutive-timeout limit is configured and nothing failed".to_string(),
            rep(0, "session ended"),
        );
        return;
    }
    let mut frame_at = vec![];
    {
        let mut asm = RequestAssembler::new(framing);
        for r in &out {
            for _ in asm.feed(&r.bytes) {
                frame_at.push(r.at);
            }
        }
    }
    let delivered = |off: u64| -> Option<Duration> {
        let i = deliveries.partition_point(|d| d.1 < off);
        deliveries.get(i).map(|d| d.2)
    };
    if slow_write.is_some() {
        ev.count("slow_write_sessions", 1);
        ev.class(format!("{}|slow_write|{}", framing.name(), style.name()));
    }
    for (k, plan) in plans.iter().enumerate() {
        ev.count("requests", 1);
        let Some(t_tx) = frame_at.get(k).copied() else {
            ev.violation(
                "request_not_transmitted_after_timeout",
                format!("request #{k} was never transmitted (connection not usable after earlier outcome)"),
                rep(k, "not transmitted"),
            );
            return;
        };
        let deadline = t_tx + plan.timeout;
        // tokio timers have 1 ms resolution: the deadline timer and an arrival in the same
        // millisecond tick become ready together, so the effective deadline is the tick
        let eff_deadline = Duration::from_millis(deadline.as_nanos().div_ceil(1_000_000) as u64);
        if comps[k].len() != 1 {
            ev.violation(
                format!("completions={}", comps[k].len()),
                format!("request #{k} completed {} times", comps[k].len()),
                rep(k, "completion count"),
            );
            return;
        }
        let c = &comps[k][0];
        let t_c = sent[k].and_then(|(_, off)| delivered(off));
        let tclass = if plan.timeout < MS {
            "sub_ms"
        } else if plan.timeout <= 10 * MS {
            "ms"
        } else if plan.timeout <= Duration::from_secs(1) {
            "s"
        } else {
            "long"
        };
        let aclass = match (&plan.arrival, t_c) {
            (Arrival::Never, _) => "never".to_string(),
            (a, Some(t)) => format!(
                "{}_{}",
                if matches!(a, Arrival::Split(..)) { "split" } else { "whole" },
                if t < deadline { "before" } else if t <= eff_deadline { "at" } else { "after" }
            ),
            (_, None) => "undelivered".to_string(),
        };
        match t_c {
            Some(t) if t < deadline => {
                // complete valid reply strictly before the deadline: must succeed with its data
                match &c.res {
                    Res::Regs(v) if v.len() == 2 && (((v[0].1 as u32) << 16) | v[1].1 as u32) == 1000 + k as u32 => {
                        ev.class(format!("{}|{tclass}|{aclass}|ok|{}", framing.name(), style.name()));
                        ev.count("in_time_replies_accepted", 1);
                    }
                    other => ev.violation(
                        format!("timeout_although_reply_before_deadline:{tclass}:{aclass}:{}", other.class()),
                        format!("request #{k}: reply complete at {t:?}, deadline {deadline:?} (timeout {:?}), but result is {other:?}", plan.timeout),
                        rep(k, "early reply not accepted"),
                    ),
                }
            }
            Some(t) if t <= eff_deadline => {
                ev.count("deadline_ties_either_outcome_accepted", 1);
                ev.class(format!("{}|{tclass}|{aclass}|tie|{}", framing.name(), style.name()));
            }
            _ => {
                // no complete reply before the deadline: timeout, fired in [deadline, deadline+1ms]
                match &c.res {
                    Res::Err(rodbus::RequestError::ResponseTimeout) => {
                        if c.at < deadline || c.at > deadline + MS {
                            ev.violation(
                                format!("timeout_fired_{}:{tclass}", if c.at < deadline { "early" } else { "late" }),
                                format!("request #{k}: transmitted at {t_tx:?} with timeout {:?} (deadline {deadline:?}) but the timeout completed at {:?}", plan.timeout, c.at),
                                rep(k, "timeout instant"),
                            );
                        } else {
                            ev.class(format!("{}|{tclass}|{aclass}|timeout|{}", framing.name(), style.name()));
                            ev.count("timeouts_checked_against_deadline", 1);
                        }
                    }
                    other => ev.violation(
                        format!("no_timeout_although_no_reply_before_deadline:{tclass}:{aclass}:{}", other.class()),
                        format!("request #{k}: no complete reply before {deadline:?} (reply complete at {t_c:?}) but result is {other:?}"),
                        rep(k, "late reply accepted"),
                    ),
                }
            }
        }
    }
    if n < 3 {
        ev.sample(json!({"kind": "timing", "framing": framing.name(), "api": style.name(), "plans": plans.iter().take(4).map(|p| format!("{:?}", p)).collect::<Vec<_>>(), "tx_at": frame_at.iter().take(4).map(|d| format!("{d:?}")).collect::<Vec<_>>(), "results": comps.iter().take(4).map(|c| c.first().map(|c| (format!("{:?}", c.at), c.res.class()))).collect::<Vec<_>>()}));
    }
}

#[derive(Copy, Clone, Debug, PartialEq, Eq)]
enum Outcome {
    Timeout,
    Success,
    Exception,
    BadReply,
}

const OUTCOMES: [Outcome; 4] = [Outcome::Timeout, Outcome::Success, Outcome::Exception, Outcome::BadReply];

/// run one outcome sequence with limit `limit` (None = no limit)
fn run_limit_session(seq_outcomes: &[Outcome], limit: Option<usize>, framing: Framing, idx: u64, ev: &mut Evidence) {
    let outcomes = seq_outcomes.to_vec();
    let o2 = outcomes.clone();
    let result = run_paused(|| async move {
        let seq = Seq::default();
        let (io, handle) = sim_io(vec![], seq.clone());
        let asm = Arc::new(Mutex::new((RequestAssembler::new(framing), 0usize)));
        let o3 = o2.clone();
        handle.set_responder(Box::new(move |bytes, _| {
            let mut g = asm.lock().unwrap();
            let frames = g.0.feed(bytes);
            let mut items = vec![];
            for f in frames {
                let k = g.1;
                g.1 += 1;
                let pdu = match o3.get(k) {
                    Some(Outcome::Success) => reply_pdu(k as u32),
                    Some(Outcome::Exception) => vec![0x83, 0x02],
                    Some(Outcome::BadReply) => vec![0x04, 0x04, 0, 0, 0, 0],
                    _ => continue,
                };
                items.push(In::Chunk(match framing {
                    Framing::Mbap => mbap_frame(((f[0] as u16) << 8) | f[1] as u16, f[6], &pdu),
                    Framing::Rtu => rtu_frame(f[0], &pdu),
                }));
            }
            items
        }));
        let (channel, mut sim) = rodbus::verif::client(
            rframing(framing),
            4,
            decode_level((0, 0, 0)),
            limit.and_then(NonZeroUsize::new),
        );
        let task = tokio::spawn(async move { sim.run_session(Box::new(io)).await });
        channel.enable().await.unwrap();
        let start = tokio::time::Instant::now();
        let mut log = vec![];
        for k in 0..o2.len() {
            let slot = Slot::new(start, seq.clone());
            let req = ClientReq::Read {
                kind: Kind::ReadHolding,
                start: k as u16,
                count: 2,
            };
            let _ = submit(&channel, Style::Callback, 1, Duration::from_millis(10), &req, slot.clone()).await;
            let _ = tokio::time::timeout(Duration::from_secs(5), slot.wait()).await;
            settle().await;
            let res = slot.first().map(|c| c.res);
            let finished = task.is_finished();
            log.push((res, finished, handle.dropped()));
            if finished {
                break;
            }
        }
        let end = if task.is_finished() { Some(task.await) } else { drop(channel); tokio::time::timeout(Duration::from_secs(60), task).await.ok() };
        (log, end.and_then(|r| r.ok()))
    });
    ev.eval();
    let lim = limit.map(|x| x.to_string()).unwrap_or("none".into());
    let seqs: String = outcomes
        .iter()
        .map(|o| match o {
            Outcome::Timeout => 'T',
            Outcome::Success => 'S',
            Outcome::Exception => 'E',
            Outcome::BadReply => 'B',
        })
        .collect();
    let rep = json!({"kind": "limit", "sequence": seqs, "limit": lim, "framing": framing.name(), "idx": idx});
    let (log, end) = match result {
        Err(p) => {
            ev.violation(format!("client_panic:{}", crate::util::panic_site(&p)), format!("client panicked: {p}"), rep);
            return;
        }
        Ok(x) => x,
    };
    ev.count("limit_sequences", 1);
    let mut consecutive = 0usize;
    let mut ended_at: Option<usize> = None;
    for (k, o) in outcomes.iter().enumerate() {
        let Some((res, finished, dropped)) = log.get(k) else { break };
        // result class must be what the peer behaviour implies
        let ok = match (o, res) {
            (Outcome::Timeout, Some(Res::Err(rodbus::RequestError::ResponseTimeout))) => true,
            (Outcome::Success, Some(Res::Regs(_))) => true,
            (Outcome::Exception, Some(Res::Err(rodbus::RequestError::Exception(_)))) => true,
            (Outcome::BadReply, Some(Res::Err(rodbus::RequestError::BadResponse(_)))) => true,
            _ => false,
        };
        if !ok {
            ev.violation(
                format!("limit={lim}:request_after_{}_consecutive_timeouts_got_{}", consecutive, res.as_ref().map(|r| r.class()).unwrap_or("nothing".into())),
                format!("sequence {seqs} limit {lim}: request #{k} ({o:?}) completed with {res:?}"),
                rep.clone(),
            );
            return;
        }
        if *o == Outcome::Timeout {
            consecutive += 1;
        } else {
            consecutive = 0;
        }
        let must_end = limit.map(|l| consecutive >= l).unwrap_or(false);
        if must_end != *finished {
            ev.violation(
                format!(
                    "limit={lim}:{}_after_{}_consecutive_timeouts",
                    if *finished { "connection_dropped" } else { "connection_kept" },
                    consecutive
                ),
                format!("sequence {seqs} limit {lim}: after request #{k} there were {consecutive} consecutive timeouts; session ended={finished}, expected ended={must_end}"),
                rep.clone(),
            );
            return;
        }
        if *finished {
            if !*dropped {
                ev.violation(format!("limit={lim}:transport_not_closed"), "session ended but the transport was not dropped".to_string(), rep.clone());
            }
            ended_at = Some(k);
            break;
        }
    }
    if let Some(k) = ended_at {
        match end {
            Some(rodbus::verif::SessionEnd::MaxTimeouts(x)) if Some(x) == limit => {}
            other => {
                ev.violation(
                    format!("limit={lim}:session_end_reason"),
                    format!("sequence {seqs}: session ended after request #{k} with {other:?}, expected MaxTimeouts({lim})"),
                    rep.clone(),
                );
            }
        }
        ev.class(format!("limit={lim}|dropped_after_{}|{}", k + 1, framing.name()));
    } else {
        ev.class(format!("limit={lim}|kept|len{}|{}", outcomes.len(), framing.name()));
    }
    if idx < 3 {
        ev.sample(json!({"kind": "limit", "sequence": seqs, "limit": lim, "dropped_after_request": ended_at}));
    }
}

/// "No timeout": per-request timeouts far beyond any clock (up to Duration::MAX). The deadline is
/// never reached, so a reply that arrives at all arrives strictly before it: the request succeeds
/// with its data, and the channel keeps working for the next request.
fn run_huge_timeout(seed: u64, n: u64, ev: &mut Evidence) {
    let mut rng = Rng::sub(seed, 1120, n);
    let framing = if n % 2 == 0 { Framing::Mbap } else { Framing::Rtu };
    let style = ALL_STYLES_API[(n / 2) as usize % 3];
    let (tname, timeout) = *rng.pick(&[
        ("duration_max", Duration::MAX),
        ("u64_max_seconds", Duration::from_secs(u64::MAX)),
        ("2^40_seconds", Duration::from_secs(1 << 40)),
        ("100_years", Duration::from_secs(100 * 365 * 86400)),
    ]);
    let reply_after = *rng.pick(&[Duration::ZERO, Duration::from_millis(5), Duration::from_secs(3600)]);
    let result = run_paused(|| async move {
        let seq = Seq::default();
        let (io, handle) = sim_io(vec![], seq.clone());
        let mut asm = RequestAssembler::new(framing);
        handle.set_responder(Box::new(move |bytes, _| {
            let mut items = vec![];
            for f in asm.feed(bytes) {
                let pdu = [3u8, 2, 0x12, 0x34];
                if !reply_after.is_zero() {
                    items.push(In::Delay(reply_after));
                }
                items.push(In::Chunk(match framing {
                    Framing::Mbap => mbap_frame(((f[0] as u16) << 8) | f[1] as u16, f[6], &pdu),
                    Framing::Rtu => rtu_frame(f[0], &pdu),
                }));
            }
            items
        }));
        let rf = match framing {
            Framing::Mbap => rodbus::verif::Framing::Mbap,
            Framing::Rtu => rodbus::verif::Framing::Rtu,
        };
        let (channel, mut sim) = rodbus::verif::client(rf, 4, decode_level((0, 0, 0)), NonZeroUsize::new(2));
        let task = tokio::spawn(async move { sim.run_session(Box::new(io)).await });
        channel.enable().await.unwrap();
        let start = tokio::time::Instant::now();
        let req = ClientReq::Read { kind: Kind::ReadHolding, start: 7, count: 1 };
        let first = Slot::new(start, seq.clone());
        let _ = submit(&channel, style, 1, timeout, &req, first.clone()).await;
        let _ = tokio::time::timeout(Duration::from_secs(3 * 3600), first.wait()).await;
        settle().await;
        // and an ordinary request afterwards
        let second = Slot::new(start, seq.clone());
        let _ = submit(&channel, Style::Future, 1, Duration::from_secs(7200), &req, second.clone()).await;
        let _ = tokio::time::timeout(Duration::from_secs(3 * 3600), second.wait()).await;
        settle().await;
        drop(channel);
        let _ = tokio::time::timeout(Duration::from_secs(3600), task).await;
        let a = first.completions.lock().unwrap().clone();
        let b = second.completions.lock().unwrap().clone();
        (a, b)
    });
    ev.eval();
    ev.count("huge_timeout_sessions", 1);
    let rep = json!({"huge_timeout": tname, "framing": framing.name(), "api": style.name(), "reply_after_ms": reply_after.as_millis() as u64, "n": n});
    match result {
        Err(p) => ev.violation(
            format!("huge_timeout:{tname}:panic:{}", crate::util::panic_site(&p)),
            format!("a request with response timeout {tname} ({}, {}) made the client task panic: {p}", framing.name(), style.name()),
            rep,
        ),
        Ok((a, b)) => {
            let want = Res::Regs(vec![(7, 0x1234)]);
            let got_a = a.first().map(|c| c.res.clone());
            let got_b = b.first().map(|c| c.res.clone());
            ev.class(format!("huge_timeout|{tname}|{}|{}|{}", framing.name(), style.name(), got_a.as_ref().map(|r| r.class()).unwrap_or("pending".into())));
            if a.len() != 1 || got_a.as_ref() != Some(&want) {
                ev.violation(
                    format!("huge_timeout:{tname}:{}", got_a.as_ref().map(|r| r.class()).unwrap_or("pending".into())),
                    format!("a request with response timeout {tname} answered genuinely after {reply_after:?} completed {} time(s) with {got_a:?}", a.len()),
                    rep.clone(),
                );
            }
            if b.len() != 1 || got_b.as_ref() != Some(&want) {
                ev.violation(
                    format!("huge_timeout:{tname}:next_request:{}", got_b.as_ref().map(|r| r.class()).unwrap_or("pending".into())),
                    format!("the request after one with response timeout {tname} completed {} time(s) with {got_b:?}", b.len()),
                    rep,
                );
            }
        }
    }
}

pub fn run(args: &Args) -> i32 {
    let started = Instant::now();
    let seed = args.seed;
    if let Some(path) = &args.replay {
        let doc: serde_json::Value =
            serde_json::from_str(&std::fs::read_to_string(path).unwrap_or_default()).unwrap_or(json!({}));
        let mut ev = Evidence::new();
        let c = &doc["case"];
        if c["kind"] == "limit" {
            let outcomes: Vec<Outcome> = c["sequence"].as_str().unwrap_or("").chars().map(|ch| match ch { 'T' => Outcome::Timeout, 'S' => Outcome::Success, 'E' => Outcome::Exception, _ => Outcome::BadReply }).collect();
            let limit = c["limit"].as_str().and_then(|s| s.parse().ok());
            let framing = if c["framing"] == "rtu" { Framing::Rtu } else { Framing::Mbap };
            run_limit_session(&outcomes, limit, framing, 0, &mut ev);
        } else if let Some(n) = c["n"].as_u64() {
            run_timing_session(doc["seed"].as_u64().unwrap_or(1), n, &mut ev);
        }
        for v in &ev.violations {
            println!("replayed violation: sig={} :: {}", v.sig, v.what);
        }
        if ev.violations.is_empty() {
            println!("replay: no violation reproduced");
            return EXIT_OK;
        }
        println!("VIOLATION property=C12 replay={path}");
        return EXIT_VIOLATION;
    }
    let mut ev = Evidence::new();
    let sessions = args.tier.pick(200_000u64, 6_000_000);
    for p in parallel(args.jobs, args.tier.pick(240, 2400), Evidence::new, |n, ev| run_huge_timeout(seed, n, ev)) {
        ev.merge(p);
    }
    for p in parallel(args.jobs, sessions, Evidence::new, |n, ev| run_timing_session(seed, n, ev)) {
        ev.merge(p);
    }
    // outcome sequences: exhaustive up to length L for every limit
    let maxlen = args.tier.pick(4usize, 6);
    let limits: [Option<usize>; 5] = [None, Some(1), Some(2), Some(3), Some(4)];
    let mut work: Vec<(Vec<Outcome>, Option<usize>)> = vec![];
    for len in 1..=maxlen {
        let total = 4usize.pow(len as u32);
        for code in 0..total {
            let mut s = vec![];
            let mut c = code;
            for _ in 0..len {
                s.push(OUTCOMES[c % 4]);
                c /= 4;
            }
            for l in limits {
                work.push((s.clone(), l));
            }
        }
    }
    // random longer sequences
    let mut rng = Rng::sub(seed, 1012, 0);
    for _ in 0..args.tier.pick(500, 20_000) {
        let len = 7 + rng.usize_below(6);
        let s: Vec<Outcome> = (0..len).map(|_| if rng.chance(1, 2) { Outcome::Timeout } else { OUTCOMES[rng.usize_below(4)] }).collect();
        work.push((s, limits[rng.usize_below(5)]));
    }
    let work = Arc::new(work);
    let w2 = work.clone();
    for p in parallel(args.jobs, work.len() as u64, Evidence::new, move |i, ev| {
        let (s, l) = &w2[i as usize];
        let framing = if i % 4 == 3 { Framing::Rtu } else { Framing::Mbap };
        run_limit_session(s, *l, framing, i, ev)
    }) {
        ev.merge(p);
    }
    ev.count("limit_sequences_exhaustive_up_to_length", maxlen as u64);
    // the serial client's inter-frame silence vs. short timeouts, on a real pty (net engine)
    if args.replay.is_none() {
        crate::util::merge_net_leg(&mut ev, args, "c12serial");
    }
    let meta = Meta {
        property_id: "C12",
        level: "exploration",
        rule: format!("timing: one evaluation = one client session of 1-16 sequential requests in virtual time, per-request timeouts 0 ns..1 h, replies arriving never / whole / split at offsets around the deadline (T-1ms, T-1ns, T, T+1ms ...); verdict from measured instants: reply complete strictly before t_tx+T => Ok with its data, otherwise timeout completed within [deadline, deadline+1ms]. limit: every outcome sequence over {{timeout, success, exception, bad reply}} up to length {maxlen} x limits {{none,1,2,3,4}} (exhaustive) plus random longer ones; the session must end exactly when the consecutive-timeout count reaches the limit. distinct = (framing, timeout class, arrival class, outcome, api) and (limit, drop position)"),
        assumptions: vec![
            "tokio's timer wheel has 1 ms granularity: a timeout may complete up to 1 ms after the deadline".into(),
            "a reply completing exactly at the deadline instant may go either way (select! picks among ready branches)".into(),
        ],
        exhaustive: Some(false),
        floors: vec![
            ("requests".into(), args.tier.pick(1_000_000, 30_000_000)),
            ("timeouts_checked_against_deadline".into(), args.tier.pick(200_000, 5_000_000)),
            ("in_time_replies_accepted".into(), args.tier.pick(200_000, 5_000_000)),
            ("limit_sequences".into(), args.tier.pick(1_500, 25_000)),
            ("serial_gap_scenarios".into(), args.tier.pick(6, 36)),
        ],
        min_classes: 40,
    };
    finish(args, meta, ev, started)
}
