//! C20: protocol decoding (logging) is purely observational.

use crate::client_run::*;
use crate::gen::*;
use crate::io::{sim_io, In, Seq};
use crate::server_run::*;
use crate::util::{decode_level, parallel, DECODE_MAX, DECODE_NOTHING};
use serde_json::json;
use std::sync::{Arc, Mutex};
use std::time::{Duration, Instant};
use vcommon::model::*;
use vcommon::report::*;
use vcommon::rng::Rng;

const MS: Duration = Duration::from_millis(1);

fn server_record(o: &ServerObs) -> String {
    format!(
        "out={} log={:?} end={:?} stores={:?} panic={:?}",
        hex(&o.out),
        o.log.iter().map(|c| c.short()).collect::<Vec<_>>(),
        o.end,
        o.final_stores.iter().map(|(u, s)| (u, s.coils.len(), s.holding.len(), s.holding.iter().next_back().map(|x| *x.1))).collect::<Vec<_>>(),
        o.panic
    )
}

fn run_server_script(seed: u64, n: u64, ev: &mut Evidence) {
    use crate::checks::server_props::{gen_case, Which};
    // the C01 / C05 generators in differential mode
    let g = gen_case(if n % 2 == 0 { Which::C01 } else { Which::C17 }, seed ^ 0x20, n);
    let mut rng = Rng::sub(seed, 120, n);
    // re-partition with a 1 ms virtual delay between chunks so that commands can be injected
    // at every position, including in the middle of a frame
    let stream = input_stream(&g.case.script);
    let style = *rng.pick(&[PartStyle::Random, PartStyle::HeaderBody, PartStyle::PerFrame, PartStyle::Random]);
    let (frames, _) = reference_frames(g.case.framing, &stream);
    let mut ends = vec![];
    {
        // frame ends for the frame-aware styles (MBAP only; harmless otherwise)
        let mut pos = 0;
        for f in &frames {
            pos += match g.case.framing {
                Framing::Mbap => 7 + f.pdu.len(),
                Framing::Rtu => 3 + f.pdu.len(),
            };
            ends.push(pos);
        }
    }
    let mut script = partition(&mut rng, &stream, &ends, style, Some(MS));
    // keep scripts short enough that every position can be tried
    let nchunks = script.iter().filter(|i| matches!(i, In::Chunk(_))).count();
    script.push(In::Eof);
    let base = |decode: (u8, u8, u8), commands: Vec<(Duration, Cmd)>| ServerCase {
        framing: g.case.framing,
        stores: g.case.stores.clone(),
        policy: g.case.policy.clone(),
        script: script.clone(),
        decode,
        commands,
    };
    // a third of the scripts run against a peer that reads slowly (replies leave in pieces of 16 / 5 / 64
    // bytes with 300 us between them): the level changes at +500 us then arrive while a reply is
    // partly written
    let slow: Option<(usize, Duration)> = if n % 3 == 2 { Some((*rng.pick(&[16usize, 5, 64]), Duration::from_micros(300))) } else { None };
    if slow.is_some() {
        ev.count("server_scripts_with_slow_reader", 1);
    }
    let run_server_case = |c: &ServerCase| crate::server_run::run_server_case_io(c, None, slow);
    let reference = server_record(&run_server_case(&base(DECODE_NOTHING, vec![])));
    ev.eval();
    ev.count("server_scripts", 1);
    let mid = (rng.u8() % 4, rng.u8() % 3, rng.u8() % 3);
    let mut variants: Vec<(String, ServerCase)> = vec![
        ("fixed_max".into(), base(DECODE_MAX, vec![])),
        (format!("fixed_{}{}{}", mid.0, mid.1, mid.2), base(mid, vec![])),
    ];
    // a level change at every position of the script (between chunks k and k+1)
    let positions: Vec<usize> = if nchunks <= 24 { (0..=nchunks).collect() } else { (0..24).map(|_| rng.usize_below(nchunks + 1)).collect() };
    for p in positions {
        let at = Duration::from_micros(p as u64 * 1000 + 500);
        let (from, to) = if p % 2 == 0 { (DECODE_NOTHING, DECODE_MAX) } else { (DECODE_MAX, DECODE_NOTHING) };
        variants.push((format!("change_at_{p}"), base(from, vec![(at, Cmd::Decode(to.0, to.1, to.2))])));
    }
    for (name, case) in variants {
        let rec = server_record(&run_server_case(&case));
        ev.eval();
        ev.count("server_executions_compared", 1);
        if name.starts_with("change_at") {
            ev.count("level_changes_injected", 1);
        }
        if rec != reference {
            let which = first_difference(&reference, &rec);
            ev.violation(
                format!("server:{}:{}:{}", g.case.framing.name(), if name.starts_with("change") { "level_change" } else { "fixed_level" }, which),
                format!("server script {n}: execution with decode variant {name} differs from the execution at level nothing in its {which}"),
                json!({"n": n, "role": "server", "variant": name, "case": crate::checks::server_props::case_json(&case)}),
            );
            return;
        }
    }
    ev.class(format!("server|{}|{:?}|chunks{}", g.case.framing.name(), style, nchunks.min(24)));
    if n < 2 {
        ev.sample(json!({"role": "server", "framing": g.case.framing.name(), "chunks": nchunks, "variants": "nothing vs max vs random level vs a level change at every chunk gap"}));
    }
}

fn first_difference(a: &str, b: &str) -> &'static str {
    let keys = ["out=", "log=", "end=", "stores=", "panic=", "writes=", "results=", "session="];
    let split = |s: &str| -> Vec<(usize, &'static str)> {
        let mut v: Vec<(usize, &'static str)> = keys.iter().filter_map(|k| s.find(k).map(|i| (i, *k))).collect();
        v.sort();
        v
    };
    let (sa, sb) = (split(a), split(b));
    for (i, (pa, k)) in sa.iter().enumerate() {
        let ea = sa.get(i + 1).map(|x| x.0).unwrap_or(a.len());
        let Some((pb, _)) = sb.iter().find(|x| x.1 == *k) else { return "record"; };
        let j = sb.iter().position(|x| x.1 == *k).unwrap();
        let eb = sb.get(j + 1).map(|x| x.0).unwrap_or(b.len());
        if a[*pa..ea] != b[*pb..eb] {
            return match *k {
                "out=" => "wire_bytes",
                "log=" => "handler_invocations",
                "end=" => "session_end",
                "stores=" => "application_state",
                "panic=" => "panic",
                "writes=" => "wire_bytes_or_their_timing",
                "results=" => "request_results_or_their_timing",
                _ => "session_end",
            };
        }
    }
    "record"
}

#[derive(Clone, Debug)]
enum Beh {
    Genuine(u64),
    Exception,
    BadReply,
    Never,
    Split(u64, u64),
    StaleThenGenuine,
}

#[derive(Clone, Debug)]
struct CReq {
    req: ClientReq,
    timeout_ms: u64,
    beh: Beh,
    style: Style,
}

/// level change injection: (request index, while outstanding?, level)
type Inject = Option<(usize, bool, (u8, u8, u8))>;

fn run_client_variant(framing: Framing, reqs: &[CReq], base: (u8, u8, u8), inject: Inject, fill: u64) -> Result<String, String> {
    let reqs2 = reqs.to_vec();
    run_paused(|| async move {
        let seq = Seq::default();
        let (io, handle) = sim_io(vec![], seq.clone());
        let st = Arc::new(Mutex::new((RequestAssembler::new(framing), 0usize)));
        let r3 = reqs2.clone();
        handle.set_responder(Box::new(move |bytes, _| {
            let mut g = st.lock().unwrap();
            let frames = g.0.feed(bytes);
            let mut items = vec![];
            for f in frames {
                let k = g.1;
                g.1 += 1;
                let Some(r) = r3.get(k) else { continue };
                let wrap = |pdu: &[u8], dtx: u16| match framing {
                    Framing::Mbap => mbap_frame((((f[0] as u16) << 8) | f[1] as u16).wrapping_sub(dtx), f[6], pdu),
                    Framing::Rtu => rtu_frame(f[0], pdu),
                };
                let genuine = genuine_reply(&r.req, fill ^ k as u64);
                match &r.beh {
                    Beh::Genuine(d) => {
                        items.push(In::Delay(Duration::from_millis(*d)));
                        items.push(In::Chunk(wrap(&genuine, 0)));
                    }
                    Beh::Exception => {
                        items.push(In::Delay(2 * MS));
                        items.push(In::Chunk(wrap(&[r.req.kind().fc() | 0x80, 0x0A], 0)));
                    }
                    Beh::BadReply => {
                        items.push(In::Delay(2 * MS));
                        let mut p = genuine.clone();
                        p.push(0);
                        if framing == Framing::Rtu {
                            // keep it well-framed on RTU: wrong function with a fixed-size body
                            p = vec![if r.req.kind().fc() == 6 { 5 } else { 6 }, 0, 0, 0, 0];
                        }
                        items.push(In::Chunk(wrap(&p, 0)));
                    }
                    Beh::Never => {}
                    Beh::Split(a, b) => {
                        let bytes = wrap(&genuine, 0);
                        let cut = 1 + k % (bytes.len() - 1);
                        items.push(In::Delay(Duration::from_millis(*a)));
                        items.push(In::Chunk(bytes[..cut].to_vec()));
                        items.push(In::Delay(Duration::from_millis(*b)));
                        items.push(In::Chunk(bytes[cut..].to_vec()));
                    }
                    Beh::StaleThenGenuine => {
                        items.push(In::Delay(2 * MS));
                        if framing == Framing::Mbap {
                            items.push(In::Chunk(wrap(&genuine, 1)));
                        }
                        items.push(In::Chunk(wrap(&genuine, 0)));
                    }
                }
            }
            items
        }));
        let (channel, mut sim) = rodbus::verif::client(rframing(framing), 8, decode_level(base), std::num::NonZeroUsize::new(3));
        let task = tokio::spawn(async move { sim.run_session(Box::new(io)).await });
        channel.enable().await.unwrap();
        let start = tokio::time::Instant::now();
        let mut results = vec![];
        for (k, r) in reqs2.iter().enumerate() {
            // let late traffic of earlier requests land first: otherwise queued delays add up
            // and a reply can complete exactly at a deadline (a tie select! may break either way)
            for _ in 0..1000 {
                if handle.with(|s| s.inq.is_empty()) {
                    break;
                }
                tokio::time::sleep(MS).await;
            }
            settle().await;
            if let Some((at, false, level)) = inject {
                if at == k {
                    let _ = channel.set_decode_level(decode_level(level)).await;
                    settle().await;
                }
            }
            let slot = Slot::new(start, seq.clone());
            let _ = submit(&channel, r.style, 9, Duration::from_millis(r.timeout_ms), &r.req, slot.clone()).await;
            settle().await;
            if let Some((at, true, level)) = inject {
                if at == k {
                    // one virtual millisecond into the transaction
                    tokio::time::sleep(MS).await;
                    let _ = channel.set_decode_level(decode_level(level)).await;
                }
            }
            let _ = tokio::time::timeout(Duration::from_secs(30), slot.wait()).await;
            settle().await;
            let c = slot.completions.lock().unwrap().clone();
            results.push(c.iter().map(|c| format!("{:?}@{:?}", c.res, c.at)).collect::<Vec<_>>());
            if task.is_finished() {
                break;
            }
        }
        // drain late traffic, then end
        tokio::time::sleep(Duration::from_secs(1)).await;
        drop(channel);
        let end = tokio::time::timeout(Duration::from_secs(3600), task).await;
        let writes: Vec<String> = handle.out_records().iter().map(|r| format!("{}@{:?}", hex(&r.bytes), r.at)).collect();
        format!("writes={writes:?} results={results:?} session={:?}", end.ok().and_then(|r| r.ok()))
    })
}

fn run_client_script(seed: u64, n: u64, ev: &mut Evidence) {
    let mut rng = Rng::sub(seed, 1120, n);
    let framing = if rng.chance(1, 3) { Framing::Rtu } else { Framing::Mbap };
    let nreq = 1 + rng.usize_below(8);
    let fill = rng.next_u64();
    let reqs: Vec<CReq> = (0..nreq)
        .map(|_| {
            let req = match rng.below(6) {
                0 => ClientReq::Read { kind: Kind::ReadCoils, start: rng.u16() / 2, count: 1 + rng.below(200) as u16 },
                1 => ClientReq::Read { kind: Kind::ReadInput, start: rng.u16() / 2, count: 1 + rng.below(100) as u16 },
                2 => ClientReq::WriteSingleCoil { addr: rng.u16(), value: rng.chance(1, 2) },
                3 => ClientReq::WriteSingleReg { addr: rng.u16(), value: rng.u16() },
                4 => ClientReq::WriteMultiCoils { start: 3, values: (0..(1 + rng.usize_below(40))).map(|i| i % 2 == 0).collect() },
                _ => ClientReq::WriteMultiRegs { start: 9, values: (0..(1 + rng.usize_below(20))).map(|i| i as u16 * 3).collect() },
            };
            let beh = match rng.below(9) {
                0 => Beh::Exception,
                1 => Beh::BadReply,
                2 => Beh::Never,
                3 => Beh::Split(1, 2),
                4 => Beh::Split(2, 30),
                5 => Beh::StaleThenGenuine,
                6 => Beh::Genuine(25),
                _ => Beh::Genuine(2),
            };
            CReq { req, timeout_ms: *rng.pick(&[10u64, 20, 50]), beh, style: ALL_STYLES_API[rng.usize_below(3)] }
        })
        .collect();
    ev.eval();
    ev.count("client_scripts", 1);
    let reference = match run_client_variant(framing, &reqs, DECODE_NOTHING, None, fill) {
        Ok(r) => r,
        Err(p) => {
            ev.violation(format!("client_panic:{}", crate::util::panic_site(&p)), format!("client panicked at decode level nothing: {p}"), json!({"n": n, "role": "client"}));
            return;
        }
    };
    let mid = (rng.u8() % 4, rng.u8() % 3, rng.u8() % 3);
    let mut variants: Vec<(String, (u8, u8, u8), Inject)> = vec![
        ("fixed_max".into(), DECODE_MAX, None),
        ("fixed_mid".into(), mid, None),
    ];
    for k in 0..nreq {
        let (from, to) = if k % 2 == 0 { (DECODE_NOTHING, DECODE_MAX) } else { (DECODE_MAX, DECODE_NOTHING) };
        variants.push((format!("change_before_request_{k}"), from, Some((k, false, to))));
        variants.push((format!("change_during_request_{k}"), from, Some((k, true, to))));
    }
    for (name, base, inject) in variants {
        ev.eval();
        ev.count("client_executions_compared", 1);
        if inject.is_some() {
            ev.count("level_changes_injected", 1);
        }
        match run_client_variant(framing, &reqs, base, inject, fill) {
            Err(p) => {
                ev.violation(
                    format!("client_panic:{}", crate::util::panic_site(&p)),
                    format!("client panicked with decode variant {name}: {p}"),
                    json!({"n": n, "role": "client", "variant": name}),
                );
                return;
            }
            Ok(rec) => {
                if rec != reference {
                    let which = first_difference(&reference, &rec);
                    if std::env::var("VERIF_DEBUG").is_ok() {
                        eprintln!("REF {reference}\nGOT {rec}");
                    }
                    ev.violation(
                        format!("client:{}:{}:{}", framing.name(), if inject.is_some() { if name.contains("during") { "level_change_during_transaction" } else { "level_change_while_idle" } } else { "fixed_level" }, which),
                        format!("client script {n}: execution with decode variant {name} differs from level nothing in its {which}"),
                        json!({"n": n, "role": "client", "variant": name, "requests": reqs.iter().map(|r| format!("{} {:?} {}ms {}", r.req.describe(), r.beh, r.timeout_ms, r.style.name())).collect::<Vec<_>>()}),
                    );
                    return;
                }
            }
        }
    }
    ev.class(format!("client|{}|requests{}", framing.name(), nreq));
    for r in &reqs {
        ev.class(format!("client_behaviour|{}|{}", framing.name(), format!("{:?}", r.beh).split('(').next().unwrap()));
    }
    if n < 2 {
        ev.sample(json!({"role": "client", "framing": framing.name(), "requests": reqs.iter().map(|r| format!("{} {:?}", r.req.describe(), r.beh)).collect::<Vec<_>>()}));
    }
}

pub fn run(args: &Args) -> i32 {
    let started = Instant::now();
    let seed = args.seed;
    if let Some(path) = &args.replay {
        let doc: serde_json::Value =
            serde_json::from_str(&std::fs::read_to_string(path).unwrap_or_default()).unwrap_or(json!({}));
        let mut ev = Evidence::new();
        if let Some(n) = doc["case"]["n"].as_u64() {
            if doc["case"]["role"] == "client" {
                run_client_script(doc["seed"].as_u64().unwrap_or(1), n, &mut ev);
            } else {
                run_server_script(doc["seed"].as_u64().unwrap_or(1), n, &mut ev);
            }
        }
        for v in &ev.violations {
            println!("replayed violation: sig={} :: {}", v.sig, v.what);
        }
        if ev.violations.is_empty() {
            println!("replay: no violation reproduced");
            return EXIT_OK;
        }
        println!("VIOLATION property=C20 replay={path}");
        return EXIT_VIOLATION;
    }
    let ss = args.tier.pick(12_000u64, 500_000);
    let cs = args.tier.pick(20_000u64, 700_000);
    let mut ev = Evidence::new();
    for p in parallel(args.jobs, ss + cs, Evidence::new, |i, ev| {
        if i < ss {
            run_server_script(seed, i, ev)
        } else {
            run_client_script(seed, i - ss, ev)
        }
    }) {
        ev.merge(p);
    }
    let meta = Meta {
        property_id: "C20",
        level: "exploration",
        rule: "one evaluation = one execution of a script at one decode configuration. Server scripts: the C01/C17 session generators re-partitioned with 1 ms gaps; client scripts: 1-8 sequential requests of all kinds with genuine/exception/bad/never/split/stale replies. Every script runs at level nothing (reference record), at the maximum level, at a random level, and with a level change (server ChangeDecoding command / client set_decode_level) injected at EVERY position: each chunk gap incl. mid-frame (server), before each request and one virtual millisecond into each outstanding transaction (client). A formatting tracing subscriber executes all decode paths. Oracle: equality of the full observation record (wire bytes with virtual timestamps, request results with completion instants, handler/authorization log, application state, session end). distinct = (role, framing, partition style/behaviour)".into(),
        assumptions: vec!["the decode-level command itself is not part of the record".into()],
        exhaustive: None,
        floors: vec![
            ("server_executions_compared".into(), args.tier.pick(150_000, 5_000_000)),
            ("client_executions_compared".into(), args.tier.pick(150_000, 5_000_000)),
            ("level_changes_injected".into(), args.tier.pick(250_000, 8_000_000)),
        ],
        min_classes: 20,
    };
    finish(args, meta, ev, started)
}
