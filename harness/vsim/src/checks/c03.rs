//! C03: the client transmits exactly the protocol encoding of a request, or nothing.

use crate::client_run::*;
use crate::io::{sim_io, In, Seq};
use crate::util::{decode_level, parallel};
use serde_json::json;
use std::sync::{Arc, Mutex};
use std::time::{Duration, Instant};
use vcommon::model::*;
use vcommon::report::*;
use vcommon::rng::Rng;

const VEC_LATTICE: [usize; 24] = [
    0, 1, 2, 7, 8, 9, 122, 123, 124, 125, 126, 127, 128, 1967, 1968, 1969, 1976, 1977, 2008, 2009,
    2040, 2041, 65535, 65536,
];

fn gen_req(rng: &mut Rng) -> ClientReq {
    match rng.below(8) {
        k @ 0..=3 => {
            let kind = [Kind::ReadCoils, Kind::ReadDiscrete, Kind::ReadHolding, Kind::ReadInput][k as usize];
            let limit = kind.limit() as u16;
            let count = match rng.below(10) {
                0 => 0,
                1 => limit + 1,
                2 => limit,
                3 => limit - 1,
                4 => 0xFFFF,
                5 => rng.u16(),
                6 => *rng.pick(&[2000u16, 2001, 125, 126]),
                _ => 1 + rng.below(limit as u64) as u16,
            };
            let start = match rng.below(6) {
                0 => 0,
                1 => 65535,
                2 => (65536u32.saturating_sub(count as u32)).min(65535) as u16,
                3 => (65536u32.saturating_sub(count as u32) + 1).min(65535) as u16,
                _ => rng.u16(),
            };
            ClientReq::Read { kind, start, count }
        }
        4 => ClientReq::WriteSingleCoil {
            addr: rng.u16(),
            value: rng.chance(1, 2),
        },
        5 => ClientReq::WriteSingleReg {
            addr: rng.u16(),
            value: rng.u16(),
        },
        k => {
            let n = if rng.chance(3, 4) {
                *rng.pick(&VEC_LATTICE)
            } else if k == 6 {
                rng.usize_below(2100)
            } else {
                rng.usize_below(140)
            };
            let start = match rng.below(6) {
                0 => 0,
                1 => 65535,
                2 => (65536usize.saturating_sub(n)).min(65535) as u16,
                3 => (65536usize.saturating_sub(n) + 1).min(65535) as u16,
                _ => rng.u16(),
            };
            if k == 6 {
                let seed = rng.next_u64();
                ClientReq::WriteMultiCoils {
                    start,
                    values: (0..n).map(|i| vcommon::rng::hash4(seed, i as u64, 0, 0) & 1 == 1).collect(),
                }
            } else {
                let seed = rng.next_u64();
                ClientReq::WriteMultiRegs {
                    start,
                    values: (0..n).map(|i| vcommon::rng::hash4(seed, i as u64, 0, 1) as u16).collect(),
                }
            }
        }
    }
}

/// a plausible server reply for whatever request PDU the client sent
pub fn auto_reply(pdu: &[u8], fill: u64) -> Vec<u8> {
    if pdu.is_empty() {
        return vec![0x80, 0x03];
    }
    match parse_request(pdu) {
        Parsed::Valid(Req::Read { kind, start, qty }) => genuine_reply(
            &ClientReq::Read {
                kind,
                start,
                count: qty,
            },
            fill,
        ),
        Parsed::Valid(r) | Parsed::ValidOrInvalid(r) => r.write_echo(),
        _ => {
            // echo-style answer for anything that looks like a write, else exception 03
            if (pdu[0] == 15 || pdu[0] == 16) && pdu.len() >= 5 {
                pdu[..5].to_vec()
            } else {
                vec![pdu[0] | 0x80, 0x03]
            }
        }
    }
}

struct PeerState {
    asm: RequestAssembler,
    frames: Vec<Vec<u8>>,
}

fn run_session(seed: u64, n: u64, ev: &mut Evidence) {
    let mut rng = Rng::sub(seed, 103, n);
    let framing = if rng.chance(2, 5) { Framing::Rtu } else { Framing::Mbap };
    let nreq = 1 + rng.usize_below(12);
    let reqs: Vec<(ClientReq, u8, Style)> = (0..nreq)
        .map(|_| {
            (
                gen_req(&mut rng),
                rng.u8(),
                ALL_STYLES_API[rng.usize_below(3)],
            )
        })
        .collect();
    let decode = (rng.u8() % 4, rng.u8() % 3, rng.u8() % 3);
    let fill = rng.next_u64();

    struct PerReq {
        written: Vec<u8>,
        res: Option<Res>,
        outcome: CallOutcome,
        completions: usize,
    }

    let reqs2 = reqs.clone();
    let result = run_paused(|| async move {
        let seq = Seq::default();
        let (io, handle) = sim_io(vec![], seq.clone());
        let peer = Arc::new(Mutex::new(PeerState {
            asm: RequestAssembler::new(framing),
            frames: vec![],
        }));
        let p2 = peer.clone();
        handle.set_responder(Box::new(move |bytes, _at| {
            let mut p = p2.lock().unwrap();
            let frames = p.asm.feed(bytes);
            let mut items = vec![];
            for f in frames {
                let reply = match framing {
                    Framing::Mbap => {
                        if f.len() < 7 {
                            continue;
                        }
                        let tx = ((f[0] as u16) << 8) | f[1] as u16;
                        mbap_frame(tx, f[6], &auto_reply(&f[7..], fill))
                    }
                    Framing::Rtu => {
                        if f.len() < 4 {
                            continue;
                        }
                        rtu_frame(f[0], &auto_reply(&f[1..f.len() - 2], fill))
                    }
                };
                p.frames.push(f);
                items.push(In::Chunk(reply));
            }
            items
        }));
        let (channel, mut sim) = rodbus::verif::client(rframing(framing), 16, decode_level(decode), None);
        let task = tokio::spawn(async move { sim.run_session(Box::new(io)).await });
        channel.enable().await.unwrap();
        let start = tokio::time::Instant::now();
        let mut per = vec![];
        for (req, unit, style) in &reqs2 {
            let before = handle.out_bytes().len();
            let slot = Slot::new(start, seq.clone());
            let outcome = submit(&channel, *style, *unit, Duration::from_secs(1), req, slot.clone()).await;
            // give the task time: either a completion arrives or 10 virtual seconds pass
            let _ = tokio::time::timeout(Duration::from_secs(10), slot.wait()).await;
            settle().await;
            let out = handle.out_bytes();
            per.push(PerReq {
                written: out[before..].to_vec(),
                res: slot.first().map(|c| c.res),
                outcome,
                completions: slot.count(),
            });
        }
        drop(channel);
        let end = tokio::time::timeout(Duration::from_secs(3600), task).await;
        (per, end.is_ok())
    });

    ev.eval();
    let (per, ended) = match result {
        Err(p) => {
            ev.violation(
                format!("client_panic:{}", crate::util::panic_site(&p)),
                format!("client panicked while encoding/transmitting: {p}"),
                json!({"n": n}),
            );
            return;
        }
        Ok(x) => x,
    };
    if !ended {
        ev.inconclusive("client session did not end after all handles were dropped");
    }

    let mut last_tx: Option<u16> = None;
    let mut rejected_since = 0u32;
    for (i, ((req, unit, style), p)) in reqs.iter().zip(per.iter()).enumerate() {
        let kind = req.kind();
        let count = match req {
            ClientReq::Read { count, .. } => *count as usize,
            ClientReq::WriteMultiCoils { values, .. } => values.len(),
            ClientReq::WriteMultiRegs { values, .. } => values.len(),
            _ => 1,
        };
        let expect = req.encode();
        let base_sig = format!(
            "client.{}.{}.{}.count={}",
            style.name(),
            kind.name(),
            framing.name(),
            count
        );
        let rep = |what: &str| json!({"n": n, "request_index": i, "request": req.describe(), "unit": unit, "style": style.name(), "framing": framing.name(), "what": what, "written_hex": hex(&p.written[..p.written.len().min(64)]), "written_len": p.written.len()});
        ev.count("requests", 1);
        let limit = if framing == Framing::Mbap { 260 } else { 256 };
        ev.max(&format!("frame_len_{}", framing.name()), p.written.len() as u64);
        if p.written.len() > limit {
            ev.violation(
                format!("{base_sig}.frame_longer_than_{limit}"),
                format!("{}: emitted {} bytes for one request (limit {limit})", req.describe(), p.written.len()),
                rep("frame too long"),
            );
        }
        let ok_result = p.res.as_ref().map(|r| r.is_ok()).unwrap_or(false);
        match expect {
            None => {
                ev.class(format!(
                    "{}|{}|{}|must_reject|{}",
                    style.name(),
                    kind.name(),
                    framing.name(),
                    match &p.outcome {
                        CallOutcome::RejectedAtApi(_) => "rejected_at_api",
                        _ => "rejected_by_task",
                    }
                ));
                ev.count("requests_that_must_be_rejected", 1);
                if !p.written.is_empty() {
                    ev.violation(
                        format!("{base_sig}.transmitted_but_must_be_rejected"),
                        format!(
                            "{} is outside protocol limits but {} bytes were transmitted",
                            req.describe(),
                            p.written.len()
                        ),
                        rep("transmitted although invalid"),
                    );
                } else if ok_result {
                    ev.violation(
                        format!("{base_sig}.ok_but_must_be_rejected"),
                        format!("{} is outside protocol limits but completed Ok", req.describe()),
                        rep("Ok result for invalid request"),
                    );
                }
                if p.written.is_empty() && !matches!(p.outcome, CallOutcome::RejectedAtApi(_)) {
                    rejected_since += 1;
                }
            }
            Some(pdu) => {
                ev.class(format!(
                    "{}|{}|{}|must_transmit|len{}",
                    style.name(),
                    kind.name(),
                    framing.name(),
                    match pdu.len() {
                        0..=5 => "5",
                        6..=20 => "6-20",
                        21..=200 => "21-200",
                        _ => "201-253",
                    }
                ));
                ev.count("frames_compared", 1);
                let got = &p.written;
                let mut ok = false;
                match framing {
                    Framing::Rtu => {
                        let want = rtu_frame(*unit, &pdu);
                        ok = *got == want;
                        if ok {
                            ev.count("rtu_frames_crc_checked", 1);
                        }
                    }
                    Framing::Mbap => {
                        if got.len() >= 2 {
                            let tx = ((got[0] as u16) << 8) | got[1] as u16;
                            let want = mbap_frame(tx, *unit, &pdu);
                            ok = *got == want;
                            if ok {
                                if let Some(prev) = last_tx {
                                    let delta = tx.wrapping_sub(prev) as u32;
                                    if delta < 1 || delta > 1 + rejected_since {
                                        ev.violation(
                                            format!("client.{}.txid_step={}", framing.name(), delta),
                                            format!("transaction id went from {prev} to {tx} (allowed step 1..={})", 1 + rejected_since),
                                            rep("transaction id arithmetic"),
                                        );
                                    }
                                }
                                last_tx = Some(tx);
                                rejected_since = 0;
                            }
                        }
                    }
                }
                if !ok {
                    ev.violation(
                        format!(
                            "{base_sig}.{}",
                            if got.is_empty() { "nothing_transmitted" } else { "wrong_bytes" }
                        ),
                        format!(
                            "{}: transmitted {} but the protocol encoding is [hdr]{}",
                            req.describe(),
                            hex(&got[..got.len().min(40)]),
                            hex(&pdu[..pdu.len().min(32)])
                        ),
                        rep("wrong encoding"),
                    );
                } else if !ok_result {
                    ev.violation(
                        format!("{base_sig}.valid_request_failed"),
                        format!("{} was transmitted and answered genuinely but completed with {:?}", req.describe(), p.res),
                        rep("valid request failed"),
                    );
                }
            }
        }
        if p.completions > 1 {
            ev.violation(
                format!("{base_sig}.completed_{}_times", p.completions),
                "request completed more than once".to_string(),
                rep("double completion"),
            );
        }
        if n < 2 && i < 3 {
            ev.sample(json!({"request": req.describe(), "unit": unit, "api": style.name(), "framing": framing.name(), "written_hex": hex(&p.written[..p.written.len().min(48)]), "result": p.res.as_ref().map(|r| r.class())}));
        }
    }
}

/// `AddressRange::try_from` against its two-line model
fn range_sweep(args: &Args, ev: &mut Evidence) -> bool {
    use rodbus::AddressRange;
    let full = args.tier == Tier::Thorough;
    let jobs = args.jobs as u64;
    let seed = args.seed;
    // work items: blocks of starts
    let blocks: u64 = 65536;
    let parts = parallel(args.jobs, blocks, Evidence::new, |start, ev| {
        let start = start as u16;
        let check = |count: u16, ev: &mut Evidence| {
            let model_ok = count != 0 && (start as u32 + count as u32) <= 65536;
            let got = AddressRange::try_from(start, count);
            ev.evaluations += 1;
            match (&got, model_ok) {
                (Ok(r), true) if r.start == start && r.count == count => {}
                (Err(_), false) => {}
                _ => ev.violation(
                    format!("AddressRange::try_from({start},{count})"),
                    format!("AddressRange::try_from({start},{count}) = {got:?} but validity is {model_ok}"),
                    json!({"start": start, "count": count}),
                ),
            }
        };
        if full {
            for count in 0..=u16::MAX {
                check(count, ev);
            }
        } else {
            // stratified: boundary counts + 150 random counts per start
            let mut rng = Rng::sub(seed, 1003, start as u64);
            let edge = 65536u32 - start as u32;
            for c in [0u32, 1, 2, edge.saturating_sub(1), edge, edge + 1, 65535, 2000, 2001, 125, 126] {
                if c <= 65535 {
                    check(c as u16, ev);
                }
            }
            for _ in 0..150 {
                check(rng.u16(), ev);
            }
        }
    });
    let _ = jobs;
    let mut total = 0;
    for p in parts {
        total += p.evaluations;
        let mut p = p;
        p.evaluations = 0;
        ev.merge(p);
    }
    ev.count("address_range_constructor_arguments_checked", total);
    ev.class("constructor|AddressRange::try_from|accept");
    ev.class("constructor|AddressRange::try_from|reject");
    full
}

pub fn run(args: &Args) -> i32 {
    let started = Instant::now();
    let sessions = args.tier.pick(250_000u64, 6_000_000);
    let seed = args.seed;
    if let Some(path) = &args.replay {
        let doc: serde_json::Value =
            serde_json::from_str(&std::fs::read_to_string(path).unwrap_or_default()).unwrap_or(json!({}));
        let mut ev = Evidence::new();
        if let Some(n) = doc["case"]["n"].as_u64() {
            run_session(doc["seed"].as_u64().unwrap_or(1), n, &mut ev);
        }
        for v in &ev.violations {
            println!("replayed violation: sig={} :: {}", v.sig, v.what);
        }
        if ev.violations.is_empty() {
            println!("replay: no violation reproduced");
            return EXIT_OK;
        }
        println!("VIOLATION property=C03 replay={path}");
        return EXIT_VIOLATION;
    }
    let mut ev = Evidence::new();
    for p in parallel(args.jobs, sessions, Evidence::new, |n, ev| run_session(seed, n, ev)) {
        ev.merge(p);
    }
    let exhaustive_ctor = range_sweep(args, &mut ev);
    let meta = Meta {
        property_id: "C03",
        level: "exploration",
        rule: "one evaluation = one client session of 1-12 requests submitted through Channel / CallbackSession / FfiChannel (all eight kinds, boundary lattice of ranges and value-vector lengths, all unit ids, MBAP+RTU); bytes written per request compared with the reference encoder, or required to be empty for requests the protocol rejects. distinct = (api, kind, framing, accept/reject path, length class). AddressRange::try_from compared with its model separately".into(),
        assumptions: vec![
            "reference encoder in harness/vcommon/src/model.rs".into(),
            "the first transaction id of a session may be anything; later ids advance by 1 plus at most one per request rejected in between".into(),
        ],
        exhaustive: if exhaustive_ctor { Some(false) } else { None },
        floors: vec![
            ("frames_compared".into(), args.tier.pick(400_000, 10_000_000)),
            ("requests_that_must_be_rejected".into(), args.tier.pick(150_000, 3_000_000)),
        ],
        min_classes: 40,
    };
    if exhaustive_ctor {
        ev.count("address_range_constructor_space_fully_enumerated", 1);
    }
    finish(args, meta, ev, started)
}
