//! C01, C02, C08, C17: production server session vs reference server.

use crate::gen::*;
use crate::io::In;
use crate::server_run::*;
use crate::util::parallel;
use serde_json::json;
use std::collections::BTreeMap;
use std::time::Instant;
use vcommon::model::*;
use vcommon::report::*;
use vcommon::rng::Rng;

#[derive(Copy, Clone, Debug, PartialEq, Eq)]
pub enum Which {
    C01,
    C02,
    C08,
    C17,
}

impl Which {
    fn id(self) -> &'static str {
        match self {
            Which::C01 => "C01",
            Which::C02 => "C02",
            Which::C08 => "C08",
            Which::C17 => "C17",
        }
    }
    fn stream(self) -> u64 {
        match self {
            Which::C01 => 101,
            Which::C02 => 102,
            Which::C08 => 108,
            Which::C17 => 117,
        }
    }
    /// which discrepancy facets refute this property
    fn facets(self) -> &'static [&'static str] {
        match self {
            Which::C01 => &["reply", "extra_output", "panic", "wedge"],
            Which::C02 => &["calls", "store", "panic", "poison"],
            Which::C08 => &["reply", "extra_output", "calls", "store", "panic"],
            Which::C17 => &["reply", "extra_output", "calls", "store", "panic"],
        }
    }
}

pub const ROLES: [&str; 7] = [
    "",
    "operator",
    "viewer",
    "a-very-long-role-name-with-many-characters-0123456789-0123456789-0123456789",
    "rôle-ünïcode-✓",
    "tab\tand\u{1}ctl",
    "Operator",
];

pub fn gen_policy(rng: &mut Rng) -> Policy {
    let kind = match rng.below(10) {
        0 | 1 | 2 | 3 => PolicyKind::Pure,
        4 => PolicyKind::Alternate,
        5 => PolicyKind::AllowOnce,
        6 => PolicyKind::DenyOnce,
        7 => PolicyKind::ReadOnly,
        8 => PolicyKind::AllowAll,
        _ => PolicyKind::DenyAll,
    };
    Policy::new(kind, rng.next_u64(), ROLES[rng.usize_below(ROLES.len())])
}

pub struct GeneratedCase {
    pub case: ServerCase,
    pub tags: Vec<&'static str>,
    pub style: PartStyle,
}

pub fn gen_case(which: Which, seed: u64, n: u64) -> GeneratedCase {
    let mut rng = Rng::sub(seed, which.stream(), n);
    let framing = if rng.chance(2, 5) { Framing::Rtu } else { Framing::Mbap };
    let max_units = 4;
    let mut stores = gen_stores(&mut rng, seed, framing, max_units);
    if which == Which::C17 && rng.chance(1, 3) {
        // unit-id lattice from the property text
        stores.clear();
        for u in [1u8, 247, 248, 255] {
            if rng.chance(1, 2) {
                stores.insert(u, Store::new(rng.next_u64(), u, *rng.pick(&[0u64, 2])));
            }
        }
    }
    let policy = match which {
        Which::C08 => Some(gen_policy(&mut rng)),
        Which::C02 | Which::C17 => {
            if rng.chance(1, 4) {
                Some(gen_policy(&mut rng))
            } else {
                None
            }
        }
        Which::C01 => {
            if rng.chance(1, 8) {
                Some(gen_policy(&mut rng))
            } else {
                None
            }
        }
    };
    let negative_bias = match which {
        Which::C01 => 45,
        Which::C02 => 75,
        Which::C08 => 20,
        Which::C17 => 35,
    };
    let nreq = 1 + rng.usize_below(32);
    let mut tx = rng.u16();
    let mut stream = vec![];
    let mut boundaries = vec![];
    let mut tags = vec![];
    for i in 0..nreq {
        let (mut pdu, mut tag) = gen_pdu(&mut rng, framing, negative_bias);
        if which == Which::C02 {
            // C02 decides handler effects from the input alone: keep out the one input class
            // whose outcome the specification leaves open
            while tag.ends_with("bytecount_field") || matches!(parse_request(&pdu), Parsed::ValidOrInvalid(_)) {
                let x = gen_pdu(&mut rng, framing, negative_bias);
                pdu = x.0;
                tag = x.1;
            }
        }
        let unit = if which == Which::C17 {
            // every unit id gets exercised: walk the id space
            if rng.chance(1, 2) {
                gen_unit(&mut rng, &stores, framing)
            } else {
                ((n as usize * 37 + i * 11) % 256) as u8
            }
        } else {
            gen_unit(&mut rng, &stores, framing)
        };
        let frame = match framing {
            Framing::Mbap => mbap_frame(tx, unit, &pdu),
            Framing::Rtu => rtu_frame(unit, &pdu),
        };
        tx = tx.wrapping_add(1);
        stream.extend_from_slice(&frame);
        boundaries.push(stream.len());
        tags.push(tag);
    }
    let style = *rng.pick(&ALL_STYLES);
    let mut script = partition(&mut rng, &stream, &boundaries, style, None);
    script.push(In::Eof);
    let decode = (rng.u8() % 4, rng.u8() % 3, rng.u8() % 3);
    GeneratedCase {
        case: ServerCase {
            framing,
            stores,
            policy,
            script,
            decode,
            commands: vec![],
        },
        tags,
        style,
    }
}

pub fn case_json(case: &ServerCase) -> serde_json::Value {
    json!({
        "framing": case.framing.name(),
        "units": case.stores.iter().map(|(u, s)| json!({"unit": u, "seed": s.seed.to_string(), "exc_density": s.exc_density})).collect::<Vec<_>>(),
        "policy": case.policy.as_ref().map(|p| json!({"kind": format!("{:?}", p.kind), "seed": p.seed.to_string(), "role": p.role})),
        "decode": [case.decode.0, case.decode.1, case.decode.2],
        "script": case.script.iter().map(|i| match i {
            In::Chunk(c) => json!({"chunk": hex(c)}),
            In::Delay(d) => json!({"delay_ns": d.as_nanos() as u64}),
            In::Err(k) => json!({"err": format!("{k:?}")}),
            In::Eof => json!("eof"),
        }).collect::<Vec<_>>(),
        "commands": case.commands.iter().map(|(t, c)| json!({"at_ns": t.as_nanos() as u64, "cmd": format!("{c:?}")})).collect::<Vec<_>>(),
    })
}

fn run_one(which: Which, seed: u64, n: u64, ev: &mut Evidence) {
    let g = gen_case(which, seed, n);
    let obs = run_server_case(&g.case);
    let (disc, st) = compare_server_opt(&g.case, &obs, which == Which::C02);
    ev.eval();
    ev.count("requests", st.requests);
    ev.count("replies_compared", st.replies_compared);
    ev.count("reply_bytes_compared", st.bytes_compared);
    ev.count("dont_care_outcomes_taken", st.dont_care_taken);
    ev.count("handler_and_auth_calls_observed", st.handler_calls);
    ev.count("requests_with_no_handler_effect", st.invalid_with_zero_calls);
    ev.set("partition_styles", format!("{:?}", g.style));
    for c in &st.classes {
        ev.class(c.clone());
    }
    for f in &st.emitted_frames {
        ev.max("reply_frame_len", f.len() as u64);
    }
    if n < 3 {
        let stream = input_stream(&g.case.script);
        ev.sample(json!({
            "case": n,
            "framing": g.case.framing.name(),
            "units": g.case.stores.keys().collect::<Vec<_>>(),
            "policy": g.case.policy.as_ref().map(|p| format!("{:?}/{}", p.kind, p.role)),
            "input_hex": hex(&stream[..stream.len().min(96)]),
            "output_hex": hex(&obs.out[..obs.out.len().min(96)]),
            "handler_calls": obs.log.iter().take(6).map(|c| c.short()).collect::<Vec<_>>(),
            "generator_tags": g.tags.iter().take(8).collect::<Vec<_>>(),
            "session_end": obs.end,
        }));
    }
    for x in disc {
        if which.facets().contains(&x.facet) {
            ev.violation(
                x.sig.clone(),
                x.what.clone(),
                json!({"n": n, "case": case_json(&g.case), "facet": x.facet}),
            );
        } else {
            ev.count(&format!("other_property_facet_{}", x.facet), 1);
        }
    }
}

/// the (function byte) x (payload length) grid of C01, one request per session
fn run_grid(seed: u64, cell: u64, ev: &mut Evidence) {
    let fc = (cell / 253) as u8;
    let len = (cell % 253) as usize;
    let mut rng = Rng::sub(seed, 1001, cell);
    let pdu = grid_pdu(&mut rng, fc, len);
    let mut stores = BTreeMap::new();
    stores.insert(1u8, Store::new(seed ^ cell, 1, *rng.pick(&[0u64, 4])));
    let tx = rng.u16();
    let mut stream = mbap_frame(tx, 1, &pdu);
    // a sentinel read afterwards: the session must still answer
    stream.extend(mbap_frame(tx.wrapping_add(1), 1, &[3, 0, 5, 0, 2]));
    let case = ServerCase {
        framing: Framing::Mbap,
        stores,
        policy: None,
        script: vec![In::Chunk(stream), In::Eof],
        decode: (rng.u8() % 4, rng.u8() % 3, rng.u8() % 3),
        commands: vec![],
    };
    let obs = run_server_case(&case);
    let (disc, st) = compare_server(&case, &obs);
    ev.eval();
    ev.count("grid_cells", 1);
    ev.count("requests", st.requests);
    ev.count("replies_compared", st.replies_compared);
    ev.count("reply_bytes_compared", st.bytes_compared);
    ev.count("dont_care_outcomes_taken", st.dont_care_taken);
    for c in &st.classes {
        ev.class(format!("grid|{c}"));
    }
    for x in disc {
        if Which::C01.facets().contains(&x.facet) {
            ev.violation(
                x.sig.clone(),
                x.what.clone(),
                json!({"grid_cell": cell, "fc": fc, "len": len, "case": case_json(&case)}),
            );
        }
    }
}

/// direct calls on the built-in read-only policy object (public trait object)
fn run_read_only_direct(seed: u64, ev: &mut Evidence) {
    use rodbus::server::{Authorization, ReadOnlyAuthorizationHandler};
    use rodbus::{AddressRange, UnitId};
    let h = ReadOnlyAuthorizationHandler::create();
    let mut rng = Rng::sub(seed, 1008, 0);
    let mut n = 0u64;
    for unit in [0u8, 1, 17, 247, 255] {
        for role in ROLES {
            for _ in 0..40 {
                let qty = 1 + rng.below(2000) as u16;
                let start = rng.below(65536 - qty as u64 + 1) as u16;
                let r = AddressRange::try_from(start, qty).unwrap();
                let u = UnitId::new(unit);
                let reads = [
                    h.read_coils(u, r, role),
                    h.read_discrete_inputs(u, r, role),
                    h.read_holding_registers(u, r, role),
                    h.read_input_registers(u, r, role),
                ];
                let writes = [
                    h.write_single_coil(u, start, role),
                    h.write_single_register(u, start, role),
                    h.write_multiple_coils(u, r, role),
                    h.write_multiple_registers(u, r, role),
                ];
                n += 8;
                for (i, x) in reads.iter().enumerate() {
                    if *x != Authorization::Allow {
                        ev.violation(
                            format!("read_only_policy_denies_read:{i}"),
                            format!("built-in read-only policy denied read #{i} unit={unit} range={start}+{qty} role={role:?}"),
                            json!({"unit": unit, "start": start, "qty": qty, "role": role}),
                        );
                    }
                }
                for (i, x) in writes.iter().enumerate() {
                    if *x != Authorization::Deny {
                        ev.violation(
                            format!("read_only_policy_allows_write:{i}"),
                            format!("built-in read-only policy allowed write #{i} unit={unit} range={start}+{qty} role={role:?}"),
                            json!({"unit": unit, "start": start, "qty": qty, "role": role}),
                        );
                    }
                }
            }
        }
    }
    ev.count("read_only_policy_direct_calls", n);
    ev.class("direct|read_only_policy|reads_allowed");
    ev.class("direct|read_only_policy|writes_denied");
}

pub fn run(which: Which, args: &Args) -> i32 {
    let started = Instant::now();
    let sessions: u64 = match which {
        Which::C01 => args.tier.pick(150_000, 6_000_000),
        Which::C02 => args.tier.pick(150_000, 6_000_000),
        Which::C08 => args.tier.pick(150_000, 6_000_000),
        Which::C17 => args.tier.pick(150_000, 6_000_000),
    };
    let seed = args.seed;

    if let Some(path) = &args.replay {
        return replay(which, path);
    }

    let mut ev = Evidence::new();
    let parts = parallel(args.jobs, sessions, Evidence::new, |n, ev| {
        run_one(which, seed, n, ev)
    });
    for p in parts {
        ev.merge(p);
    }
    let mut exhaustive = None;
    if which == Which::C01 {
        // grid: every (function byte, payload length) pair; quick = stratified sample
        let cells: u64 = 256 * 253;
        let (count, stride) = match args.tier {
            Tier::Quick => (cells / 7 + 1, 7u64),
            Tier::Thorough => (cells, 1u64),
        };
        let offset = seed % stride;
        let parts = parallel(args.jobs, count, Evidence::new, |i, ev| {
            let cell = i * stride + offset;
            if cell < cells {
                run_grid(seed, cell, ev)
            }
        });
        for p in parts {
            ev.merge(p);
        }
        if args.tier == Tier::Thorough {
            exhaustive = Some(false);
            ev.count("grid_fully_enumerated", 1);
        }
    }
    if which == Which::C01 {
        // the real RTU server task on a pty that is lost and comes back (net engine)
        crate::util::merge_net_leg(&mut ev, args, "c01pty");
        crate::util::merge_net_leg(&mut ev, args, "c01tls");
    }
    if which == Which::C08 {
        run_read_only_direct(seed, &mut ev);
        // the certificate -> role -> authorization path on a real TLS server (net engine, independent peer)
        crate::util::merge_net_leg(&mut ev, args, "c08tls");
    }

    let meta = Meta {
        property_id: which.id(),
        level: "exploration",
        rule: match which {
            Which::C01 => "one evaluation = one server session (1-32 generated requests, random unit map/handler exception map/partition/decode level) or one (function byte, payload length) grid cell; compared byte-for-byte with the reference server. distinct = (framing, request parse class, reference outcome class, unit class) keys observed".into(),
            Which::C02 => "one evaluation = one server session weighted 3:1 to invalid requests; the ordered handler/authorization call log and the final application state are compared with the reference. distinct = (framing, parse class, outcome class, unit class)".into(),
            Which::C08 => "one evaluation = one session created with (authorization handler, role): pure/stateful/read-only policies, 7 role strings; interleaved auth+point call log, replies and state vs reference; plus direct calls on the built-in read-only policy; plus 24 cells over real TLS (authority / self-signed x operator / viewer certificate x read / write single / write multiple x min 1.2 / 1.3) with a role-based policy: reply bytes, authorization call arguments incl. the role from the certificate, point-handler write log. distinct = (framing, parse class, outcome class incl. denied_*, unit class)".into(),
            Which::C17 => "one evaluation = one session walking the unit-id space (all 256 ids) against handler maps of 0-4 units, RTU (broadcast) and MBAP; output stream and per-unit call logs vs reference. distinct = (framing, parse class, outcome class, unit class)".into(),
        },
        assumptions: vec![
            "reference server written from the Modbus application protocol and the property text".into(),
            "handler exceptions are a pure function of (seed, unit, table, address)".into(),
            "where several addresses of a read raise different exceptions any of them is accepted".into(),
            "byte-count field disagreeing with otherwise exact data: echo or exception 03 both accepted (C01/C08/C17); class excluded from C02".into(),
        ],
        exhaustive,
        floors: vec![
            ("requests".into(), args.tier.pick(1_000_000, 30_000_000)),
            ("replies_compared".into(), args.tier.pick(300_000, 10_000_000)),
            ("tls_roles_and_arguments_checked".into(), if which == Which::C08 { 20 } else { 0 }),
            ("tls_backlog_sessions".into(), if which == Which::C01 { args.tier.pick(8, 32) } else { 0 }),
            ("rtu_server_reopen_sessions".into(), if which == Which::C01 { args.tier.pick(4, 24) } else { 0 }),
        ],
        min_classes: 30,
    };
    finish(args, meta, ev, started)
}

fn replay(which: Which, path: &str) -> i32 {
    let text = match std::fs::read_to_string(path) {
        Ok(t) => t,
        Err(e) => {
            eprintln!("cannot read {path}: {e}");
            return EXIT_INCONCLUSIVE;
        }
    };
    let doc: serde_json::Value = serde_json::from_str(&text).unwrap_or(json!({}));
    let seed = doc["seed"].as_u64().unwrap_or(1);
    let mut ev = Evidence::new();
    if let Some(n) = doc["case"]["n"].as_u64() {
        run_one(which, seed, n, &mut ev);
    } else if let Some(cell) = doc["case"]["grid_cell"].as_u64() {
        run_grid(seed, cell, &mut ev);
    }
    for v in &ev.violations {
        println!("replayed violation: sig={} :: {}", v.sig, v.what);
    }
    if ev.violations.is_empty() {
        println!("replay: no violation reproduced");
        EXIT_OK
    } else {
        println!("VIOLATION property={} replay={}", which.id(), path);
        EXIT_VIOLATION
    }
}
