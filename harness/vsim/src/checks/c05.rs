//! C05: MBAP framing is segmentation-independent and rejects malformed headers.

use crate::client_run::*;
use crate::gen::*;
use crate::io::{sim_io, In, Seq};
use crate::server_run::*;
use crate::util::{decode_level, parallel};
use serde_json::json;
use std::collections::BTreeMap;
use std::sync::{Arc, Mutex};
use std::time::{Duration, Instant};
use vcommon::model::*;
use vcommon::report::*;
use vcommon::rng::Rng;

/// model of a 260-byte receive buffer, only to report how often the compaction path
/// (buffer full with already-consumed bytes in front) was exercised. Not used for verdicts.
fn compactions(chunks: &[usize], frame_ends: &[usize]) -> u64 {
    let (mut begin, mut end) = (0usize, 0usize);
    let mut delivered = 0usize;
    let mut consumed = 0usize;
    let mut n = 0u64;
    for c in chunks {
        let mut rem = *c;
        while rem > 0 {
            if begin == end {
                begin = 0;
                end = 0;
            }
            if end == 260 {
                if begin > 0 {
                    n += 1;
                }
                end -= begin;
                begin = 0;
                if end == 260 {
                    return n;
                }
            }
            let k = rem.min(260 - end);
            end += k;
            rem -= k;
            delivered += k;
            // consume every frame that is complete
            let new_consumed = frame_ends.iter().copied().filter(|e| *e <= delivered).max().unwrap_or(consumed).max(consumed);
            begin += new_consumed - consumed;
            consumed = new_consumed;
        }
    }
    n
}

fn gen_stream(rng: &mut Rng, stores: &BTreeMap<u8, Store>) -> (Vec<u8>, Vec<usize>, Option<&'static str>) {
    let nframes = 1 + rng.usize_below(40);
    let mut tx = rng.u16();
    let mut stream = vec![];
    let mut ends = vec![];
    for _ in 0..nframes {
        let (mut pdu, _) = gen_pdu(rng, Framing::Mbap, 35);
        match rng.below(12) {
            0 => pdu = vec![], // empty PDU (length field 1)
            1 => {
                // maximum-size PDU: unsupported function with 252 bytes, or a full write
                pdu = vec![0x41];
                pdu.extend(rng.bytes(252));
            }
            2 => {
                let qty = 123u16;
                pdu = vec![16];
                pdu.extend_from_slice(&rng.u16().min(65535 - 123).to_be_bytes());
                pdu.extend_from_slice(&qty.to_be_bytes());
                pdu.push(246);
                pdu.extend(rng.bytes(246));
            }
            _ => {}
        }
        let unit = gen_unit(rng, stores, Framing::Mbap);
        stream.extend(mbap_frame(tx, unit, &pdu));
        tx = tx.wrapping_add(1);
        ends.push(stream.len());
    }
    // optionally a malformed header followed by more bytes
    let fatal = match rng.below(8) {
        0 => {
            let proto = *rng.pick(&[1u16, 0x0100, 0xFFFF, 0x8000]);
            stream.extend(mbap_frame_raw(tx, proto, 6, 1, &[3, 0, 0, 0, 1]));
            Some("protocol_id")
        }
        1 => {
            stream.extend(mbap_frame_raw(tx, 0, 0, 1, &[]));
            Some("length_zero")
        }
        2 => {
            let len = *rng.pick(&[255u16, 256, 261, 0x7FFF, 0xFFFF]);
            stream.extend(mbap_frame_raw(tx, 0, len, 1, &rng.bytes(16)));
            Some("length_too_big")
        }
        _ => None,
    };
    if fatal.is_some() {
        // bytes after the malformed header: a perfectly valid write that must NOT be executed
        let unit = stores.keys().next().copied().unwrap_or(1);
        stream.extend(mbap_frame(tx.wrapping_add(1), unit, &[6, 0, 7, 0xAB, 0xCD]));
        let k = rng.usize_below(20);
        stream.extend(rng.bytes(k));
    }
    (stream, ends, fatal)
}

fn obs_record(o: &ServerObs) -> (Vec<u8>, Vec<Call>, (bool, bool), BTreeMap<u8, Store>) {
    (
        o.out.clone(),
        o.log.clone(),
        (o.end_is_bad_frame, o.end_is_io),
        o.final_stores.clone(),
    )
}

fn run_server_stream(seed: u64, n: u64, ev: &mut Evidence) {
    let mut rng = Rng::sub(seed, 105, n);
    let stores = {
        let mut s = gen_stores(&mut rng, seed, Framing::Mbap, 4);
        if s.is_empty() {
            s.insert(1, Store::new(seed ^ n, 1, 0));
        }
        s
    };
    let (stream, ends, fatal) = gen_stream(&mut rng, &stores);
    let decode = (rng.u8() % 4, rng.u8() % 3, rng.u8() % 3);
    let mut styles: Vec<PartStyle> = ALL_STYLES.to_vec();
    styles.push(PartStyle::Random);
    styles.push(PartStyle::BufferEdge);
    styles.push(PartStyle::HeaderBody);
    let mut base: Option<(Vec<u8>, Vec<Call>, (bool, bool), BTreeMap<u8, Store>)> = None;
    let mut base_style = PartStyle::Whole;
    for (si, style) in styles.iter().enumerate() {
        let with_delay = si % 3 == 2;
        let mut script = partition(
            &mut rng,
            &stream,
            &ends,
            *style,
            if with_delay { Some(Duration::from_millis(1)) } else { None },
        );
        script.push(In::Eof);
        // decode-level changes between chunks cancel and re-create the pending read
        let mut commands = vec![];
        if with_delay {
            let nchunks = script.len() as u64 / 2;
            for _ in 0..(1 + rng.below(4)) {
                let at = Duration::from_micros(rng.below(nchunks.max(1) * 1000) + 500);
                commands.push((at, Cmd::Decode(rng.u8() % 4, rng.u8() % 3, rng.u8() % 3)));
            }
            commands.sort_by_key(|c| c.0);
        }
        let sizes = chunk_sizes(&script);
        let case = ServerCase {
            framing: Framing::Mbap,
            stores: stores.clone(),
            policy: None,
            script,
            decode,
            commands,
        };
        let obs = run_server_case(&case);
        ev.eval();
        ev.count("server_executions", 1);
        ev.count("chunks_delivered", sizes.len() as u64);
        let comp = compactions(&sizes, &ends);
        if comp > 0 {
            ev.count("executions_reaching_buffer_compaction", 1);
        }
        ev.set("partitions", format!("{:?}", &sizes[..sizes.len().min(12)]));
        let (disc, st) = compare_server(&case, &obs);
        ev.count("frames_compared", st.requests);
        ev.class(format!(
            "server|{:?}|{}|delay={}|compaction={}",
            style,
            fatal.unwrap_or("clean"),
            with_delay,
            comp > 0
        ));
        let rep = json!({"n": n, "role": "server", "style": format!("{style:?}"), "chunk_sizes": &sizes[..sizes.len().min(64)], "stream_len": stream.len(), "fatal": fatal, "case": crate::checks::server_props::case_json(&case)});
        for x in &disc {
            // every facet matters here: a framing slip shows up as any of them
            ev.violation(
                format!("server:{:?}:{}", style, x.sig),
                format!("partition {:?}: {}", style, x.what),
                rep.clone(),
            );
        }
        if let Some(f) = fatal {
            if !obs.end_is_bad_frame && disc.is_empty() {
                ev.violation(
                    format!("server:malformed_header_{f}_did_not_end_session"),
                    format!("header with {f} did not end the session with a framing error: {:?}", obs.end),
                    rep.clone(),
                );
            }
            ev.count("malformed_headers_checked", 1);
        }
        let rec = obs_record(&obs);
        match &base {
            None => {
                base = Some(rec);
                base_style = *style;
            }
            Some(b) => {
                if *b != rec {
                    let which = if b.0 != rec.0 {
                        "output"
                    } else if b.1 != rec.1 {
                        "handler_calls"
                    } else if b.2 != rec.2 {
                        "session_end"
                    } else {
                        "state"
                    };
                    ev.violation(
                        format!("server:partition_dependence:{which}:{:?}_vs_{:?}", base_style, style),
                        format!("same byte stream, different {which} under partitions {:?} and {:?}", base_style, style),
                        rep.clone(),
                    );
                }
                ev.count("pairwise_partition_comparisons", 1);
            }
        }
    }
    if n < 2 {
        ev.sample(json!({"role": "server", "stream_len": stream.len(), "frames": ends.len(), "malformed_tail": fatal, "partitions_run": styles.len()}));
    }
}

/// client role: each request is answered by a mini-stream of frames (stale ones around the
/// genuine one), the whole mini-stream cut in different ways
fn run_client_stream(seed: u64, n: u64, ev: &mut Evidence) {
    let mut rng = Rng::sub(seed, 1105, n);
    let nreq = 1 + rng.usize_below(10);
    // per request: (count, frames before, frames after, pad pdu length, malformed tail)
    let plans: Vec<(u16, usize, usize, bool)> = (0..nreq)
        .map(|i| {
            (
                1 + rng.below(125) as u16,
                rng.usize_below(3),
                rng.usize_below(2),
                i + 1 == nreq && rng.chance(1, 4),
            )
        })
        .collect();
    let fill = rng.next_u64();
    let bad_kind = rng.below(3);
    let mut results_by_style: Vec<(PartStyle, Vec<String>, String)> = vec![];
    for style in [PartStyle::Whole, PartStyle::OneByte, PartStyle::Random, PartStyle::HeaderBody, PartStyle::BufferEdge, PartStyle::Random] {
        let plans2 = plans.clone();
        let mut prng = Rng::sub(seed, 2105, n * 16 + style as u64);
        let result = run_paused(|| async move {
            let seq = Seq::default();
            let (io, handle) = sim_io(vec![], seq.clone());
            let st = Arc::new(Mutex::new((RequestAssembler::new(Framing::Mbap), 0usize)));
            let plans3 = plans2.clone();
            handle.set_responder(Box::new(move |bytes, _| {
                let mut g = st.lock().unwrap();
                let frames = g.0.feed(bytes);
                let mut items = vec![];
                for f in frames {
                    let k = g.1;
                    g.1 += 1;
                    let Some((count, before, after, bad)) = plans3.get(k).copied() else { continue };
                    let tx = ((f[0] as u16) << 8) | f[1] as u16;
                    let req = ClientReq::Read { kind: Kind::ReadHolding, start: k as u16, count };
                    let mut mini = vec![];
                    let mut ends = vec![];
                    for j in 0..before {
                        mini.extend(mbap_frame(tx.wrapping_sub(1 + j as u16), f[6], &genuine_reply(&req, fill ^ 0xFF)));
                        ends.push(mini.len());
                    }
                    if bad {
                        let hdr = match bad_kind {
                            0 => mbap_frame_raw(tx, 7, 6, f[6], &[3, 2, 0, 0]),
                            1 => mbap_frame_raw(tx, 0, 0, f[6], &[]),
                            _ => mbap_frame_raw(tx, 0, 255, f[6], &[3, 2, 0, 0]),
                        };
                        mini.extend(hdr);
                        ends.push(mini.len());
                    }
                    mini.extend(mbap_frame(tx, f[6], &genuine_reply(&req, fill ^ k as u64)));
                    ends.push(mini.len());
                    for j in 0..after {
                        mini.extend(mbap_frame(tx.wrapping_add(1000 + j as u16), f[6], &genuine_reply(&req, fill ^ 0xEE)));
                        ends.push(mini.len());
                    }
                    items.extend(partition(&mut prng, &mini, &ends, style, None));
                }
                items
            }));
            let (channel, mut sim) = rodbus::verif::client(rodbus::verif::Framing::Mbap, 16, decode_level((1, 1, 1)), None);
            let task = tokio::spawn(async move { sim.run_session(Box::new(io)).await });
            channel.enable().await.unwrap();
            let start = tokio::time::Instant::now();
            let mut res = vec![];
            for (k, p) in plans2.iter().enumerate() {
                let slot = Slot::new(start, seq.clone());
                let req = ClientReq::Read { kind: Kind::ReadHolding, start: k as u16, count: p.0 };
                let _ = submit(&channel, Style::Callback, 7, Duration::from_secs(1), &req, slot.clone()).await;
                let _ = tokio::time::timeout(Duration::from_secs(5), slot.wait()).await;
                settle().await;
                res.push(slot.first().map(|c| c.res));
            }
            let finished = task.is_finished();
            drop(channel);
            let end = tokio::time::timeout(Duration::from_secs(3600), task).await;
            (res, finished, end.ok().and_then(|r| r.ok()))
        });
        ev.eval();
        ev.count("client_executions", 1);
        let rep = json!({"n": n, "role": "client", "style": format!("{style:?}")});
        match result {
            Err(p) => {
                ev.violation(format!("client_panic:{}", crate::util::panic_site(&p)), format!("client panicked: {p}"), rep);
                return;
            }
            Ok((res, _finished, end)) => {
                // expected: every request Ok with its own data, except a request whose
                // mini-stream contains a malformed header: framing error, session over
                for (k, p) in plans.iter().enumerate() {
                    let req = ClientReq::Read { kind: Kind::ReadHolding, start: k as u16, count: p.0 };
                    let want = decode_response(&req, &genuine_reply(&req, fill ^ k as u64));
                    match (&res[k], p.3) {
                        (Some(r), false) => {
                            if let Err(why) = result_matches(&want, &req, r) {
                                ev.violation(
                                    format!("client:{style:?}:request_result:{}", r.class()),
                                    format!("request #{k} under partition {style:?}: {why}, got {}", r.class()),
                                    rep.clone(),
                                );
                            } else {
                                ev.count("client_results_compared", 1);
                            }
                        }
                        (Some(Res::Err(rodbus::RequestError::BadFrame(_))), true) => {
                            ev.count("malformed_headers_checked", 1);
                            if !matches!(end, Some(rodbus::verif::SessionEnd::BadFrame)) {
                                ev.violation(
                                    format!("client:{style:?}:session_survived_malformed_header"),
                                    format!("malformed header in reply stream, session end = {end:?}"),
                                    rep.clone(),
                                );
                            }
                        }
                        (other, bad) => {
                            ev.violation(
                                format!("client:{style:?}:unexpected:{}", other.as_ref().map(|r| r.class()).unwrap_or("none".into())),
                                format!("request #{k} (malformed header in its reply stream: {bad}) completed with {other:?}"),
                                rep.clone(),
                            );
                        }
                    }
                }
                results_by_style.push((
                    style,
                    res.iter().map(|r| format!("{r:?}")).collect(),
                    format!("{end:?}"),
                ));
                ev.class(format!("client|{style:?}|bad_tail={}", plans.last().map(|p| p.3).unwrap_or(false)));
            }
        }
    }
    for w in results_by_style.windows(2) {
        if w[0].1 != w[1].1 || w[0].2 != w[1].2 {
            ev.violation(
                format!("client:partition_dependence:{:?}_vs_{:?}", w[0].0, w[1].0),
                "same reply byte stream, different request results under two partitions".to_string(),
                json!({"n": n, "role": "client"}),
            );
        }
        ev.count("pairwise_partition_comparisons", 1);
    }
}

pub fn run(args: &Args) -> i32 {
    let started = Instant::now();
    let seed = args.seed;
    if let Some(path) = &args.replay {
        let doc: serde_json::Value =
            serde_json::from_str(&std::fs::read_to_string(path).unwrap_or_default()).unwrap_or(json!({}));
        let mut ev = Evidence::new();
        if let Some(n) = doc["case"]["n"].as_u64() {
            if doc["case"]["role"] == "client" {
                run_client_stream(doc["seed"].as_u64().unwrap_or(1), n, &mut ev);
            } else {
                run_server_stream(doc["seed"].as_u64().unwrap_or(1), n, &mut ev);
            }
        }
        for v in &ev.violations {
            println!("replayed violation: sig={} :: {}", v.sig, v.what);
        }
        if ev.violations.is_empty() {
            println!("replay: no violation reproduced");
            return EXIT_OK;
        }
        println!("VIOLATION property=C05 replay={path}");
        return EXIT_VIOLATION;
    }
    let streams = args.tier.pick(12_000u64, 400_000);
    let cstreams = args.tier.pick(12_000u64, 300_000);
    let mut ev = Evidence::new();
    for p in parallel(args.jobs, streams + cstreams, Evidence::new, |i, ev| {
        if i < streams {
            run_server_stream(seed, i, ev)
        } else {
            run_client_stream(seed, i - streams, ev)
        }
    }) {
        ev.merge(p);
    }
    // the same property with the byte stream arriving as TLS records (net engine, independent TLS peer)
    crate::util::merge_net_leg(&mut ev, args, "c05tls");
    let meta = Meta {
        property_id: "C05",
        level: "exploration",
        rule: "one evaluation = one execution of one byte stream under one partition. Server role: streams of 1-40 MBAP frames (valid, invalid, empty, 253-byte PDUs) optionally ended by a malformed header (protocol id, length 0, length > 254) followed by a valid write; each stream runs under 10 partitions (whole, 1-byte, random, per-frame, header/body, 260-byte buffer edge, bursts), a third of them with virtual delays and decode-level commands cancelling the pending read. Client role: per request a mini-stream of stale + genuine frames cut the same ways. Oracles: pairwise equality across partitions, equality with the reference framing + reference server, session ends with a framing error at the malformed header and nothing after it is executed. TLS leg: the same kind of stream sent to a real rodbus TLS server by an independent TLS peer as one record / 1-byte / 7-byte / header-split / 259+261-byte / random records (reply stream and write log equal to the reference in every run, session closed at the malformed header, nothing behind it executed), and a real rodbus TLS client whose replies arrive in 1 / 3 / 7 / header-split / random records. distinct = (role, partition style, tail kind, delay, compaction reached)".into(),
        assumptions: vec![
            "compaction counter is computed from a harness model of a 260-byte buffer and is reported as coverage only".into(),
        ],
        exhaustive: None,
        floors: vec![
            ("server_executions".into(), args.tier.pick(100_000, 3_000_000)),
            ("client_executions".into(), args.tier.pick(60_000, 1_500_000)),
            ("executions_reaching_buffer_compaction".into(), args.tier.pick(1_000, 50_000)),
            ("malformed_headers_checked".into(), args.tier.pick(1_000, 50_000)),
            ("tls_server_runs".into(), args.tier.pick(50, 400)),
            ("tls_client_requests".into(), args.tier.pick(20, 200)),
            ("tls_session_closed_after_malformed_header".into(), args.tier.pick(20, 150)),
        ],
        min_classes: 30,
    };
    finish(args, meta, ev, started)
}
