//! Instrumented application handlers: every invocation is appended to one shared, ordered log.

use rodbus::server::{
    Authorization, AuthorizationHandler, RequestHandler, ServerHandlerMap, WriteCoils,
    WriteRegisters,
};
use rodbus::{AddressRange, ExceptionCode, Indexed, UnitId};
use std::collections::BTreeMap;
use std::sync::{Arc, Mutex};
use vcommon::model::{Call, Kind, Policy, PolicyKind, Req, Store, Table};

pub type Log = Arc<Mutex<Vec<Call>>>;

pub struct SimHandler {
    pub store: Store,
    pub log: Log,
}

fn ex(code: u8) -> ExceptionCode {
    ExceptionCode::from(code)
}

impl SimHandler {
    fn push(&self, c: Call) {
        self.log.lock().unwrap().push(c);
    }
}

impl RequestHandler for SimHandler {
    fn read_coil(&self, address: u16) -> Result<bool, ExceptionCode> {
        self.push(Call::Read {
            unit: self.store.unit,
            table: Table::Coil,
            addr: address,
        });
        self.store.read_bit(Table::Coil, address).map_err(ex)
    }

    fn read_discrete_input(&self, address: u16) -> Result<bool, ExceptionCode> {
        self.push(Call::Read {
            unit: self.store.unit,
            table: Table::Discrete,
            addr: address,
        });
        self.store.read_bit(Table::Discrete, address).map_err(ex)
    }

    fn read_holding_register(&self, address: u16) -> Result<u16, ExceptionCode> {
        self.push(Call::Read {
            unit: self.store.unit,
            table: Table::Holding,
            addr: address,
        });
        self.store.read_reg(Table::Holding, address).map_err(ex)
    }

    fn read_input_register(&self, address: u16) -> Result<u16, ExceptionCode> {
        self.push(Call::Read {
            unit: self.store.unit,
            table: Table::Input,
            addr: address,
        });
        self.store.read_reg(Table::Input, address).map_err(ex)
    }

    fn write_single_coil(&mut self, value: Indexed<bool>) -> Result<(), ExceptionCode> {
        self.push(Call::WriteSingleCoil {
            unit: self.store.unit,
            addr: value.index,
            value: value.value,
        });
        self.store
            .apply_write(&Req::WriteSingleCoil {
                addr: value.index,
                value: value.value,
            })
            .map_err(ex)
    }

    fn write_single_register(&mut self, value: Indexed<u16>) -> Result<(), ExceptionCode> {
        self.push(Call::WriteSingleReg {
            unit: self.store.unit,
            addr: value.index,
            value: value.value,
        });
        self.store
            .apply_write(&Req::WriteSingleReg {
                addr: value.index,
                value: value.value,
            })
            .map_err(ex)
    }

    fn write_multiple_coils(&mut self, values: WriteCoils) -> Result<(), ExceptionCode> {
        let hint = values.iterator.size_hint();
        let len = values.iterator.len();
        let items: Vec<(u16, bool)> = values.iterator.map(|x| (x.index, x.value)).collect();
        let hint_ok = hint == (items.len(), Some(items.len())) && len == items.len();
        self.push(Call::WriteMultiCoils {
            unit: self.store.unit,
            start: values.range.start,
            count: values.range.count,
            items: items.clone(),
            hint_ok,
        });
        self.store
            .apply_write(&Req::WriteMultiCoils {
                start: values.range.start,
                values: items.iter().map(|x| x.1).collect(),
            })
            .map_err(ex)
    }

    fn write_multiple_registers(&mut self, values: WriteRegisters) -> Result<(), ExceptionCode> {
        let hint = values.iterator.size_hint();
        let len = values.iterator.len();
        let items: Vec<(u16, u16)> = values.iterator.map(|x| (x.index, x.value)).collect();
        let hint_ok = hint == (items.len(), Some(items.len())) && len == items.len();
        self.push(Call::WriteMultiRegs {
            unit: self.store.unit,
            start: values.range.start,
            count: values.range.count,
            items: items.clone(),
            hint_ok,
        });
        self.store
            .apply_write(&Req::WriteMultiRegs {
                start: values.range.start,
                values: items.iter().map(|x| x.1).collect(),
            })
            .map_err(ex)
    }
}

pub type HandlerRef = Arc<Mutex<Box<SimHandler>>>;

/// Build the rodbus handler map and keep references to read the stores back afterwards
pub fn build_map(
    stores: &BTreeMap<u8, Store>,
    log: &Log,
) -> (ServerHandlerMap<SimHandler>, BTreeMap<u8, HandlerRef>) {
    let mut map = ServerHandlerMap::new();
    let mut refs = BTreeMap::new();
    let largest = stores.keys().next_back().copied();
    for (unit, store) in stores {
        // Adding a unit id a second time replaces the first handler. For the largest id and every
        // fourth one a decoy is registered first: whatever it is ever asked shows up in the call
        // log (a second time for a broadcast) or in the reply (its values differ).
        if Some(*unit) == largest || unit % 4 == 3 {
            let decoy = SimHandler {
                store: Store::new(store.seed ^ 0xDEC0, *unit, 0),
                log: log.clone(),
            }
            .wrap();
            map.add(UnitId::new(*unit), decoy);
        }
        let h = SimHandler {
            store: store.clone(),
            log: log.clone(),
        }
        .wrap();
        refs.insert(*unit, h.clone());
        map.add(UnitId::new(*unit), h);
    }
    (map, refs)
}

/// Authorization handler backed by the shared policy function
pub struct SimAuth {
    pub policy: Mutex<Policy>,
    pub log: Log,
    /// when the policy is ReadOnly, decisions come from the real built-in handler
    pub builtin: Option<Arc<dyn AuthorizationHandler>>,
}

impl SimAuth {
    pub fn new(policy: Policy, log: Log) -> Arc<dyn AuthorizationHandler> {
        let builtin = if policy.kind == PolicyKind::ReadOnly {
            Some(rodbus::server::ReadOnlyAuthorizationHandler::create())
        } else {
            None
        };
        Arc::new(SimAuth {
            policy: Mutex::new(policy),
            log,
            builtin,
        })
    }

    fn decide(
        &self,
        kind: Kind,
        unit: UnitId,
        start: u16,
        count: Option<u16>,
        role: &str,
    ) -> Authorization {
        self.log.lock().unwrap().push(Call::Auth {
            kind,
            unit: unit.value,
            start,
            count,
            role: role.to_string(),
        });
        if let Some(b) = &self.builtin {
            // keep the consultation counter in step, but let the real object decide
            self.policy.lock().unwrap().consultations += 1;
            let range = || AddressRange::try_from(start, count.unwrap_or(1)).unwrap();
            return match kind {
                Kind::ReadCoils => b.read_coils(unit, range(), role),
                Kind::ReadDiscrete => b.read_discrete_inputs(unit, range(), role),
                Kind::ReadHolding => b.read_holding_registers(unit, range(), role),
                Kind::ReadInput => b.read_input_registers(unit, range(), role),
                Kind::WriteSingleCoil => b.write_single_coil(unit, start, role),
                Kind::WriteSingleReg => b.write_single_register(unit, start, role),
                Kind::WriteMultiCoils => b.write_multiple_coils(unit, range(), role),
                Kind::WriteMultiRegs => b.write_multiple_registers(unit, range(), role),
            };
        }
        if self
            .policy
            .lock()
            .unwrap()
            .decide(kind, unit.value, start, count, role)
        {
            Authorization::Allow
        } else {
            Authorization::Deny
        }
    }
}

impl AuthorizationHandler for SimAuth {
    fn read_coils(&self, unit_id: UnitId, range: AddressRange, role: &str) -> Authorization {
        self.decide(Kind::ReadCoils, unit_id, range.start, Some(range.count), role)
    }
    fn read_discrete_inputs(
        &self,
        unit_id: UnitId,
        range: AddressRange,
        role: &str,
    ) -> Authorization {
        self.decide(
            Kind::ReadDiscrete,
            unit_id,
            range.start,
            Some(range.count),
            role,
        )
    }
    fn read_holding_registers(
        &self,
        unit_id: UnitId,
        range: AddressRange,
        role: &str,
    ) -> Authorization {
        self.decide(
            Kind::ReadHolding,
            unit_id,
            range.start,
            Some(range.count),
            role,
        )
    }
    fn read_input_registers(
        &self,
        unit_id: UnitId,
        range: AddressRange,
        role: &str,
    ) -> Authorization {
        self.decide(Kind::ReadInput, unit_id, range.start, Some(range.count), role)
    }
    fn write_single_coil(&self, unit_id: UnitId, idx: u16, role: &str) -> Authorization {
        self.decide(Kind::WriteSingleCoil, unit_id, idx, None, role)
    }
    fn write_single_register(&self, unit_id: UnitId, idx: u16, role: &str) -> Authorization {
        self.decide(Kind::WriteSingleReg, unit_id, idx, None, role)
    }
    fn write_multiple_coils(
        &self,
        unit_id: UnitId,
        range: AddressRange,
        role: &str,
    ) -> Authorization {
        self.decide(
            Kind::WriteMultiCoils,
            unit_id,
            range.start,
            Some(range.count),
            role,
        )
    }
    fn write_multiple_registers(
        &self,
        unit_id: UnitId,
        range: AddressRange,
        role: &str,
    ) -> Authorization {
        self.decide(
            Kind::WriteMultiRegs,
            unit_id,
            range.start,
            Some(range.count),
            role,
        )
    }
}
