//! Panic capture, decode levels, tracing sink, worker pool.

use std::cell::RefCell;
use std::sync::Once;

thread_local! {
    static LAST_PANIC: RefCell<Option<String>> = const { RefCell::new(None) };
}

static HOOK: Once = Once::new();

pub fn install_panic_hook() {
    HOOK.call_once(|| {
        std::panic::set_hook(Box::new(|info| {
            let loc = info
                .location()
                .map(|l| format!("{}:{}", l.file(), l.line()))
                .unwrap_or_else(|| "?".into());
            let msg = if let Some(s) = info.payload().downcast_ref::<&str>() {
                s.to_string()
            } else if let Some(s) = info.payload().downcast_ref::<String>() {
                s.clone()
            } else {
                "<non-string panic>".to_string()
            };
            LAST_PANIC.with(|p| *p.borrow_mut() = Some(format!("{msg} @ {loc}")));
        }));
    });
}

/// run `f`, converting a panic into Err("message @ file:line")
pub fn catch<R>(f: impl FnOnce() -> R) -> Result<R, String> {
    install_panic_hook();
    LAST_PANIC.with(|p| *p.borrow_mut() = None);
    match std::panic::catch_unwind(std::panic::AssertUnwindSafe(f)) {
        // a panic inside a spawned task is caught by the runtime and only surfaces as a JoinError (or as
        // `Shutdown` results); the hook has recorded it on this thread all the same
        Ok(r) => match LAST_PANIC.with(|p| p.borrow_mut().take()) {
            None => Ok(r),
            Some(p) => Err(p),
        },
        Err(_) => Err(LAST_PANIC
            .with(|p| p.borrow_mut().take())
            .unwrap_or_else(|| "panic (no message)".into())),
    }
}

/// "file:line" part of a captured panic, with repo prefix stripped, for signatures
pub fn panic_site(p: &str) -> String {
    let site = p.rsplit(" @ ").next().unwrap_or("?");
    let site = site.rsplit("/repo/").next().unwrap_or(site);
    site.replace(' ', "_")
}

pub fn decode_level(l: (u8, u8, u8)) -> rodbus::DecodeLevel {
    use rodbus::{AppDecodeLevel as A, FrameDecodeLevel as F, PhysDecodeLevel as P};
    rodbus::DecodeLevel::new(
        match l.0 % 4 {
            0 => A::Nothing,
            1 => A::FunctionCode,
            2 => A::DataHeaders,
            _ => A::DataValues,
        },
        match l.1 % 3 {
            0 => F::Nothing,
            1 => F::Header,
            _ => F::Payload,
        },
        match l.2 % 3 {
            0 => P::Nothing,
            1 => P::Length,
            _ => P::Data,
        },
    )
}

pub const DECODE_NOTHING: (u8, u8, u8) = (0, 0, 0);
pub const DECODE_MAX: (u8, u8, u8) = (3, 2, 2);

struct Sink;
impl std::io::Write for Sink {
    fn write(&mut self, buf: &[u8]) -> std::io::Result<usize> {
        BYTES_FORMATTED.fetch_add(buf.len() as u64, std::sync::atomic::Ordering::Relaxed);
        Ok(buf.len())
    }
    fn flush(&mut self) -> std::io::Result<()> {
        Ok(())
    }
}

pub static BYTES_FORMATTED: std::sync::atomic::AtomicU64 = std::sync::atomic::AtomicU64::new(0);

/// Install a subscriber that really formats every event (so Display / decode paths execute)
/// and throws the text away.
pub fn install_tracing_sink() {
    static T: Once = Once::new();
    T.call_once(|| {
        if std::env::var("VERIF_TRACE_STDERR").is_ok() {
            let _ = tracing_subscriber::fmt()
                .with_max_level(tracing::Level::TRACE)
                .with_writer(std::io::stderr)
                .try_init();
        } else {
            let _ = tracing_subscriber::fmt()
                .with_max_level(tracing::Level::TRACE)
                .with_ansi(false)
                .with_writer(|| Sink)
                .try_init();
        }
    });
}

/// Run `n` cases on `jobs` worker threads; each worker folds into its own accumulator.
pub fn parallel<A: Send + 'static>(
    jobs: usize,
    n: u64,
    init: impl Fn() -> A + Sync,
    work: impl Fn(u64, &mut A) + Sync,
) -> Vec<A> {
    let next = std::sync::atomic::AtomicU64::new(0);
    std::thread::scope(|scope| {
        let mut hs = vec![];
        for _ in 0..jobs {
            hs.push(scope.spawn(|| {
                let mut acc = init();
                loop {
                    let i = next.fetch_add(1, std::sync::atomic::Ordering::Relaxed);
                    if i >= n {
                        break;
                    }
                    work(i, &mut acc);
                }
                acc
            }));
        }
        hs.into_iter().map(|h| h.join().unwrap()).collect()
    })
}

/// Run a leg that lives in the net engine (`vnet <leg> --out file`) and merge its evidence.
pub fn merge_net_leg(ev: &mut vcommon::report::Evidence, args: &vcommon::report::Args, leg: &str) {
    use vcommon::report::{verif_root, Evidence};
    let exe = std::env::current_exe().ok().and_then(|p| p.parent().map(|d| d.join("vnet")));
    let out = verif_root().join("out").join(format!("{leg}-{}.json", std::process::id()));
    let _ = std::fs::create_dir_all(verif_root().join("out"));
    match exe {
        Some(exe) if exe.exists() => {
            let st = std::process::Command::new(&exe)
                .args([leg, "--tier", args.tier.name(), "--seed", &(args.seed as i64).to_string(), "--out"])
                .arg(&out)
                .stdout(std::process::Stdio::null())
                .status();
            match (st, std::fs::read_to_string(&out).ok().and_then(|t| serde_json::from_str::<serde_json::Value>(&t).ok())) {
                (Ok(s), Some(v)) if s.success() => ev.merge(Evidence::from_json(&v)),
                _ => ev.inconclusive(format!("the net engine did not deliver the {leg} part of the evidence")),
            }
            let _ = std::fs::remove_file(&out);
        }
        _ => ev.inconclusive("vnet binary not found next to vsim"),
    }
}
