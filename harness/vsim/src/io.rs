//! Scripted in-memory transport. A script *is* a partition of the inbound stream into
//! network reads: `poll_read` never merges chunks and returns at most the rest of the current
//! chunk. Everything is recorded at the boundary with virtual timestamps.

use std::collections::VecDeque;
use std::future::Future;
use std::pin::Pin;
use std::sync::atomic::{AtomicU64, Ordering};
use std::sync::{Arc, Mutex};
use std::task::{Context, Poll, Waker};
use std::time::Duration;
use tokio::io::{AsyncRead, AsyncWrite, ReadBuf};
use tokio::time::{Instant, Sleep};

#[derive(Clone, Debug)]
pub enum In {
    Chunk(Vec<u8>),
    Delay(Duration),
    Err(std::io::ErrorKind),
    Eof,
}

#[derive(Clone, Debug)]
pub enum WriteStep {
    /// accept at most this many bytes of the next write call
    AcceptAtMost(usize),
    Fail(std::io::ErrorKind),
}

#[derive(Clone, Debug)]
pub struct OutRec {
    pub at: Duration,
    pub seq: u64,
    pub bytes: Vec<u8>,
}

/// global logical clock shared by the transport and other boundary recorders
#[derive(Clone, Default)]
pub struct Seq(Arc<AtomicU64>);

impl Seq {
    pub fn next(&self) -> u64 {
        self.0.fetch_add(1, Ordering::SeqCst)
    }
}

pub type Responder = Box<dyn FnMut(&[u8], Duration) -> Vec<In> + Send>;

pub struct Shared {
    pub inq: VecDeque<In>,
    cur_off: usize,
    sleep: Option<Pin<Box<Sleep>>>,
    waker: Option<Waker>,
    pub out: Vec<OutRec>,
    pub write_plan: VecDeque<WriteStep>,
    /// back-pressure: every write call accepts at most `.0` bytes, then the transport is not
    /// writable for `.1` of virtual time
    pub write_chunking: Option<(usize, Duration)>,
    wsleep: Option<Pin<Box<Sleep>>>,
    wstall_armed: bool,
    /// the peer has stopped reading: writes never complete
    pub write_blocked: bool,
    wwaker: Option<Waker>,
    /// ready reads since the transport last made its task yield. A real tokio socket takes part in
    /// cooperative scheduling (a task is forced to yield after 128 ready operations); without this an
    /// always-ready scripted transport would let the session monopolise the single-threaded runtime,
    /// and no command could ever be delivered while input is available.
    ready_reads_since_yield: u32,
    pub read_polls: u64,
    pub read_polls_since_progress: u64,
    pub max_read_polls_without_progress: u64,
    pub write_polls: u64,
    pub bytes_delivered: u64,
    pub dropped: bool,
    pub dropped_at: Option<Duration>,
    pub start: Instant,
    pub responder: Option<Responder>,
    pub seq: Seq,
    /// (seq, stream offset after delivery, virtual instant) for every delivered chunk
    pub deliveries: Vec<(u64, u64, Duration)>,
    pub eof_delivered: bool,
    pub err_delivered: Option<std::io::ErrorKind>,
    pub spin_detected: bool,
}

/// read polls without any progress (no byte, no timer, no error) before we call it a spin
pub const SPIN_LIMIT: u64 = 50_000;

#[derive(Clone)]
pub struct Handle(pub Arc<Mutex<Shared>>);

pub struct SimIo {
    shared: Arc<Mutex<Shared>>,
}

pub fn sim_io(script: Vec<In>, seq: Seq) -> (SimIo, Handle) {
    let shared = Arc::new(Mutex::new(Shared {
        inq: script.into(),
        cur_off: 0,
        sleep: None,
        waker: None,
        out: vec![],
        write_plan: VecDeque::new(),
        write_chunking: None,
        wsleep: None,
        wstall_armed: false,
        write_blocked: false,
        wwaker: None,
        ready_reads_since_yield: 0,
        read_polls: 0,
        read_polls_since_progress: 0,
        max_read_polls_without_progress: 0,
        write_polls: 0,
        bytes_delivered: 0,
        dropped: false,
        dropped_at: None,
        start: Instant::now(),
        responder: None,
        seq,
        deliveries: vec![],
        eof_delivered: false,
        err_delivered: None,
        spin_detected: false,
    }));
    (
        SimIo {
            shared: shared.clone(),
        },
        Handle(shared),
    )
}

impl Handle {
    pub fn push(&self, items: Vec<In>) {
        let mut s = self.0.lock().unwrap();
        s.inq.extend(items);
        if let Some(w) = s.waker.take() {
            w.wake();
        }
    }
    pub fn set_responder(&self, r: Responder) {
        self.0.lock().unwrap().responder = Some(r);
    }
    /// the peer stops (or resumes) reading: while blocked, every write stays pending
    pub fn set_write_blocked(&self, blocked: bool) {
        let mut s = self.0.lock().unwrap();
        s.write_blocked = blocked;
        if !blocked {
            if let Some(w) = s.wwaker.take() {
                w.wake();
            }
        }
    }
    pub fn set_write_chunking(&self, bytes: usize, stall: Duration) {
        self.0.lock().unwrap().write_chunking = Some((bytes.max(1), stall));
    }
    pub fn set_write_plan(&self, plan: Vec<WriteStep>) {
        self.0.lock().unwrap().write_plan = plan.into();
    }
    pub fn out_bytes(&self) -> Vec<u8> {
        let s = self.0.lock().unwrap();
        s.out.iter().flat_map(|r| r.bytes.iter().copied()).collect()
    }
    pub fn out_records(&self) -> Vec<OutRec> {
        self.0.lock().unwrap().out.clone()
    }
    pub fn dropped(&self) -> bool {
        self.0.lock().unwrap().dropped
    }
    pub fn with<R>(&self, f: impl FnOnce(&mut Shared) -> R) -> R {
        f(&mut self.0.lock().unwrap())
    }
}

impl Drop for SimIo {
    fn drop(&mut self) {
        let mut s = self.shared.lock().unwrap();
        s.dropped = true;
        s.dropped_at = Some(Instant::now().saturating_duration_since(s.start));
    }
}

impl AsyncRead for SimIo {
    fn poll_read(
        self: Pin<&mut Self>,
        cx: &mut Context<'_>,
        buf: &mut ReadBuf<'_>,
    ) -> Poll<std::io::Result<()>> {
        let mut guard = self.shared.lock().unwrap();
        let s = &mut *guard;
        s.read_polls += 1;
        s.read_polls_since_progress += 1;
        if s.read_polls_since_progress > SPIN_LIMIT {
            // the caller keeps polling without consuming anything and without yielding to a
            // timer: break the loop and report it
            s.spin_detected = true;
            s.read_polls_since_progress = 0;
            return Poll::Ready(Err(std::io::Error::other("verif: spin detected")));
        }
        if s.read_polls_since_progress > s.max_read_polls_without_progress {
            s.max_read_polls_without_progress = s.read_polls_since_progress;
        }
        loop {
            match s.inq.front() {
                None => {
                    s.waker = Some(cx.waker().clone());
                    return Poll::Pending;
                }
                Some(In::Delay(d)) => {
                    if s.sleep.is_none() {
                        s.sleep = Some(Box::pin(tokio::time::sleep(*d)));
                    }
                    match s.sleep.as_mut().unwrap().as_mut().poll(cx) {
                        Poll::Pending => return Poll::Pending,
                        Poll::Ready(()) => {
                            s.sleep = None;
                            s.inq.pop_front();
                            s.read_polls_since_progress = 0;
                            continue;
                        }
                    }
                }
                Some(In::Err(kind)) => {
                    let kind = *kind;
                    s.inq.pop_front();
                    s.err_delivered = Some(kind);
                    s.read_polls_since_progress = 0;
                    return Poll::Ready(Err(std::io::Error::from(kind)));
                }
                Some(In::Eof) => {
                    // EOF is sticky: every later read also reports end of stream
                    s.eof_delivered = true;
                    s.read_polls_since_progress = 0;
                    return Poll::Ready(Ok(()));
                }
                Some(In::Chunk(c)) => {
                    if c.is_empty() || s.cur_off >= c.len() {
                        s.inq.pop_front();
                        s.cur_off = 0;
                        continue;
                    }
                    if buf.remaining() == 0 {
                        // a zero-capacity read would look like EOF to the caller
                        return Poll::Ready(Ok(()));
                    }
                    if s.ready_reads_since_yield >= 64 {
                        s.ready_reads_since_yield = 0;
                        s.read_polls_since_progress = s.read_polls_since_progress.saturating_sub(1);
                        cx.waker().wake_by_ref();
                        return Poll::Pending;
                    }
                    s.ready_reads_since_yield += 1;
                    let n = (c.len() - s.cur_off).min(buf.remaining());
                    buf.put_slice(&c[s.cur_off..s.cur_off + n]);
                    s.cur_off += n;
                    if s.cur_off >= c.len() {
                        s.inq.pop_front();
                        s.cur_off = 0;
                    }
                    s.bytes_delivered += n as u64;
                    s.read_polls_since_progress = 0;
                    let q = s.seq.next();
                    let off = s.bytes_delivered;
                    let at = Instant::now().saturating_duration_since(s.start);
                    s.deliveries.push((q, off, at));
                    return Poll::Ready(Ok(()));
                }
            }
        }
    }
}

impl AsyncWrite for SimIo {
    fn poll_write(
        self: Pin<&mut Self>,
        cx: &mut Context<'_>,
        data: &[u8],
    ) -> Poll<std::io::Result<usize>> {
        let mut guard = self.shared.lock().unwrap();
        let s = &mut *guard;
        s.write_polls += 1;
        if s.write_blocked {
            s.wwaker = Some(cx.waker().clone());
            return Poll::Pending;
        }
        if let Some((_, stall)) = s.write_chunking {
            if s.wstall_armed {
                if s.wsleep.is_none() {
                    s.wsleep = Some(Box::pin(tokio::time::sleep(stall)));
                }
                match s.wsleep.as_mut().unwrap().as_mut().poll(cx) {
                    Poll::Pending => return Poll::Pending,
                    Poll::Ready(()) => {
                        s.wsleep = None;
                        s.wstall_armed = false;
                    }
                }
            }
        }
        // writes take part in the cooperative budget like reads do
        if s.ready_reads_since_yield >= 64 {
            s.ready_reads_since_yield = 0;
            cx.waker().wake_by_ref();
            return Poll::Pending;
        }
        s.ready_reads_since_yield += 1;
        let n = match s.write_plan.pop_front() {
            None => data.len(),
            Some(WriteStep::AcceptAtMost(k)) => data.len().min(k.max(1)),
            Some(WriteStep::Fail(kind)) => return Poll::Ready(Err(std::io::Error::from(kind))),
        };
        let n = match s.write_chunking {
            Some((k, _)) => {
                s.wstall_armed = true;
                n.min(k)
            }
            None => n,
        };
        let at = Instant::now().saturating_duration_since(s.start);
        let seq = s.seq.next();
        s.out.push(OutRec {
            at,
            seq,
            bytes: data[..n].to_vec(),
        });
        if let Some(mut r) = s.responder.take() {
            let items = r(&data[..n], at);
            s.responder = Some(r);
            if !items.is_empty() {
                s.inq.extend(items);
                if let Some(w) = s.waker.take() {
                    w.wake();
                }
            }
        }
        Poll::Ready(Ok(n))
    }

    fn poll_flush(self: Pin<&mut Self>, _cx: &mut Context<'_>) -> Poll<std::io::Result<()>> {
        Poll::Ready(Ok(()))
    }

    fn poll_shutdown(self: Pin<&mut Self>, _cx: &mut Context<'_>) -> Poll<std::io::Result<()>> {
        Poll::Ready(Ok(()))
    }
}
