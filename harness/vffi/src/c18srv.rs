//! C18, server side of the C ABI beyond the write handler: what the three TCP/TLS server
//! constructors do with `max_sessions`, and what the C authorization callbacks are asked and
//! answered for each of the eight functions.

use crate::c19::next_port;
use crate::util::*;
use rodbus::client::*;
use rodbus::*;
use rodbus_ffi::ffi;
use serde_json::json;
use std::net::{IpAddr, Ipv4Addr};
use std::os::raw::{c_char, c_int, c_void};
use std::sync::atomic::{AtomicU32, Ordering};
use std::sync::{Arc, Mutex};
use std::time::{Duration, Instant};
use vcommon::report::*;

fn fixture(name: &str) -> String {
    verif_root().join("fixtures").join("pki").join(name).display().to_string()
}

// ------------------------------------------------------------------------------------------
// a C authorization handler with one callback per function, a log and a per-function answer
// ------------------------------------------------------------------------------------------

pub struct PolicyCtx {
    /// bit k set = function k allowed (order of FUNCS)
    pub mask: AtomicU32,
    pub log: Mutex<Vec<(String, u8, u16, u16, String)>>,
    pub destroys: AtomicU32,
}

pub const FUNCS: [&str; 8] = [
    "read_coils",
    "read_discrete_inputs",
    "read_holding_registers",
    "read_input_registers",
    "write_single_coil",
    "write_single_register",
    "write_multiple_coils",
    "write_multiple_registers",
];

fn decide(ctx: *mut c_void, k: usize, unit: u8, a: u16, b: u16, role: *const c_char) -> c_int {
    let c = unsafe { &*(ctx as *const PolicyCtx) };
    let role = unsafe { std::ffi::CStr::from_ptr(role) }.to_string_lossy().to_string();
    c.log.lock().unwrap().push((FUNCS[k].to_string(), unit, a, b, role));
    if c.mask.load(Ordering::SeqCst) & (1 << k) != 0 {
        ffi::Authorization::Allow.into()
    } else {
        ffi::Authorization::Deny.into()
    }
}

macro_rules! range_cb {
    ($name:ident, $k:expr) => {
        extern "C" fn $name(unit: u8, r: ffi::AddressRange, role: *const c_char, ctx: *mut c_void) -> c_int {
            decide(ctx, $k, unit, r.start, r.count, role)
        }
    };
}
macro_rules! index_cb {
    ($name:ident, $k:expr) => {
        extern "C" fn $name(unit: u8, idx: u16, role: *const c_char, ctx: *mut c_void) -> c_int {
            decide(ctx, $k, unit, idx, 0, role)
        }
    };
}
range_cb!(p_read_coils, 0);
range_cb!(p_read_discrete, 1);
range_cb!(p_read_holding, 2);
range_cb!(p_read_input, 3);
index_cb!(p_write_single_coil, 4);
index_cb!(p_write_single_register, 5);
range_cb!(p_write_multiple_coils, 6);
range_cb!(p_write_multiple_registers, 7);

extern "C" fn p_on_destroy(ctx: *mut c_void) {
    let c = unsafe { &*(ctx as *const PolicyCtx) };
    c.destroys.fetch_add(1, Ordering::SeqCst);
}

fn policy_handler(mask: u32) -> (Arc<PolicyCtx>, ffi::AuthorizationHandler) {
    let c = Arc::new(PolicyCtx { mask: AtomicU32::new(mask), log: Mutex::new(vec![]), destroys: AtomicU32::new(0) });
    let p = keep(c.clone());
    (
        c,
        ffi::AuthorizationHandler {
            read_coils: Some(p_read_coils),
            read_discrete_inputs: Some(p_read_discrete),
            read_holding_registers: Some(p_read_holding),
            read_input_registers: Some(p_read_input),
            write_single_coil: Some(p_write_single_coil),
            write_single_register: Some(p_write_single_register),
            write_multiple_coils: Some(p_write_multiple_coils),
            write_multiple_registers: Some(p_write_multiple_registers),
            on_destroy: Some(p_on_destroy),
            ctx: p,
        },
    )
}

#[derive(Copy, Clone, PartialEq, Debug)]
enum Variant {
    Tcp,
    Tls,
    TlsAuthz,
}

struct CServer {
    server: *mut rodbus_ffi::Server,
    port: u16,
    wh: Arc<WhCtx>,
    policy: Option<Arc<PolicyCtx>>,
}

fn start(rt: &Rt, variant: Variant, max_sessions: u16, mask: u32) -> Result<CServer, i32> {
    unsafe {
        let map = ffi::rodbus_device_map_create();
        let (wh, handler) = write_handler(true);
        let (_c, cb) = db_callback_with(|db| {
            for i in 0..16u16 {
                ffi::rodbus_database_add_coil(db, i, i % 2 == 0);
                ffi::rodbus_database_add_discrete_input(db, i, i % 3 == 0);
                ffi::rodbus_database_add_holding_register(db, i, 0x1000 + i);
                ffi::rodbus_database_add_input_register(db, i, 0x2000 + i);
            }
        });
        ffi::rodbus_device_map_add_endpoint(map, 1, handler, cb);
        let filter = ffi::rodbus_address_filter_any();
        let port = next_port();
        let ip = cstr("127.0.0.1");
        let mut server = std::ptr::null_mut();
        let (a, b, c, d) = (cstr(&fixture("ca1.cert.pem")), cstr(&fixture("server_valid.cert.pem")), cstr(&fixture("server_valid.key.pem")), cstr(""));
        let tls = ffi::TlsServerConfig { peer_cert_path: a.as_ptr(), local_cert_path: b.as_ptr(), private_key_path: c.as_ptr(), password: d.as_ptr(), min_tls_version: 0, certificate_mode: 0 };
        let mut policy = None;
        let rc = match variant {
            Variant::Tcp => ffi::rodbus_server_create_tcp(rt.0, ip.as_ptr(), port, filter, max_sessions, map, decode(0, 0, 0), &mut server),
            Variant::Tls => ffi::rodbus_server_create_tls(rt.0, ip.as_ptr(), port, filter, max_sessions, map, tls, decode(0, 0, 0), &mut server),
            Variant::TlsAuthz => {
                let (p, h) = policy_handler(mask);
                policy = Some(p);
                ffi::rodbus_server_create_tls_with_authz(rt.0, ip.as_ptr(), port, filter, max_sessions, map, tls, h, decode(0, 0, 0), &mut server)
            }
        };
        ffi::rodbus_address_filter_destroy(filter);
        ffi::rodbus_device_map_destroy(map);
        if rc != 0 {
            return Err(rc);
        }
        Ok(CServer { server, port, wh, policy })
    }
}

struct StateLog {
    states: Arc<Mutex<Vec<ClientState>>>,
}
impl Listener<ClientState> for StateLog {
    fn update(&mut self, v: ClientState) -> MaybeAsync<()> {
        self.states.lock().unwrap().push(v);
        MaybeAsync::ready(())
    }
}

struct RustPeer {
    channel: Channel,
    states: Arc<Mutex<Vec<ClientState>>>,
}

async fn connect(variant: Variant, port: u16) -> Option<RustPeer> {
    connect_as(variant, port, "client_operator").await
}

async fn connect_as(variant: Variant, port: u16, cert: &str) -> Option<RustPeer> {
    let states = Arc::new(Mutex::new(vec![]));
    let addr = HostAddr::ip(IpAddr::V4(Ipv4Addr::LOCALHOST), port);
    let retry = doubling_retry_strategy(Duration::from_secs(600), Duration::from_secs(600));
    let listener: Option<Box<dyn Listener<ClientState>>> = Some(Box::new(StateLog { states: states.clone() }));
    let channel = if variant == Variant::Tcp {
        spawn_tcp_client_task(addr, 8, retry, DecodeLevel::nothing(), listener)
    } else {
        let cfg = TlsClientConfig::full_pki(
            Some("test.server".to_string()),
            std::path::Path::new(&fixture("ca1.cert.pem")),
            std::path::Path::new(&fixture(&format!("{cert}.cert.pem"))),
            std::path::Path::new(&fixture(&format!("{cert}.key.pem"))),
            None,
            MinTlsVersion::V1_2,
        )
        .ok()?;
        spawn_tls_client_task(addr, 8, retry, cfg, DecodeLevel::nothing(), listener)
    };
    let _ = channel.enable().await;
    let t0 = Instant::now();
    while t0.elapsed() < Duration::from_secs(8) {
        if states.lock().unwrap().iter().any(|s| matches!(s, ClientState::Connected | ClientState::WaitAfterFailedConnect(_))) {
            break;
        }
        tokio::time::sleep(Duration::from_millis(3)).await;
    }
    if !states.lock().unwrap().iter().any(|s| matches!(s, ClientState::Connected)) {
        return None;
    }
    Some(RustPeer { channel, states })
}

fn param() -> RequestParam {
    RequestParam::new(UnitId::new(1), Duration::from_secs(2))
}

/// The role the C authorization callbacks are given is the role of the client certificate, whatever it
/// is. A role that a C string cannot carry (a NUL inside) must not reach the callback as something
/// else (its prefix): then the only faithful outcomes are "not consulted and denied" or no session.
fn role_cells(rt: &Rt, trt: &tokio::runtime::Runtime, ev: &mut Evidence) {
    for (cert, role) in [("client_operator", "operator"), ("client_viewer", "viewer"), ("client_emptyrole", ""), ("client_nulrole", "operator\0x")] {
        ev.eval();
        ev.count("authorization_role_cells", 1);
        let srv = match start(rt, Variant::TlsAuthz, 4, 0xFF) {
            Ok(s) => s,
            Err(rc) => {
                ev.inconclusive(format!("rodbus_server_create_tls_with_authz returned {rc}"));
                continue;
            }
        };
        let policy = srv.policy.clone().unwrap();
        let port = srv.port;
        let results = trt.block_on(async {
            let p = connect_as(Variant::TlsAuthz, port, cert).await?;
            let ch = &p.channel;
            let a = ch.read_holding_registers(param(), AddressRange::try_from(0, 2).unwrap()).await.map(|_| ());
            let b = ch.write_single_register(param(), Indexed::new(5, 0x1234)).await.map(|_| ());
            let _ = ch.shutdown().await;
            Some((a, b))
        });
        let log = policy.log.lock().unwrap().clone();
        unsafe { ffi::rodbus_server_destroy(srv.server) };
        let seen: Vec<String> = log.iter().map(|l| l.4.clone()).collect();
        let representable = !role.contains('\0');
        ev.class(format!("authz_role|{cert}|callbacks={}|{}", seen.len(), match &results { None => "no_session".to_string(), Some((a, b)) => format!("{}/{}", if a.is_ok() { "ok" } else { "err" }, if b.is_ok() { "ok" } else { "err" }) }));
        let rep = json!({"certificate": cert, "role": role});
        if let Some(other) = seen.iter().find(|r| r.as_str() != role) {
            ev.violation(
                format!("authz_role:{cert}:callback_saw_other_role"),
                format!("client certificate {cert} carries the role {role:?}; the C authorization callback was given {other:?}"),
                rep.clone(),
            );
        }
        match (&results, representable) {
            (Some((Ok(()), Ok(()))), true) if seen.len() == 2 => {}
            (_, true) => {
                ev.violation(format!("authz_role:{cert}:not_served"), format!("certificate {cert} (role {role:?}), handler allowing everything: results {results:?}, callbacks saw {seen:?}"), rep.clone());
            }
            (Some((a, b)), false) => {
                let denied = |r: &Result<(), RequestError>| matches!(r, Err(RequestError::Exception(rodbus::ExceptionCode::IllegalFunction)));
                if !(seen.is_empty() && denied(a) && denied(b)) && !seen.iter().all(|r| r == role) {
                    ev.violation(format!("authz_role:{cert}:unrepresentable_role_not_denied"), format!("certificate {cert} (role {role:?} cannot be passed as a C string): results {a:?} / {b:?}, callbacks saw {seen:?}"), rep.clone());
                }
            }
            (None, false) => {}
        }
    }
}

/// `max_sessions` reaches the library unchanged through each constructor
fn max_sessions_cells(rt: &Rt, trt: &tokio::runtime::Runtime, ev: &mut Evidence) {
    for variant in [Variant::Tcp, Variant::Tls, Variant::TlsAuthz] {
        for (limit, conns) in [(2u16, 3usize), (258, 4), (256, 3)] {
            ev.eval();
            ev.count("configuration_cells", 1);
            let srv = match start(rt, variant, limit, 0xFF) {
                Ok(s) => s,
                Err(rc) => {
                    ev.inconclusive(format!("C-ABI server constructor {variant:?} returned {rc}"));
                    continue;
                }
            };
            let port = srv.port;
            let (alive, total) = trt.block_on(async {
                let mut peers = vec![];
                for _ in 0..conns {
                    if let Some(p) = connect(variant, port).await {
                        // make sure the session exists before the next one arrives
                        let _ = p.channel.read_holding_registers(param(), AddressRange::try_from(0, 1).unwrap()).await;
                        peers.push(p);
                    }
                }
                tokio::time::sleep(Duration::from_millis(150)).await;
                let mut alive = vec![];
                for p in &peers {
                    let r = p.channel.read_holding_registers(param(), AddressRange::try_from(0, 1).unwrap()).await;
                    let disconnected = p.states.lock().unwrap().iter().any(|s| matches!(s, ClientState::WaitAfterDisconnect(_)));
                    alive.push(r.is_ok() && !disconnected);
                }
                for p in &peers {
                    let _ = p.channel.shutdown().await;
                }
                (alive, peers.len())
            });
            unsafe { ffi::rodbus_server_destroy(srv.server) };
            if total != conns {
                ev.inconclusive(format!("max_sessions cell {variant:?}/{limit}: only {total} of {conns} clients connected"));
                continue;
            }
            let want: Vec<bool> = (0..conns).map(|i| conns <= limit as usize || i >= conns - limit as usize).collect();
            ev.class(format!("config|max_sessions|{variant:?}|limit={limit}|connections={conns}|alive={}", alive.iter().filter(|a| **a).count()));
            if alive != want {
                ev.violation(
                    format!("config:max_sessions:{variant:?}:limit={limit}:alive={}", alive.iter().map(|a| if *a { '1' } else { '0' }).collect::<String>()),
                    format!("server created through the C ABI ({variant:?}) with max_sessions={limit}: after {conns} connections the sessions alive are {alive:?} (oldest first), expected {want:?}"),
                    json!({"variant": format!("{variant:?}"), "max_sessions": limit}),
                );
            } else {
                ev.count("max_sessions_cells_as_expected", 1);
            }
        }
    }
}

/// every function's authorization callback is the one consulted, with that request's arguments and
/// the certificate's role, and its answer decides
fn authorization_cells(rt: &Rt, trt: &tokio::runtime::Runtime, ev: &mut Evidence) {
    for mask in [0b1010_1010u32, 0b0101_0101, 0xFF, 0x00] {
        let srv = match start(rt, Variant::TlsAuthz, 4, mask) {
            Ok(s) => s,
            Err(rc) => {
                ev.inconclusive(format!("rodbus_server_create_tls_with_authz returned {rc}"));
                continue;
            }
        };
        let policy = srv.policy.clone().unwrap();
        let port = srv.port;
        let results: Option<Vec<(usize, (u16, u16), Result<(), RequestError>)>> = trt.block_on(async {
            let p = connect(Variant::TlsAuthz, port).await?;
            let ch = &p.channel;
            let mut out = vec![];
            let r = |s, c| AddressRange::try_from(s, c).unwrap();
            out.push((0, (2, 3), ch.read_coils(param(), r(2, 3)).await.map(|_| ())));
            out.push((1, (1, 2), ch.read_discrete_inputs(param(), r(1, 2)).await.map(|_| ())));
            out.push((2, (0, 2), ch.read_holding_registers(param(), r(0, 2)).await.map(|_| ())));
            out.push((3, (3, 1), ch.read_input_registers(param(), r(3, 1)).await.map(|_| ())));
            out.push((4, (4, 0), ch.write_single_coil(param(), Indexed::new(4, true)).await.map(|_| ())));
            out.push((5, (5, 0), ch.write_single_register(param(), Indexed::new(5, 0xABCD)).await.map(|_| ())));
            out.push((6, (6, 2), ch.write_multiple_coils(param(), WriteMultiple::from(6, vec![true, false]).unwrap()).await.map(|_| ())));
            out.push((7, (2, 3), ch.write_multiple_registers(param(), WriteMultiple::from(2, vec![7, 8, 9]).unwrap()).await.map(|_| ())));
            let _ = ch.shutdown().await;
            Some(out)
        });
        let log = policy.log.lock().unwrap().clone();
        let writes = srv.wh.calls.lock().unwrap().len();
        unsafe { ffi::rodbus_server_destroy(srv.server) };
        let Some(results) = results else {
            ev.inconclusive("authorization cells: the Rust TLS client could not connect to the C-ABI server");
            continue;
        };
        let mut expected_writes = 0;
        for (i, (k, (a, b), res)) in results.iter().enumerate() {
            ev.eval();
            ev.count("authorization_cells", 1);
            let allowed = mask & (1 << k) != 0;
            if allowed && *k >= 4 {
                expected_writes += 1;
            }
            let rep = json!({"function": FUNCS[*k], "policy_mask": format!("{mask:08b}"), "result": format!("{res:?}")});
            ev.class(format!("authz|{}|{}", FUNCS[*k], if allowed { "allow" } else { "deny" }));
            let ok = if allowed { res.is_ok() } else { *res == Err(RequestError::Exception(ExceptionCode::IllegalFunction)) };
            if !ok {
                ev.violation(
                    format!("authz:{}:{}:result", FUNCS[*k], if allowed { "allowed" } else { "denied" }),
                    format!("{} with the C authorization handler answering {} for it completed with {res:?}", FUNCS[*k], if allowed { "allow" } else { "deny" }),
                    rep.clone(),
                );
            }
            let want = (FUNCS[*k].to_string(), 1u8, *a, *b, "operator".to_string());
            if log.get(i) != Some(&want) {
                ev.violation(
                    format!("authz:{}:callback", FUNCS[*k]),
                    format!("request #{i} ({}) - the C authorization callbacks saw {:?}, expected {want:?}", FUNCS[*k], log.get(i)),
                    rep.clone(),
                );
            } else {
                ev.count("authorization_callbacks_checked", 1);
            }
        }
        if log.len() != results.len() {
            ev.violation("authz:callback_count".to_string(), format!("{} requests, {} authorization callbacks: {log:?}", results.len(), log.len()), json!({"policy_mask": format!("{mask:08b}")}));
        }
        if writes != expected_writes {
            ev.violation("authz:write_handler_calls".to_string(), format!("policy {mask:08b}: {writes} write-handler calls, {expected_writes} writes were allowed"), json!({"policy_mask": format!("{mask:08b}")}));
        }
    }
}

pub fn run(rt: &Rt, trt: &tokio::runtime::Runtime, ev: &mut Evidence) {
    max_sessions_cells(rt, trt, ev);
    authorization_cells(rt, trt, ev);
    role_cells(rt, trt, ev);
}
