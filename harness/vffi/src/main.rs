#![allow(dead_code)]
mod c16ffi;
mod c18;
mod c18misc;
mod c18srv;
mod c19;
mod legs;
mod util;

use vcommon::report::{parse_args, EXIT_INCONCLUSIVE};

fn main() {
    let args = parse_args();
    let code = match args.check.as_str() {
        "c16ffi" => c16ffi::run(&args),
        "c18" => c18::run(&args),
        "c19" => c19::run(&args),
        other => {
            eprintln!("unknown check {other}");
            EXIT_INCONCLUSIVE
        }
    };
    std::process::exit(code);
}
