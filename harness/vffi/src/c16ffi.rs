//! C16 through the C ABI: rodbus_address_filter_* and rodbus_server_create_{tcp,tls,tls_with_authz}.
//! Writes an Evidence JSON file that the net engine merges into the C16 evidence.

use crate::c19::{next_port, read_pdu};
use crate::util::*;
use rodbus_ffi::ffi;
use serde_json::{json, Value};
use std::net::{IpAddr, Ipv4Addr, SocketAddr, TcpStream};
use std::time::{Duration, Instant};
use vcommon::filter::*;
use vcommon::report::*;
use vcommon::rng::Rng;

fn fixture(name: &str) -> String {
    verif_root().join("fixtures").join("pki").join(name).display().to_string()
}

fn run_peer(args: &[String]) -> Value {
    let out = std::process::Command::new("python3")
        .arg(verif_root().join("peers").join("tls_peer.py"))
        .args(args)
        .stdin(std::process::Stdio::null())
        .output();
    match out {
        Err(e) => json!({"spawn_error": e.to_string()}),
        Ok(o) => {
            let text = String::from_utf8_lossy(&o.stdout);
            let last = text.lines().rev().find(|l| l.trim_start().starts_with('{')).unwrap_or("{}");
            serde_json::from_str(last).unwrap_or(json!({"parse_error": text.to_string()}))
        }
    }
}

/// build a C-ABI filter object from the description using only the public C functions
/// an address cannot be added to an "any" or a wildcard filter: the call must report an error and
/// leave the filter as it was (the probes that follow see whether it did)
unsafe fn add_must_be_refused(filter: *mut rodbus_ffi::AddressFilter, what: &str, ev: &mut Evidence) {
    let s = cstr("127.0.0.1");
    let rc = ffi::rodbus_address_filter_add(filter, s.as_ptr());
    ev.count("filter_add_refusals_checked", 1);
    if rc == 0 {
        ev.violation(format!("c_abi:filter_add_accepted_on_{what}"), format!("rodbus_address_filter_add on a {what} filter returned success"), json!({"filter": what}));
    }
}

unsafe fn c_filter(f: &F, ev: &mut Evidence) -> Result<*mut rodbus_ffi::AddressFilter, i32> {
    match f {
        F::Any => {
            let out = ffi::rodbus_address_filter_any();
            add_must_be_refused(out, "any", ev);
            Ok(out)
        }
        F::Exact(a) => {
            let mut out = std::ptr::null_mut();
            let s = cstr(&a.to_string());
            let rc = ffi::rodbus_address_filter_create(s.as_ptr(), &mut out);
            if rc != 0 {
                return Err(rc);
            }
            Ok(out)
        }
        F::AnyOf(v) => {
            let mut out = std::ptr::null_mut();
            let s = cstr(&v[0].to_string());
            let rc = ffi::rodbus_address_filter_create(s.as_ptr(), &mut out);
            if rc != 0 {
                return Err(rc);
            }
            for a in &v[1..] {
                let s = cstr(&a.to_string());
                let rc = ffi::rodbus_address_filter_add(out, s.as_ptr());
                if rc != 0 {
                    ffi::rodbus_address_filter_destroy(out);
                    return Err(rc);
                }
            }
            Ok(out)
        }
        F::Wildcard(w) => {
            let mut out = std::ptr::null_mut();
            let s = cstr(&F::wildcard_string(w));
            let rc = ffi::rodbus_address_filter_create(s.as_ptr(), &mut out);
            if rc != 0 {
                return Err(rc);
            }
            // (a pattern without '*' is an ordinary address for the C ABI: adding to it is fine)
            if w.iter().any(|x| x.is_none()) {
                add_must_be_refused(out, "wildcard", ev);
            }
            Ok(out)
        }
    }
}

fn tcp_probe(port: u16, src: Ipv4Addr) -> Result<&'static str, String> {
    // std has no bind-before-connect: use libc through socket2-free code
    use std::os::fd::FromRawFd;
    unsafe {
        let fd = libc::socket(libc::AF_INET, libc::SOCK_STREAM, 0);
        if fd < 0 {
            return Err("socket".into());
        }
        let mut sa: libc::sockaddr_in = std::mem::zeroed();
        sa.sin_family = libc::AF_INET as u16;
        sa.sin_port = 0;
        sa.sin_addr.s_addr = u32::from_ne_bytes(src.octets());
        if libc::bind(fd, &sa as *const _ as *const libc::sockaddr, std::mem::size_of::<libc::sockaddr_in>() as u32) != 0 {
            libc::close(fd);
            return Err("bind".into());
        }
        let mut da: libc::sockaddr_in = std::mem::zeroed();
        da.sin_family = libc::AF_INET as u16;
        da.sin_port = port.to_be();
        da.sin_addr.s_addr = u32::from_ne_bytes([127, 0, 0, 1]);
        if libc::connect(fd, &da as *const _ as *const libc::sockaddr, std::mem::size_of::<libc::sockaddr_in>() as u32) != 0 {
            libc::close(fd);
            return Err("connect".into());
        }
        let mut s = TcpStream::from_raw_fd(fd);
        s.set_read_timeout(Some(Duration::from_secs(3))).ok();
        s.set_nodelay(true).ok();
        match read_pdu(&mut s, 0x4242, 1, 3, 0, 1) {
            Some(p) if p.first().map(|b| b & 0x7F) == Some(3) => Ok("served"),
            Some(_) => Ok("other"),
            None => {
                // distinguish EOF from silence: try to read once more
                use std::io::Read;
                let mut b = [0u8; 8];
                match s.read(&mut b) {
                    Ok(0) => Ok("closed"),
                    Ok(_) => Ok("other"),
                    Err(e) if e.kind() == std::io::ErrorKind::WouldBlock || e.kind() == std::io::ErrorKind::TimedOut => Ok("silent"),
                    Err(_) => Ok("closed"),
                }
            }
        }
    }
}

pub fn run(args: &Args) -> i32 {
    let started = Instant::now();
    let rt = runtime(4);
    let mut ev = Evidence::new();
    let mut rng = Rng::sub(args.seed, 3116, 0);
    let nfilters = args.tier.pick(30usize, 240);
    let nsrc = args.tier.pick(5usize, 10);
    for i in 0..nfilters {
        let mut sources: Vec<Ipv4Addr> = (0..nsrc).map(|_| gen_source(&mut rng)).collect();
        sources.push(Ipv4Addr::new(127, 0, 0, 1));
        let f = vcommon::filter::gen_filter_indexed(&mut rng, &sources, (i / 3) as u64 + if i >= 15 { 5 } else { 0 });
        let variant = ["tcp", "tls", "tls_authz"][i % 3];
        unsafe {
            let filter = match c_filter(&f, &mut ev) {
                Ok(x) => x,
                Err(rc) => {
                    ev.violation(format!("c_abi:filter_rejected:{}:rc={rc}", f.class()), format!("rodbus_address_filter_create/add rejected the canonical description of {f:?} with {rc}"), json!({"filter": format!("{f:?}")}));
                    continue;
                }
            };
            let map = ffi::rodbus_device_map_create();
            let (_wh, handler) = write_handler(false);
            let (_c, cb) = db_callback_with(|db| {
                ffi::rodbus_database_add_holding_register(db, 0, 0x1234);
            });
            ffi::rodbus_device_map_add_endpoint(map, 1, handler, cb);
            let port = next_port();
            let ip = cstr("127.0.0.1");
            let mut server = std::ptr::null_mut();
            let (ca, cert, key, pw) = (cstr(&fixture("ca1.cert.pem")), cstr(&fixture("server_valid.cert.pem")), cstr(&fixture("server_valid.key.pem")), cstr(""));
            let tls: ffi::TlsServerConfig = ffi::TlsServerConfigFields {
                peer_cert_path: &ca,
                local_cert_path: &cert,
                private_key_path: &key,
                password: &pw,
                min_tls_version: ffi::MinTlsVersion::V12,
                certificate_mode: ffi::CertificateMode::AuthorityBased,
            }
            .into();
            let rc = match variant {
                "tcp" => ffi::rodbus_server_create_tcp(rt.0, ip.as_ptr(), port, filter, 8, map, decode(0, 0, 0), &mut server),
                "tls" => ffi::rodbus_server_create_tls(rt.0, ip.as_ptr(), port, filter, 8, map, tls, decode(0, 0, 0), &mut server),
                _ => {
                    let (_a, auth) = auth_handler();
                    ffi::rodbus_server_create_tls_with_authz(rt.0, ip.as_ptr(), port, filter, 8, map, tls, auth, decode(0, 0, 0), &mut server)
                }
            };
            ffi::rodbus_address_filter_destroy(filter);
            ffi::rodbus_device_map_destroy(map);
            if rc != 0 {
                ev.inconclusive(format!("rodbus_server_create_{variant} returned {rc}"));
                continue;
            }
            for src in &sources {
                let want = f.matches(IpAddr::V4(*src));
                let rep = json!({"filter": format!("{f:?}"), "source": src.to_string(), "variant": variant, "api": "c_abi"});
                if variant == "tcp" {
                    match tcp_probe(port, *src) {
                        Err(_) => {
                            ev.count("source_unusable:bind_or_connect", 1);
                            continue;
                        }
                        Ok(got) => {
                            ev.eval();
                            ev.count("connections_observed", 1);
                            ev.class(format!("tcp|c_abi|{}|v4|{}", f.class(), if want { "match" } else { "no_match" }));
                            if want && got != "served" {
                                ev.violation(format!("tcp:c_abi:{}:matching_peer_not_served:{got}", f.class()), format!("C ABI TCP server: filter {f:?} matches {src} but the connection was {got}"), rep);
                            } else if !want && got != "closed" {
                                ev.violation(format!("tcp:c_abi:{}:non_matching_peer_{got}", f.class()), format!("C ABI TCP server: filter {f:?} does not match {src} but the connection was {got}"), rep);
                            }
                        }
                    }
                } else {
                    let raw = run_peer(&["raw".into(), "--port".into(), port.to_string(), "--src".into(), src.to_string(), "--wait".into(), "0.6".into()]);
                    if raw["error"].as_str().map(|e| e.starts_with("connect")).unwrap_or(false) {
                        ev.count("source_unusable:bind_or_connect", 1);
                        continue;
                    }
                    let tls = run_peer(&[
                        "client".into(), "--port".into(), port.to_string(), "--src".into(), src.to_string(),
                        "--ca".into(), fixture("ca1.cert.pem"), "--cert".into(), fixture("client_operator.cert.pem"), "--key".into(), fixture("client_operator.key.pem"),
                        "--servername".into(), "test.server".into(), "--send".into(), "42420000000601030000 0001".replace(' ', ""), "--wait".into(), "2".into(),
                    ]);
                    ev.eval();
                    ev.count("tls_connections_observed", 2);
                    ev.class(format!("{variant}|c_abi|{}|v4|{}", f.class(), if want { "match" } else { "no_match" }));
                    let served = tls["reply_hex"].as_str().map(|h| h.starts_with("4242")).unwrap_or(false);
                    let raw_end = raw["read_end"].as_str().unwrap_or("?");
                    let raw_bytes = raw["reply_hex"].as_str().unwrap_or("").len() / 2;
                    let rep = json!({"filter": format!("{f:?}"), "source": src.to_string(), "variant": variant, "api": "c_abi", "raw": raw, "tls": tls});
                    if want && !served {
                        ev.violation(format!("{variant}:c_abi:{}:matching_peer_not_served", f.class()), format!("C ABI {variant} server: filter {f:?} matches {src} but the TLS peer got no Modbus reply"), rep);
                    } else if !want && served {
                        ev.violation(format!("{variant}:c_abi:{}:non_matching_peer_served", f.class()), format!("C ABI {variant} server: filter {f:?} does not match {src} but the peer completed a handshake and was served"), rep);
                    } else if !want && !(raw_end == "eof" && raw_bytes == 0) {
                        ev.violation(format!("{variant}:c_abi:{}:non_matching_peer_not_closed_silently", f.class()), format!("C ABI {variant} server: filter {f:?} does not match {src}: expected EOF before any byte, got end={raw_end} bytes={raw_bytes}"), rep);
                    }
                }
            }
            ffi::rodbus_server_destroy(server);
        }
    }
    // an IPv6 peer (::1) against a C-ABI TCP server listening on ::1: IPv4 wildcards - the all-stars
    // pattern included - and IPv4 addresses do not match it; `any`, the exact address and a set holding it do
    {
        use std::net::Ipv6Addr;
        let v6 = IpAddr::V6(Ipv6Addr::LOCALHOST);
        let filters = [
            F::Wildcard([None, None, None, None]),
            F::Wildcard([Some(127), None, None, None]),
            F::Exact(IpAddr::V4(Ipv4Addr::LOCALHOST)),
            F::Exact(v6),
            F::AnyOf(vec![IpAddr::V4(Ipv4Addr::new(127, 0, 0, 9)), v6]),
            F::AnyOf(vec![IpAddr::V4(Ipv4Addr::new(127, 0, 0, 9)), IpAddr::V6(Ipv6Addr::new(0, 0, 0, 0, 0, 0, 0, 2))]),
            F::Any,
        ];
        for f in filters.iter() {
            unsafe {
                let Ok(filter) = c_filter(f, &mut ev) else {
                    ev.violation(format!("c_abi:filter_rejected:{}", f.class()), format!("rodbus_address_filter_create/add rejected {f:?}"), json!({"filter": format!("{f:?}")}));
                    continue;
                };
                let map = ffi::rodbus_device_map_create();
                let (_wh, handler) = write_handler(false);
                let (_c, cb) = db_callback_with(|db| {
                    ffi::rodbus_database_add_holding_register(db, 0, 0x1234);
                });
                ffi::rodbus_device_map_add_endpoint(map, 1, handler, cb);
                let port = next_port();
                let ip = cstr("::1");
                let mut server = std::ptr::null_mut();
                let rc = ffi::rodbus_server_create_tcp(rt.0, ip.as_ptr(), port, filter, 8, map, decode(0, 0, 0), &mut server);
                ffi::rodbus_address_filter_destroy(filter);
                ffi::rodbus_device_map_destroy(map);
                if rc != 0 {
                    ev.count("ipv6_loopback_unavailable", 1);
                    continue;
                }
                let want = f.matches(v6);
                let got = match TcpStream::connect((Ipv6Addr::LOCALHOST, port)) {
                    Err(_) => {
                        ev.count("ipv6_loopback_unavailable", 1);
                        ffi::rodbus_server_destroy(server);
                        continue;
                    }
                    Ok(mut s) => {
                        s.set_read_timeout(Some(Duration::from_secs(3))).ok();
                        s.set_nodelay(true).ok();
                        match read_pdu(&mut s, 0x4243, 1, 3, 0, 1) {
                            Some(p) if p.first().map(|b| b & 0x7F) == Some(3) => "served",
                            Some(_) => "other",
                            None => "not_served",
                        }
                    }
                };
                ev.eval();
                ev.count("connections_observed", 1);
                ev.count("ipv6_connections_observed", 1);
                ev.class(format!("tcp|c_abi|{}|v6|{}", f.class(), if want { "match" } else { "no_match" }));
                let rep = json!({"filter": format!("{f:?}"), "source": "::1", "variant": "tcp", "api": "c_abi"});
                if want && got != "served" {
                    ev.violation(format!("tcp:c_abi:{}:v6:matching_peer_not_served", f.class()), format!("C ABI TCP server on ::1: filter {f:?} matches ::1 but the connection was {got}"), rep);
                } else if !want && got != "not_served" {
                    ev.violation(format!("tcp:c_abi:{}:v6:non_matching_peer_{got}", f.class()), format!("C ABI TCP server on ::1: filter {f:?} does not match ::1 but the peer was {got}"), rep);
                }
                ffi::rodbus_server_destroy(server);
            }
        }
    }
    // parser through the C ABI: a few strings that must be rejected / accepted
    for (s, ok) in [("*.*.*.*", true), ("1.2.3", false), ("1.2.3.4.5", false), ("256.1.1.1", false), ("a.b.c.d", false), ("", false), ("127.0.*.1", true), ("::1", true), ("1..2.3", false)] {
        let mut out = std::ptr::null_mut();
        let c = cstr(s);
        let rc = unsafe { ffi::rodbus_address_filter_create(c.as_ptr(), &mut out) };
        ev.eval();
        ev.count("c_abi_filter_strings", 1);
        if (rc == 0) != ok {
            ev.violation(format!("c_abi:address_filter_create:{}:{s}", if ok { "rejected_valid" } else { "accepted_invalid" }), format!("rodbus_address_filter_create(\"{s}\") returned {rc}"), json!({"string": s}));
        }
        if rc == 0 {
            unsafe { ffi::rodbus_address_filter_destroy(out) };
        }
    }
    unsafe { ffi::rodbus_runtime_destroy(rt.0) };
    let _ = SocketAddr::from(([127, 0, 0, 1], 0));
    if let Some(out) = args.extra.get("out") {
        let _ = std::fs::write(out, serde_json::to_string(&ev.to_json()).unwrap());
        println!("c16ffi: {} evaluations, {} violating observations, {:.1}s", ev.evaluations, ev.violations.len(), started.elapsed().as_secs_f64());
        return 0;
    }
    for v in &ev.violations {
        println!("violation: sig={} :: {}", v.sig, v.what);
    }
    0
}
