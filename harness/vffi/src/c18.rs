//! C18: the C ABI reports and forwards exactly what the Rust API would.

use crate::c19::{next_port, read_pdu, start_server};
use crate::util::*;
use rodbus_ffi::ffi;
use serde_json::json;
use std::collections::VecDeque;
use std::io::{Read, Write};
use std::net::{TcpListener, TcpStream};
use std::sync::atomic::Ordering;
use std::sync::{Arc, Mutex};
use std::time::{Duration, Instant};
use vcommon::model::*;
use vcommon::report::*;
use vcommon::rng::Rng;

// ------------------------------------------------------------------------------------------
// scripted peer (server side) for client-operation scenarios
// ------------------------------------------------------------------------------------------

#[derive(Clone, Debug, PartialEq)]
pub enum Mode {
    Genuine,
    Exception(u8),
    BadResponse,
    /// other ways of being a bad response: 1 = genuine + a trailing byte, 2 = genuine without its last
    /// byte, 3 = exception reply + a trailing byte, 4 = genuine reply of another function
    BadResponseKind(u8),
    BadFraming,
    Close,
    Silence,
}

pub struct Peer {
    pub port: u16,
    pub plan: Arc<Mutex<VecDeque<Mode>>>,
    /// (frame bytes, arrival)
    pub frames: Arc<Mutex<Vec<(Vec<u8>, Instant)>>>,
    stop: Arc<std::sync::atomic::AtomicBool>,
}

fn genuine_pdu(pdu: &[u8]) -> Vec<u8> {
    match parse_request(pdu) {
        Parsed::Valid(Req::Read { kind, qty, .. }) => {
            if kind.is_bits() {
                let n = (qty as usize).div_ceil(8);
                let mut p = vec![kind.fc(), n as u8];
                let mut bytes: Vec<u8> = (0..n).map(|i| (i as u8).wrapping_mul(37) ^ 0xA5).collect();
                if qty % 8 != 0 {
                    let last = bytes.len() - 1;
                    bytes[last] &= (1u8 << (qty % 8)) - 1;
                }
                p.extend(bytes);
                p
            } else {
                let mut p = vec![kind.fc(), (2 * qty) as u8];
                for i in 0..qty {
                    p.extend_from_slice(&(i.wrapping_mul(257) ^ 0x1234).to_be_bytes());
                }
                p
            }
        }
        Parsed::Valid(r) | Parsed::ValidOrInvalid(r) => r.write_echo(),
        _ => vec![pdu.first().copied().unwrap_or(0) | 0x80, 3],
    }
}

impl Peer {
    pub fn start() -> Peer {
        let port = next_port();
        let l = TcpListener::bind(("127.0.0.1", port)).unwrap();
        l.set_nonblocking(true).unwrap();
        let plan: Arc<Mutex<VecDeque<Mode>>> = Arc::new(Mutex::new(VecDeque::new()));
        let frames = Arc::new(Mutex::new(vec![]));
        let stop = Arc::new(std::sync::atomic::AtomicBool::new(false));
        let (p2, f2, s2) = (plan.clone(), frames.clone(), stop.clone());
        std::thread::spawn(move || {
            while !s2.load(Ordering::SeqCst) {
                match l.accept() {
                    Ok((mut s, _)) => {
                        s.set_nonblocking(false).ok();
                        s.set_read_timeout(Some(Duration::from_millis(50))).ok();
                        s.set_nodelay(true).ok();
                        let (p3, f3, s3) = (p2.clone(), f2.clone(), s2.clone());
                        std::thread::spawn(move || {
                            let mut buf: Vec<u8> = vec![];
                            let mut tmp = [0u8; 1024];
                            'conn: while !s3.load(Ordering::SeqCst) {
                                match s.read(&mut tmp) {
                                    Ok(0) => break,
                                    Ok(n) => buf.extend_from_slice(&tmp[..n]),
                                    Err(e) if e.kind() == std::io::ErrorKind::WouldBlock || e.kind() == std::io::ErrorKind::TimedOut => continue,
                                    Err(_) => break,
                                }
                                while buf.len() >= 7 {
                                    let len = 6 + (((buf[4] as usize) << 8) | buf[5] as usize);
                                    if buf.len() < len {
                                        break;
                                    }
                                    let f: Vec<u8> = buf.drain(..len).collect();
                                    f3.lock().unwrap().push((f.clone(), Instant::now()));
                                    let mode = p3.lock().unwrap().pop_front().unwrap_or(Mode::Genuine);
                                    let tx = ((f[0] as u16) << 8) | f[1] as u16;
                                    let reply = match mode {
                                        Mode::Genuine => Some(mbap_frame(tx, f[6], &genuine_pdu(&f[7..]))),
                                        Mode::Exception(c) => Some(mbap_frame(tx, f[6], &[f[7] | 0x80, c])),
                                        Mode::BadResponse => Some(mbap_frame(tx, f[6], &[f[7] ^ 0x40, 1, 2, 3])),
                                        Mode::BadResponseKind(k) => {
                                            let mut g = genuine_pdu(&f[7..]);
                                            match k {
                                                1 => g.push(0),
                                                2 => {
                                                    g.pop();
                                                }
                                                3 => g = vec![f[7] | 0x80, 2, 0],
                                                _ => g[0] = if g[0] == 3 { 4 } else { 3 },
                                            }
                                            Some(mbap_frame(tx, f[6], &g))
                                        }
                                        Mode::BadFraming => Some(mbap_frame_raw(tx, 0x7777, 6, f[6], &[3, 2, 0, 0])),
                                        Mode::Close => break 'conn,
                                        Mode::Silence => None,
                                    };
                                    if let Some(r) = reply {
                                        if s.write_all(&r).is_err() {
                                            break 'conn;
                                        }
                                    }
                                }
                            }
                        });
                    }
                    Err(_) => std::thread::sleep(Duration::from_millis(2)),
                }
            }
        });
        Peer { port, plan, frames, stop }
    }
    pub fn push(&self, m: Mode) {
        self.plan.lock().unwrap().push_back(m);
    }
    pub fn last_frame(&self) -> Option<(Vec<u8>, Instant)> {
        self.frames.lock().unwrap().last().cloned()
    }
    pub fn count(&self) -> usize {
        self.frames.lock().unwrap().len()
    }
}

impl Drop for Peer {
    fn drop(&mut self) {
        self.stop.store(true, Ordering::SeqCst);
    }
}

// ------------------------------------------------------------------------------------------
// C-ABI client wrapper
// ------------------------------------------------------------------------------------------

pub struct CChannel {
    pub ch: *mut rodbus_ffi::ClientChannel,
    pub states: Arc<States>,
}
unsafe impl Send for CChannel {}

impl CChannel {
    pub fn tcp(rt: &Rt, port: u16, queue: u16, level: ffi::DecodeLevel) -> CChannel {
        let (states, listener) = client_listener();
        let mut ch = std::ptr::null_mut();
        let host = cstr("127.0.0.1");
        let rc = unsafe { ffi::rodbus_client_channel_create_tcp(rt.0, host.as_ptr(), port, queue, retry(50, 100), level, listener, &mut ch) };
        assert_eq!(rc, 0);
        CChannel { ch, states }
    }
    pub fn enable(&self) -> i32 {
        unsafe { ffi::rodbus_client_channel_enable(self.ch) }
    }
    pub fn wait_state(&self, want: i32, limit: Duration) -> bool {
        let t0 = Instant::now();
        while t0.elapsed() < limit {
            if self.states.seq.lock().unwrap().contains(&want) {
                return true;
            }
            std::thread::sleep(Duration::from_millis(2));
        }
        false
    }
    pub fn destroy(self) -> Arc<States> {
        unsafe { ffi::rodbus_client_channel_destroy(self.ch) };
        self.states
    }
    /// issue one operation; returns (rc, callback context)
    pub fn op(&self, req: &ClientReq, unit: u8, timeout_ms: u64) -> (i32, Arc<Cb>) {
        let p = param(unit, timeout_ms);
        unsafe {
            match req {
                ClientReq::Read { kind, start, count } => {
                    let range = ffi::AddressRange { start: *start, count: *count };
                    match kind {
                        Kind::ReadCoils => {
                            let (c, cb) = bit_callback();
                            (ffi::rodbus_client_channel_read_coils(self.ch, p, range, cb), c)
                        }
                        Kind::ReadDiscrete => {
                            let (c, cb) = bit_callback();
                            (ffi::rodbus_client_channel_read_discrete_inputs(self.ch, p, range, cb), c)
                        }
                        Kind::ReadHolding => {
                            let (c, cb) = reg_callback();
                            (ffi::rodbus_client_channel_read_holding_registers(self.ch, p, range, cb), c)
                        }
                        _ => {
                            let (c, cb) = reg_callback();
                            (ffi::rodbus_client_channel_read_input_registers(self.ch, p, range, cb), c)
                        }
                    }
                }
                ClientReq::WriteSingleCoil { addr, value } => {
                    let (c, cb) = write_callback();
                    (ffi::rodbus_client_channel_write_single_coil(self.ch, p, ffi::BitValue { index: *addr, value: *value }, cb), c)
                }
                ClientReq::WriteSingleReg { addr, value } => {
                    let (c, cb) = write_callback();
                    (ffi::rodbus_client_channel_write_single_register(self.ch, p, ffi::RegisterValue { index: *addr, value: *value }, cb), c)
                }
                ClientReq::WriteMultiCoils { start, values } => {
                    let (c, cb) = write_callback();
                    let list = ffi::rodbus_bit_list_create(values.len() as u32);
                    for v in values {
                        ffi::rodbus_bit_list_add(list, *v);
                    }
                    let rc = ffi::rodbus_client_channel_write_multiple_coils(self.ch, p, *start, list, cb);
                    ffi::rodbus_bit_list_destroy(list);
                    (rc, c)
                }
                ClientReq::WriteMultiRegs { start, values } => {
                    let (c, cb) = write_callback();
                    let list = ffi::rodbus_register_list_create(values.len() as u32);
                    for v in values {
                        ffi::rodbus_register_list_add(list, *v);
                    }
                    let rc = ffi::rodbus_client_channel_write_multiple_registers(self.ch, p, *start, list, cb);
                    ffi::rodbus_register_list_destroy(list);
                    (rc, c)
                }
            }
        }
    }
}

// ------------------------------------------------------------------------------------------
// Rust-API twin
// ------------------------------------------------------------------------------------------

fn rust_err_name(e: &rodbus::RequestError) -> String {
    use rodbus::RequestError::*;
    match e {
        Io(_) => "io_error".into(),
        Exception(x) => exception_name(u8::from(*x)).into(),
        BadRequest(_) => "bad_request".into(),
        BadFrame(_) => "bad_framing".into(),
        BadResponse(_) => "bad_response".into(),
        Internal(_) => "internal_error".into(),
        ResponseTimeout => "response_timeout".into(),
        NoConnection => "no_connection".into(),
        Shutdown => "shutdown".into(),
    }
}

#[derive(Clone, Debug, PartialEq)]
enum Vals {
    None,
    Bits(Vec<(u16, bool)>),
    Regs(Vec<(u16, u16)>),
}

struct RustStates(Arc<Mutex<Vec<&'static str>>>);
impl rodbus::client::Listener<rodbus::client::ClientState> for RustStates {
    fn update(&mut self, v: rodbus::client::ClientState) -> rodbus::MaybeAsync<()> {
        use rodbus::client::ClientState::*;
        self.0.lock().unwrap().push(match v {
            Disabled => "disabled",
            Connecting => "connecting",
            Connected => "connected",
            WaitAfterFailedConnect(_) => "wait_after_failed_connect",
            WaitAfterDisconnect(_) => "wait_after_disconnect",
            Shutdown => "shutdown",
        });
        rodbus::MaybeAsync::ready(())
    }
}

async fn rust_op(ch: &rodbus::client::Channel, req: &ClientReq, unit: u8, timeout_ms: u64) -> (String, Vals) {
    use rodbus::client::*;
    use rodbus::*;
    let p = RequestParam::new(UnitId::new(unit), Duration::from_millis(timeout_ms));
    macro_rules! fin {
        ($r:expr, $f:expr) => {
            match $r {
                Ok(v) => ("ok".to_string(), $f(v)),
                Err(e) => (rust_err_name(&e), Vals::None),
            }
        };
    }
    match req {
        ClientReq::Read { kind, start, count } => {
            let range = match AddressRange::try_from(*start, *count) {
                Ok(r) => r,
                Err(_) => return ("invalid_range".into(), Vals::None),
            };
            match kind {
                Kind::ReadCoils => fin!(ch.read_coils(p, range).await, |v: Vec<Indexed<bool>>| Vals::Bits(v.iter().map(|x| (x.index, x.value)).collect())),
                Kind::ReadDiscrete => fin!(ch.read_discrete_inputs(p, range).await, |v: Vec<Indexed<bool>>| Vals::Bits(v.iter().map(|x| (x.index, x.value)).collect())),
                Kind::ReadHolding => fin!(ch.read_holding_registers(p, range).await, |v: Vec<Indexed<u16>>| Vals::Regs(v.iter().map(|x| (x.index, x.value)).collect())),
                _ => fin!(ch.read_input_registers(p, range).await, |v: Vec<Indexed<u16>>| Vals::Regs(v.iter().map(|x| (x.index, x.value)).collect())),
            }
        }
        ClientReq::WriteSingleCoil { addr, value } => fin!(ch.write_single_coil(p, Indexed::new(*addr, *value)).await, |_| Vals::None),
        ClientReq::WriteSingleReg { addr, value } => fin!(ch.write_single_register(p, Indexed::new(*addr, *value)).await, |_| Vals::None),
        ClientReq::WriteMultiCoils { start, values } => match WriteMultiple::from(*start, values.clone()) {
            Ok(w) => fin!(ch.write_multiple_coils(p, w).await, |_| Vals::None),
            Err(_) => ("invalid_request".into(), Vals::None),
        },
        ClientReq::WriteMultiRegs { start, values } => match WriteMultiple::from(*start, values.clone()) {
            Ok(w) => fin!(ch.write_multiple_registers(p, w).await, |_| Vals::None),
            Err(_) => ("invalid_request".into(), Vals::None),
        },
    }
}

/// the largest (`max`) or smallest request of operation `k`
fn boundary_req(k: usize, max: bool) -> ClientReq {
    let n = |big: usize| if max { big } else { 1 };
    match k % 8 {
        0 => ClientReq::Read { kind: Kind::ReadCoils, start: 17, count: n(2000) as u16 },
        1 => ClientReq::Read { kind: Kind::ReadDiscrete, start: 17, count: n(2000) as u16 },
        2 => ClientReq::Read { kind: Kind::ReadHolding, start: 17, count: n(125) as u16 },
        3 => ClientReq::Read { kind: Kind::ReadInput, start: 17, count: n(125) as u16 },
        4 => ClientReq::WriteSingleCoil { addr: if max { 65535 } else { 0 }, value: max },
        5 => ClientReq::WriteSingleReg { addr: if max { 65535 } else { 0 }, value: if max { 65535 } else { 0 } },
        6 => ClientReq::WriteMultiCoils { start: 17, values: (0..n(1968)).map(|i| i % 3 == 0).collect() },
        _ => ClientReq::WriteMultiRegs { start: 17, values: (0..n(123)).map(|i| (i as u16).wrapping_mul(977)).collect() },
    }
}

fn gen_req(rng: &mut Rng, k: usize) -> ClientReq {
    match k % 8 {
        0 => ClientReq::Read { kind: Kind::ReadCoils, start: rng.u16() / 2, count: 1 + rng.below(2000) as u16 },
        1 => ClientReq::Read { kind: Kind::ReadDiscrete, start: rng.u16() / 2, count: 1 + rng.below(2000) as u16 },
        2 => ClientReq::Read { kind: Kind::ReadHolding, start: rng.u16() / 2, count: 1 + rng.below(125) as u16 },
        3 => ClientReq::Read { kind: Kind::ReadInput, start: rng.u16() / 2, count: 1 + rng.below(125) as u16 },
        4 => ClientReq::WriteSingleCoil { addr: rng.u16(), value: rng.chance(1, 2) },
        5 => ClientReq::WriteSingleReg { addr: rng.u16(), value: rng.u16() },
        6 => {
            let n = 1 + rng.usize_below(1968);
            ClientReq::WriteMultiCoils { start: rng.u16() / 2, values: (0..n).map(|i| (i * 7 + n) % 3 == 0).collect() }
        }
        _ => {
            let n = 1 + rng.usize_below(123);
            ClientReq::WriteMultiRegs { start: rng.u16() / 2, values: (0..n).map(|i| (i as u16).wrapping_mul(911)).collect() }
        }
    }
}

fn cvals(c: &Cb) -> Vals {
    let b = c.bits.lock().unwrap().clone();
    let r = c.regs.lock().unwrap().clone();
    if !b.is_empty() {
        Vals::Bits(b)
    } else if !r.is_empty() {
        Vals::Regs(r)
    } else {
        Vals::None
    }
}

/// every callback object: exactly one completion, exactly one destroy
fn check_callback(ev: &mut Evidence, what: &str, rc: i32, c: &Cb, rep: &serde_json::Value) {
    c.wait_destroyed(Duration::from_secs(3));
    let comp = c.completions();
    let d = c.destroys.load(Ordering::SeqCst);
    ev.count("callback_objects_checked", 1);
    // "every completion callback fires exactly once whether or not the call itself reports an error"
    if comp != 1 {
        ev.violation(
            format!("completion_callbacks={comp}:{what}:rc={rc}"),
            format!("{what}: the call returned {rc} and on_complete+on_failure fired {comp} times"),
            rep.clone(),
        );
    }
    if d != 1 {
        ev.violation(
            format!("on_destroy={d}:{what}:rc={rc}"),
            format!("{what}: the call returned {rc} and on_destroy fired {d} times"),
            rep.clone(),
        );
    }
}

/// S1 + S3: all eight operations x outcomes, C ABI next to the Rust API
fn client_outcomes(rt: &Rt, trt: &tokio::runtime::Runtime, args: &Args, ev: &mut Evidence) {
    let mut rng = Rng::sub(args.seed, 118, 0);
    let rounds = args.tier.pick(1usize, 8);
    for round in 0..rounds {
        for opk in 0..8usize {
            // sequence of modes on one connection
            let mut modes = vec![Mode::Genuine, Mode::Genuine];
            for c in [1u8, 2, 3, 4, 5, 6, 8, 10, 11] {
                modes.push(Mode::Exception(c));
            }
            // the 256 codes are spread over the eight operations (all of them every round)
            for c in 0..=255u8 {
                if c as usize % 8 == (opk + round) % 8 {
                    modes.push(Mode::Exception(c));
                }
            }
            modes.push(Mode::BadResponse);
            for k in 1..=4u8 {
                modes.push(Mode::BadResponseKind(k));
            }
            modes.push(Mode::Silence);
            modes.push(Mode::Genuine);
            let mut reqs: Vec<(ClientReq, u8, u64)> = modes.iter().map(|m| (gen_req(&mut rng, opk), rng.u8(), if *m == Mode::Silence { *rng.pick(&[120u64, 250]) } else { 2000 })).collect();
            // the two leading genuine exchanges carry the largest and the smallest request of the kind
            reqs[0].0 = boundary_req(opk, true);
            reqs[1].0 = boundary_req(opk, false);

            // ---- C ABI
            let peer = Peer::start();
            for m in &modes {
                peer.push(m.clone());
            }
            let ch = CChannel::tcp(rt, peer.port, 4, decode(0, 0, 0));
            ch.enable();
            if !ch.wait_state(2, Duration::from_secs(5)) {
                ev.inconclusive("C-ABI channel did not connect");
                ch.destroy();
                continue;
            }
            let mut c_results = vec![];
            for (req, unit, to) in &reqs {
                let t0 = Instant::now();
                let (rc, c) = ch.op(req, *unit, *to);
                c.wait(Duration::from_millis(*to + 3000));
                let elapsed = c.done_at.lock().unwrap().map(|d| d.duration_since(t0));
                c_results.push((rc, c, elapsed, peer.last_frame()));
            }
            let states = ch.destroy();
            // ---- Rust API
            let peer2 = Peer::start();
            for m in &modes {
                peer2.push(m.clone());
            }
            let port2 = peer2.port;
            let reqs2 = reqs.clone();
            let rstates = Arc::new(Mutex::new(vec![]));
            let rs2 = rstates.clone();
            let r_results: Vec<(String, Vals)> = trt.block_on(async move {
                use rodbus::client::*;
                let ch = spawn_tcp_client_task(
                    HostAddr::ip("127.0.0.1".parse().unwrap(), port2),
                    4,
                    rodbus::doubling_retry_strategy(Duration::from_millis(50), Duration::from_millis(100)),
                    rodbus::DecodeLevel::nothing(),
                    Some(Box::new(RustStates(rs2.clone()))),
                );
                ch.enable().await.ok();
                for _ in 0..500 {
                    if rs2.lock().unwrap().contains(&"connected") {
                        break;
                    }
                    tokio::time::sleep(Duration::from_millis(5)).await;
                }
                let mut out = vec![];
                for (req, unit, to) in &reqs2 {
                    out.push(rust_op(&ch, req, *unit, *to).await);
                }
                out
            });
            let r_frames: Vec<Vec<u8>> = peer2.frames.lock().unwrap().iter().map(|f| f.0.clone()).collect();
            let c_frames: Vec<Vec<u8>> = peer.frames.lock().unwrap().iter().map(|f| f.0.clone()).collect();

            for (i, ((req, unit, to), mode)) in reqs.iter().zip(modes.iter()).enumerate() {
                ev.eval();
                let (rc, c, elapsed, _) = &c_results[i];
                let rep = json!({"operation": req.describe(), "unit": unit, "timeout_ms": to, "peer_mode": format!("{mode:?}")});
                let c_name = match c.outcome() {
                    Outcome::Ok => "ok".to_string(),
                    Outcome::Err(e) => request_error_name(e).to_string(),
                    Outcome::Pending => "pending".to_string(),
                };
                let (r_name, r_vals) = &r_results[i];
                let mclass = format!("{mode:?}").split('(').next().unwrap().to_string();
                ev.class(format!("client|{}|{}|{}", req.kind().name(), mclass, c_name));
                ev.count("client_operations_compared", 1);
                if let Mode::Exception(code) = mode {
                    ev.set("exception_codes", code.to_string());
                    // independent expectation as well: the name for that code
                    if c_name != exception_name(*code) {
                        ev.violation(
                            format!("client:{}:exception_{code:#04x}_reported_as_{c_name}", req.kind().name()),
                            format!("{}: peer answered exception {code:#04x} and the C callback reported {c_name}", req.describe()),
                            rep.clone(),
                        );
                    }
                }
                if *rc != 0 {
                    ev.violation(format!("client:{}:valid_call_rejected_rc={rc}", req.kind().name()), format!("{} returned {rc}", req.describe()), rep.clone());
                }
                if &c_name != r_name {
                    ev.violation(
                        format!("client:{}:{mclass}:c_abi={c_name}:rust={r_name}", req.kind().name()),
                        format!("{} against a peer doing {mode:?}: C ABI reported {c_name}, Rust API reported {r_name}", req.describe()),
                        rep.clone(),
                    );
                }
                if c_name == "ok" && cvals(c) != *r_vals {
                    ev.violation(format!("client:{}:values_differ", req.kind().name()), format!("{}: values delivered through the C ABI differ from the Rust API's", req.describe()), rep.clone());
                }
                // what arrived at the peer: reference encoding, identical for both APIs
                if let (Some(cf), Some(rf)) = (c_frames.get(i), r_frames.get(i)) {
                    let want = req.encode().map(|p| mbap_frame(((cf[0] as u16) << 8) | cf[1] as u16, *unit, &p));
                    if Some(cf) != want.as_ref() {
                        ev.violation(
                            format!("client:{}:request_bytes_differ_from_protocol_encoding", req.kind().name()),
                            format!("{} unit {unit}: C ABI sent {}", req.describe(), hex(&cf[..cf.len().min(24)])),
                            rep.clone(),
                        );
                    }
                    if cf[2..] != rf[2..] {
                        ev.violation(format!("client:{}:request_bytes_differ_from_rust_api", req.kind().name()), "frames differ".to_string(), rep.clone());
                    }
                    ev.count("request_frames_compared", 1);
                }
                if *mode == Mode::Silence {
                    if let Some(el) = elapsed {
                        ev.count("timeouts_measured", 1);
                        if *el + Duration::from_millis(5) < Duration::from_millis(*to) || *el > Duration::from_millis(*to + 1500) {
                            ev.violation(
                                format!("client:{}:timeout_not_forwarded", req.kind().name()),
                                format!("{}: timeout {to} ms but the failure was reported after {el:?}", req.describe()),
                                rep.clone(),
                            );
                        }
                    }
                }
                check_callback(ev, &format!("client.{}", req.kind().name()), *rc, c, &rep);
            }
            // listener: same-named states, destroyed once
            let cs: Vec<&str> = states.seq.lock().unwrap().iter().map(|s| client_state_name(*s)).collect();
            let rs = rstates.lock().unwrap().clone();
            if cs.len() < 3 || rs.len() < 3 || cs[..3] != rs[..3] {
                ev.violation("client_state:sequence_differs".to_string(), format!("C listener saw {cs:?}, Rust listener saw {rs:?}"), json!({}));
            }
            if cs.last() != Some(&"shutdown") {
                ev.violation(format!("client_state:last_state_{}", cs.last().unwrap_or(&"none")), format!("after destroy the C listener's last state is {:?}", cs.last()), json!({}));
            }
            std::thread::sleep(Duration::from_millis(20));
            if states.destroys.load(Ordering::SeqCst) != 1 {
                ev.violation(format!("client_state_listener:on_destroy={}", states.destroys.load(Ordering::SeqCst)), "listener destroy count".to_string(), json!({}));
            }
            ev.class(format!("client_state|{}", cs.join(">")));
        }
    }
}

/// a connection that is lost (the peer closes it instead of answering): the C listener is told
/// `wait_after_disconnect`, as the Rust listener is
fn lost_connection_state(rt: &Rt, ev: &mut Evidence) {
    let peer = Peer::start();
    peer.push(Mode::Genuine);
    peer.push(Mode::Close);
    let ch = CChannel::tcp(rt, peer.port, 4, decode(0, 0, 0));
    ch.enable();
    if !ch.wait_state(2, Duration::from_secs(5)) {
        ev.inconclusive("C-ABI channel did not connect (lost-connection cell)");
        ch.destroy();
        return;
    }
    let req = ClientReq::Read { kind: Kind::ReadHolding, start: 0, count: 1 };
    let (_rc, c) = ch.op(&req, 1, 1000);
    c.wait(Duration::from_millis(1500));
    let (_rc, c) = ch.op(&req, 1, 1000);
    c.wait(Duration::from_millis(1500));
    let seen = ch.wait_state(4, Duration::from_secs(3));
    let states = ch.destroy();
    let cs: Vec<&str> = states.seq.lock().unwrap().iter().map(|s| client_state_name(*s)).collect();
    ev.eval();
    ev.class(format!("client_state|lost_connection|{}", if seen { "wait_after_disconnect" } else { "other" }));
    if !seen {
        ev.violation("client_state:lost_connection:no_wait_after_disconnect".to_string(), format!("the peer closed the connection instead of answering; the C listener saw {cs:?}"), json!({}));
    } else {
        ev.count("client_state_wait_after_disconnect_observed", 1);
    }
}

/// calls the library must refuse: nothing is transmitted, the call reports an error, and the
/// completion callback still fires exactly once (a failure), followed by one on_destroy
fn invalid_arguments(rt: &Rt, ev: &mut Evidence) {
    let peer = Peer::start();
    for _ in 0..64 {
        peer.push(Mode::Genuine);
    }
    let ch = CChannel::tcp(rt, peer.port, 8, decode(0, 0, 0));
    ch.enable();
    if !ch.wait_state(2, Duration::from_secs(5)) {
        ev.inconclusive("C-ABI channel did not connect (invalid-argument cells)");
        ch.destroy();
        return;
    }
    let bad: Vec<(&str, ClientReq)> = vec![
        ("read_coils_count_0", ClientReq::Read { kind: Kind::ReadCoils, start: 5, count: 0 }),
        ("read_coils_count_2001", ClientReq::Read { kind: Kind::ReadCoils, start: 5, count: 2001 }),
        ("read_coils_overflow", ClientReq::Read { kind: Kind::ReadCoils, start: 65535, count: 2 }),
        ("read_discrete_inputs_count_0", ClientReq::Read { kind: Kind::ReadDiscrete, start: 5, count: 0 }),
        ("read_discrete_inputs_count_2001", ClientReq::Read { kind: Kind::ReadDiscrete, start: 0, count: 2001 }),
        ("read_discrete_inputs_count_65535", ClientReq::Read { kind: Kind::ReadDiscrete, start: 0, count: 65535 }),
        ("read_holding_registers_count_0", ClientReq::Read { kind: Kind::ReadHolding, start: 9, count: 0 }),
        ("read_holding_registers_count_126", ClientReq::Read { kind: Kind::ReadHolding, start: 9, count: 126 }),
        ("read_holding_registers_overflow", ClientReq::Read { kind: Kind::ReadHolding, start: 65530, count: 10 }),
        ("read_input_registers_count_0", ClientReq::Read { kind: Kind::ReadInput, start: 9, count: 0 }),
        ("read_input_registers_count_126", ClientReq::Read { kind: Kind::ReadInput, start: 9, count: 126 }),
        ("write_multiple_coils_empty", ClientReq::WriteMultiCoils { start: 3, values: vec![] }),
        ("write_multiple_coils_1969", ClientReq::WriteMultiCoils { start: 3, values: vec![true; 1969] }),
        ("write_multiple_coils_overflow", ClientReq::WriteMultiCoils { start: 65535, values: vec![true, false] }),
        ("write_multiple_registers_empty", ClientReq::WriteMultiRegs { start: 3, values: vec![] }),
        ("write_multiple_registers_124", ClientReq::WriteMultiRegs { start: 3, values: vec![7; 124] }),
        ("write_multiple_registers_overflow", ClientReq::WriteMultiRegs { start: 65535, values: vec![1, 2] }),
    ];
    for (name, req) in &bad {
        ev.eval();
        ev.count("invalid_argument_calls", 1);
        let before = peer.frames.lock().unwrap().len();
        let (rc, c) = ch.op(req, 1, 300);
        c.wait(Duration::from_millis(1500));
        std::thread::sleep(Duration::from_millis(30));
        let sent = peer.frames.lock().unwrap().len() - before;
        let rep = json!({"operation": req.describe(), "condition": name});
        ev.class(format!("client|invalid_arguments|{name}|rc={rc}|{:?}", c.outcome()));
        // the refusal may come from the call itself or, for limits that are checked when the request is
        // encoded, through the callback (as with the Rust API): either way it is a failure
        if rc == 0 && !matches!(c.outcome(), Outcome::Err(_)) {
            ev.violation(format!("invalid_arguments:{name}:not_refused"), format!("{}: the call returned success and the callback reported {:?}", req.describe(), c.outcome()), rep.clone());
        }
        if sent != 0 {
            ev.violation(format!("invalid_arguments:{name}:transmitted"), format!("{}: {sent} frame(s) reached the peer", req.describe()), rep.clone());
        }
        if matches!(c.outcome(), Outcome::Ok) {
            ev.violation(format!("invalid_arguments:{name}:completed_ok"), format!("{}: on_complete fired", req.describe()), rep.clone());
        }
        // the reason given to the callback is the one the Rust API gives for the same request
        // (built without the checking constructors: the fields are public): bad request - and not
        // "shutdown", nothing was shut down
        match c.outcome() {
            Outcome::Err(code) if request_error_name(code) != "bad_request" => {
                ev.violation(
                    format!("invalid_arguments:{name}:callback_error={}", request_error_name(code)),
                    format!("{}: refused (rc={rc}), and the completion callback was told {:?} where the Rust API reports BadRequest", req.describe(), request_error_name(code)),
                    rep.clone(),
                );
            }
            _ => {}
        }
        check_callback(ev, &format!("client.invalid_arguments.{name}"), rc, &c, &rep);
    }
    // the same list object may be used for any number of writes
    unsafe {
        let values = [0x1111u16, 0x2222, 0x3333];
        let list = ffi::rodbus_register_list_create(3);
        for v in values {
            ffi::rodbus_register_list_add(list, v);
        }
        let bits = ffi::rodbus_bit_list_create(3);
        for v in [true, false, true] {
            ffi::rodbus_bit_list_add(bits, v);
        }
        for round in 0..3 {
            for which in ["registers", "coils"] {
                ev.eval();
                let before = peer.frames.lock().unwrap().len();
                let (c, cb) = write_callback();
                let rc = if which == "registers" {
                    ffi::rodbus_client_channel_write_multiple_registers(ch.ch, param(1, 1000), 40, list, cb)
                } else {
                    ffi::rodbus_client_channel_write_multiple_coils(ch.ch, param(1, 1000), 40, bits, cb)
                };
                c.wait(Duration::from_millis(2000));
                let frames = peer.frames.lock().unwrap().clone();
                let rep = json!({"operation": format!("write_multiple_{which} with a list object used for the {}. time", round + 1)});
                let want = if which == "registers" {
                    ClientReq::WriteMultiRegs { start: 40, values: values.to_vec() }.encode()
                } else {
                    ClientReq::WriteMultiCoils { start: 40, values: vec![true, false, true] }.encode()
                };
                let got = frames.get(before).map(|f| f.0[7..].to_vec());
                ev.class(format!("client|list_reuse|{which}|use{}|rc={rc}", round + 1));
                if rc != 0 || got != want || !matches!(c.outcome(), Outcome::Ok) {
                    ev.violation(
                        format!("list_reuse:{which}:use{}:rc={rc}", round + 1),
                        format!("write_multiple_{which} with the same list object, use #{}: rc={rc}, outcome {:?}, PDU on the wire {:?}, expected {:?}", round + 1, c.outcome(), got.map(|g| hex(&g)), want.map(|w| hex(&w))),
                        rep.clone(),
                    );
                } else {
                    ev.count("list_reuse_writes_checked", 1);
                }
                check_callback(ev, &format!("client.list_reuse.{which}"), rc, &c, &rep);
            }
        }
        ffi::rodbus_register_list_destroy(list);
        ffi::rodbus_bit_list_destroy(bits);
    }
    // null channel: refused, callback still settled
    unsafe {
        ev.eval();
        let (c, cb) = bit_callback();
        let rc = ffi::rodbus_client_channel_read_coils(std::ptr::null_mut(), param(1, 100), ffi::AddressRange { start: 0, count: 1 }, cb);
        c.wait(Duration::from_millis(1000));
        let rep = json!({"operation": "read_coils on a null channel"});
        ev.class(format!("client|invalid_arguments|null_channel|rc={rc}|{:?}", c.outcome()));
        if rc == 0 {
            ev.violation("invalid_arguments:null_channel:call_accepted".to_string(), "read_coils(NULL, ...) returned success".to_string(), rep.clone());
        }
        check_callback(ev, "client.invalid_arguments.null_channel", rc, &c, &rep);
    }
    ch.destroy();
}

/// destructive outcomes, one channel each
fn client_failures(rt: &Rt, args: &Args, ev: &mut Evidence) {
    let mut rng = Rng::sub(args.seed, 1118, 0);
    for opk in 0..8usize {
        for (mode, want) in [(Mode::BadFraming, "bad_framing"), (Mode::Close, "io_error")] {
            let peer = Peer::start();
            peer.push(mode.clone());
            let ch = CChannel::tcp(rt, peer.port, 4, decode(0, 0, 0));
            ch.enable();
            if !ch.wait_state(2, Duration::from_secs(5)) {
                ev.inconclusive("C-ABI channel did not connect");
                ch.destroy();
                continue;
            }
            let req = gen_req(&mut rng, opk);
            let (rc, c) = ch.op(&req, 1, 1000);
            c.wait(Duration::from_secs(4));
            ev.eval();
            let rep = json!({"operation": req.describe(), "peer_mode": format!("{mode:?}")});
            let name = match c.outcome() {
                Outcome::Ok => "ok".into(),
                Outcome::Err(e) => request_error_name(e).to_string(),
                Outcome::Pending => "pending".to_string(),
            };
            ev.class(format!("client|{}|{:?}|{}", req.kind().name(), mode, name));
            if name != want {
                ev.violation(format!("client:{}:{mode:?}:reported_{name}", req.kind().name()), format!("{} against {mode:?}: expected {want}, C callback reported {name}", req.describe()), rep.clone());
            }
            check_callback(ev, &format!("client.{}", req.kind().name()), rc, &c, &rep);
            ch.destroy();
        }
        // no listener at all -> no_connection
        {
            let port = next_port();
            let ch = CChannel::tcp(rt, port, 4, decode(0, 0, 0));
            ch.enable();
            ch.wait_state(3, Duration::from_secs(5));
            let req = gen_req(&mut rng, opk);
            let (rc, c) = ch.op(&req, 1, 1000);
            c.wait(Duration::from_secs(4));
            ev.eval();
            let rep = json!({"operation": req.describe(), "peer_mode": "no listener"});
            let name = match c.outcome() {
                Outcome::Err(e) => request_error_name(e).to_string(),
                Outcome::Ok => "ok".into(),
                Outcome::Pending => "pending".into(),
            };
            ev.class(format!("client|{}|NoListener|{}", req.kind().name(), name));
            if name != "no_connection" {
                ev.violation(format!("client:{}:no_listener:reported_{name}", req.kind().name()), format!("{} with nothing listening: C callback reported {name}", req.describe()), rep.clone());
            }
            check_callback(ev, &format!("client.{}", req.kind().name()), rc, &c, &rep);
            let st = ch.destroy();
            let cs: Vec<&str> = st.seq.lock().unwrap().iter().map(|s| client_state_name(*s)).collect();
            if cs.len() < 3 || cs[..3] != ["disabled", "connecting", "wait_after_failed_connect"] {
                ev.violation("client_state:refused_sequence".to_string(), format!("nothing listening: C listener saw {cs:?}"), json!({}));
            }
        }
        // queue full: max_queued_requests = 1 against a silent peer
        {
            let peer = Peer::start();
            for _ in 0..8 {
                peer.push(Mode::Silence);
            }
            let ch = CChannel::tcp(rt, peer.port, 1, decode(0, 0, 0));
            ch.enable();
            if !ch.wait_state(2, Duration::from_secs(5)) {
                ev.inconclusive("C-ABI channel did not connect");
                ch.destroy();
                continue;
            }
            let mut calls = vec![];
            for _ in 0..5 {
                let req = gen_req(&mut rng, opk);
                let (rc, c) = ch.op(&req, 1, 400);
                calls.push((req, rc, c));
                std::thread::sleep(Duration::from_millis(10));
            }
            let full = calls.iter().filter(|c| c.1 == 20).count();
            ev.count("queue_full_rejections", full as u64);
            if full == 0 {
                ev.inconclusive("queue-full condition was not produced");
            }
            // the rejected ones must already have had their completion callback
            for (req, rc, c) in calls.iter().filter(|c| c.1 == 20) {
                ev.eval();
                let rep = json!({"operation": req.describe(), "condition": "queue full"});
                ev.class(format!("client|{}|QueueFull|{:?}", req.kind().name(), c.outcome()));
                check_callback(ev, &format!("client.{}.queue_full", req.kind().name()), *rc, c, &rep);
            }
            // destroying the handle does not abort what was accepted: those requests still
            // complete (here: with a timeout), exactly once
            ch.destroy();
            for (req, rc, c) in calls.iter().filter(|c| c.1 == 0) {
                ev.eval();
                c.wait(Duration::from_secs(4));
                let rep = json!({"operation": req.describe(), "condition": "handle destroyed with the request accepted"});
                let name = match c.outcome() {
                    Outcome::Err(e) => request_error_name(e).to_string(),
                    Outcome::Ok => "ok".into(),
                    Outcome::Pending => "pending".into(),
                };
                ev.class(format!("client|{}|HandleDestroyed|{}", req.kind().name(), name));
                if name != "response_timeout" {
                    ev.violation(format!("client:{}:handle_destroyed:reported_{name}", req.kind().name()), format!("{}: silent peer, handle destroyed while accepted: C callback reported {name}", req.describe()), rep.clone());
                }
                check_callback(ev, &format!("client.{}.handle_destroyed", req.kind().name()), *rc, c, &rep);
            }
        }
        // shutdown: the runtime goes away with a request in flight and one queued
        {
            let rt2 = runtime(2);
            let peer = Peer::start();
            for _ in 0..4 {
                peer.push(Mode::Silence);
            }
            let ch = CChannel::tcp(&rt2, peer.port, 4, decode(0, 0, 0));
            ch.enable();
            if !ch.wait_state(2, Duration::from_secs(5)) {
                ev.inconclusive("C-ABI channel did not connect");
                ch.destroy();
                unsafe { ffi::rodbus_runtime_destroy(rt2.0) };
                continue;
            }
            let mut calls = vec![];
            for _ in 0..2 {
                let req = gen_req(&mut rng, opk);
                let (rc, c) = ch.op(&req, 1, 60_000);
                calls.push((req, rc, c));
            }
            std::thread::sleep(Duration::from_millis(30));
            unsafe { ffi::rodbus_runtime_destroy(rt2.0) };
            for (req, rc, c) in &calls {
                ev.eval();
                c.wait(Duration::from_secs(5));
                let rep = json!({"operation": req.describe(), "condition": "runtime destroyed with the request pending"});
                let name = match c.outcome() {
                    Outcome::Err(e) => request_error_name(e).to_string(),
                    Outcome::Ok => "ok".into(),
                    Outcome::Pending => "pending".into(),
                };
                ev.class(format!("client|{}|Shutdown|{}", req.kind().name(), name));
                ev.count("shutdown_completions", 1);
                if name != "shutdown" {
                    ev.violation(format!("client:{}:runtime_destroyed:reported_{name}", req.kind().name()), format!("{}: runtime destroyed while pending, C callback reported {name}", req.describe()), rep.clone());
                }
                check_callback(ev, &format!("client.{}.shutdown", req.kind().name()), *rc, c, &rep);
            }
            // calls on a channel whose runtime is gone must be rejected, callbacks still settled
            let req = gen_req(&mut rng, opk);
            let (rc, c) = ch.op(&req, 1, 100);
            c.wait(Duration::from_secs(2));
            ev.eval();
            ev.class(format!("client|{}|AfterRuntimeDestroyed|rc={rc}", req.kind().name()));
            check_callback(ev, &format!("client.{}.after_runtime_destroyed", req.kind().name()), rc, &c, &json!({"operation": req.describe(), "condition": "call after runtime destroy"}));
            ch.destroy();
        }
    }
}

/// S2: what a write callback answers is what the client receives, for all four writes
fn write_results(rt: &Rt, args: &Args, ev: &mut Evidence) {
    let Some(srv) = start_server(
        rt,
        |db| unsafe {
            for i in 0..16 {
                ffi::rodbus_database_add_coil(db, i, false);
                ffi::rodbus_database_add_holding_register(db, i, 0);
            }
        },
        true,
    ) else {
        ev.inconclusive("cannot start C-ABI server");
        return;
    };
    let mut s = TcpStream::connect(("127.0.0.1", srv.port)).unwrap();
    s.set_read_timeout(Some(Duration::from_secs(3))).ok();
    s.set_nodelay(true).ok();
    // answers: success, the nine standard exceptions, Unknown with every raw code
    let mut answers: Vec<(bool, i32, u8, Option<u8>)> = vec![(true, 1, 0, None)];
    for c in [1u8, 2, 3, 4, 5, 6, 8, 10, 11] {
        answers.push((false, c as i32, 0x77, Some(c)));
    }
    let step = args.tier.pick(5usize, 1);
    for raw in (0..=255u16).step_by(step) {
        answers.push((false, 255, raw as u8, Some(raw as u8)));
    }
    let writes: Vec<(&str, Vec<u8>)> = vec![
        ("write_single_coil", vec![5, 0, 3, 0xFF, 0]),
        ("write_single_register", vec![6, 0, 4, 0xAB, 0xCD]),
        ("write_multiple_coils", vec![15, 0, 1, 0, 10, 2, 0x55, 0x02]),
        ("write_multiple_registers", vec![16, 0, 2, 0, 2, 4, 1, 2, 3, 4]),
    ];
    let mut tx = 0u16;
    for (success, exc, raw, want_code) in answers {
        *srv.wh.answer.lock().unwrap() = (success, exc, raw);
        for (name, pdu) in &writes {
            tx = tx.wrapping_add(1);
            let before = srv.wh.calls.lock().unwrap().len();
            if s.write_all(&mbap_frame(tx, 1, pdu)).is_err() {
                ev.inconclusive("socket to C-ABI server broke");
                return;
            }
            let mut hdr = [0u8; 7];
            let mut body = vec![];
            if s.read_exact(&mut hdr).is_ok() {
                let len = ((hdr[4] as usize) << 8 | hdr[5] as usize).saturating_sub(1);
                body = vec![0u8; len];
                let _ = s.read_exact(&mut body);
            }
            ev.eval();
            ev.count("write_results_checked", 1);
            let want = match want_code {
                None => Req::write_echo(&match parse_request(pdu) {
                    Parsed::Valid(r) => r,
                    _ => unreachable!(),
                }),
                Some(c) => vec![pdu[0] | 0x80, c],
            };
            let kind = if success { "success".to_string() } else if exc == 255 { "raw_code".to_string() } else { format!("exception_{exc}") };
            ev.class(format!("write_result|{name}|{kind}"));
            let rep = json!({"write": name, "callback_result": {"success": success, "exception": exc, "raw_exception": raw}, "reply_pdu": hex(&body), "expected_pdu": hex(&want)});
            if body != want {
                ev.violation(
                    format!("write_result:{name}:{}:client_received_{}", if success { "success".to_string() } else if exc == 255 { format!("raw_{raw:#04x}") } else { format!("exception_{exc}") }, hex(&body)),
                    format!("{name}: the write callback returned success={success} exception={exc} raw={raw:#04x}; the client received {} instead of {}", hex(&body), hex(&want)),
                    rep.clone(),
                );
            }
            let calls = srv.wh.calls.lock().unwrap();
            if calls.len() != before + 1 {
                ev.violation(format!("write_result:{name}:callback_invocations={}", calls.len() - before), "the write callback was not invoked exactly once".to_string(), rep.clone());
            } else {
                let got = calls.last().unwrap();
                let ok = match (*name, got) {
                    ("write_single_coil", Written::Coil(3, true)) => true,
                    ("write_single_register", Written::Reg(4, 0xABCD)) => true,
                    ("write_multiple_coils", Written::Coils(1, v)) => v.len() == 10 && v[0] == (1, true) && v[1] == (2, false) && v[9] == (10, true),
                    ("write_multiple_registers", Written::Regs(2, v)) => *v == vec![(2, 0x0102), (3, 0x0304)],
                    _ => false,
                };
                if !ok {
                    ev.violation(format!("write_result:{name}:callback_arguments"), format!("write callback received {got:?}"), rep.clone());
                }
            }
        }
    }
    // successful writes were applied by the handler: read back through the wire
    let r = read_pdu(&mut s, 9000, 1, 3, 2, 2);
    if r != Some(vec![3, 4, 1, 2, 3, 4]) {
        ev.violation("write_result:state_after_success".to_string(), format!("after a successful write multiple registers the database reads {:?}", r.map(|x| hex(&x))), json!({}));
    }
    unsafe { ffi::rodbus_server_destroy(srv.server) };
    std::thread::sleep(Duration::from_millis(50));
    let d = srv.wh.destroys.load(Ordering::SeqCst);
    if d != 1 {
        ev.violation(format!("write_handler:on_destroy={d}"), format!("write handler destroyed {d} times after server destroy"), json!({}));
    }
}

/// S4: same-named decode level => same messages (C ABI vs Rust API), and the messages match
/// the level's meaning
fn decode_levels(rt: &Rt, trt: &tokio::runtime::Runtime, log: &LogCtx, ev: &mut Evidence) {
    fn kinds(lines: &[String]) -> Vec<String> {
        // keep the protocol-decoding messages, strip span prefixes and per-connection data
        let mut v = vec![];
        for l in lines {
            for tag in ["PDU TX", "PDU RX", "MBAP TX", "MBAP RX", "PHYS TX", "PHYS RX"] {
                if let Some(p) = l.find(tag) {
                    // tx ids and unit ids are identical in both runs; keep the whole text
                    v.push(l[p..].to_string());
                }
            }
        }
        v.sort();
        v
    }
    for level in 0..36i32 {
        let (a, f, p) = (level % 4, (level / 4) % 3, level / 12);
        let req = ClientReq::Read { kind: Kind::ReadHolding, start: 7, count: 3 };
        // C ABI
        let peer = Peer::start();
        log.lines.lock().unwrap().clear();
        let ch = CChannel::tcp(rt, peer.port, 4, decode(a, f, p));
        ch.enable();
        ch.wait_state(2, Duration::from_secs(5));
        let (_rc, c) = ch.op(&req, 1, 2000);
        c.wait(Duration::from_secs(3));
        ch.destroy();
        std::thread::sleep(Duration::from_millis(20));
        let c_lines = kinds(&log.lines.lock().unwrap());
        // Rust API, same-named level
        let peer2 = Peer::start();
        log.lines.lock().unwrap().clear();
        let port2 = peer2.port;
        trt.block_on(async move {
            use rodbus::client::*;
            use rodbus::*;
            let lvl = DecodeLevel::new(
                [AppDecodeLevel::Nothing, AppDecodeLevel::FunctionCode, AppDecodeLevel::DataHeaders, AppDecodeLevel::DataValues][a as usize],
                [FrameDecodeLevel::Nothing, FrameDecodeLevel::Header, FrameDecodeLevel::Payload][f as usize],
                [PhysDecodeLevel::Nothing, PhysDecodeLevel::Length, PhysDecodeLevel::Data][p as usize],
            );
            let st = Arc::new(Mutex::new(vec![]));
            let ch = spawn_tcp_client_task(HostAddr::ip("127.0.0.1".parse().unwrap(), port2), 4, doubling_retry_strategy(Duration::from_millis(50), Duration::from_millis(100)), lvl, Some(Box::new(RustStates(st.clone()))));
            ch.enable().await.ok();
            for _ in 0..500 {
                if st.lock().unwrap().contains(&"connected") {
                    break;
                }
                tokio::time::sleep(Duration::from_millis(5)).await;
            }
            let _ = ch.read_holding_registers(RequestParam::new(UnitId::new(1), Duration::from_secs(2)), AddressRange::try_from(7, 3).unwrap()).await;
            drop(ch);
            tokio::time::sleep(Duration::from_millis(20)).await;
        });
        let r_lines = kinds(&log.lines.lock().unwrap());
        ev.eval();
        ev.count("decode_levels_compared", 1);
        ev.class(format!("decode_level|app{a}|frame{f}|phys{p}"));
        let rep = json!({"level": {"app": a, "frame": f, "physical": p}, "c_abi_messages": c_lines, "rust_api_messages": r_lines});
        if c_lines != r_lines {
            ev.violation(
                format!("decode_level:app{a}_frame{f}_phys{p}:messages_differ"),
                format!("decode level app={a} frame={f} physical={p}: {} messages through the C ABI, {} through the Rust API with the same-named level", c_lines.len(), r_lines.len()),
                rep.clone(),
            );
        }
        // and the level means what its name says
        let has = |t: &str| c_lines.iter().any(|l| l.starts_with(t));
        if (a > 0) != has("PDU") || (f > 0) != has("MBAP") || (p > 0) != has("PHYS") {
            ev.violation(
                format!("decode_level:app{a}_frame{f}_phys{p}:wrong_layers_logged"),
                format!("level app={a} frame={f} phys={p} logged layers PDU={} MBAP={} PHYS={}", has("PDU"), has("MBAP"), has("PHYS")),
                rep,
            );
        }
    }
}

/// serial port state listener through the C ABI: a path that cannot be opened
fn port_states(rt: &Rt, ev: &mut Evidence) {
    let (states, listener) = port_listener();
    let mut ch = std::ptr::null_mut();
    let path = cstr("/dev/verif-no-such-port");
    let settings = ffi::SerialPortSettings { baud_rate: 9600, data_bits: 3, flow_control: 0, parity: 0, stop_bits: 0 };
    let rc = unsafe { ffi::rodbus_client_channel_create_rtu(rt.0, path.as_ptr(), settings, 4, retry(20, 40), decode(0, 0, 0), listener, &mut ch) };
    if rc != 0 {
        ev.inconclusive(format!("rodbus_client_channel_create_rtu returned {rc}"));
        return;
    }
    unsafe { ffi::rodbus_client_channel_enable(ch) };
    std::thread::sleep(Duration::from_millis(150));
    let (c, cb) = reg_callback();
    let rc2 = unsafe { ffi::rodbus_client_channel_read_holding_registers(ch, param(1, 500), ffi::AddressRange { start: 0, count: 1 }, cb) };
    c.wait(Duration::from_secs(3));
    unsafe { ffi::rodbus_client_channel_destroy(ch) };
    std::thread::sleep(Duration::from_millis(100));
    ev.eval();
    let seq: Vec<&str> = states.seq.lock().unwrap().iter().map(|s| port_state_name(*s)).collect();
    ev.class(format!("port_state|{}", seq.iter().take(4).cloned().collect::<Vec<_>>().join(">")));
    if seq.len() < 3 || seq[0] != "disabled" || seq[1] != "wait" || seq.last() != Some(&"shutdown") {
        ev.violation("port_state:sequence".to_string(), format!("unopenable serial port: C listener saw {seq:?}, expected disabled, wait, ..., shutdown"), json!({}));
    }
    let name = match c.outcome() {
        Outcome::Err(e) => request_error_name(e).to_string(),
        Outcome::Ok => "ok".into(),
        Outcome::Pending => "pending".into(),
    };
    if name != "no_connection" {
        ev.violation(format!("port:request_on_closed_port_reported_{name}"), format!("request on an unopenable port reported {name}"), json!({}));
    }
    check_callback(ev, "client.rtu.read_holding_registers", rc2, &c, &json!({}));
    if states.destroys.load(Ordering::SeqCst) != 1 {
        ev.violation(format!("port_state_listener:on_destroy={}", states.destroys.load(Ordering::SeqCst)), "listener destroy count".to_string(), json!({}));
    }
}

fn fixture(name: &str) -> String {
    verif_root().join("fixtures").join("pki").join(name).display().to_string()
}

fn run_peer(args: &[String]) -> serde_json::Value {
    let out = std::process::Command::new("python3")
        .arg(verif_root().join("peers").join("tls_peer.py"))
        .args(args)
        .stdin(std::process::Stdio::null())
        .output();
    match out {
        Err(e) => json!({"spawn_error": e.to_string()}),
        Ok(o) => {
            let text = String::from_utf8_lossy(&o.stdout);
            let last = text.lines().rev().find(|l| l.trim_start().starts_with('{')).unwrap_or("{}");
            serde_json::from_str(last).unwrap_or(json!({"parse_error": text.to_string()}))
        }
    }
}

/// the python peer as a TLS server: (child, stdout reader, port) once it is listening
fn start_peer_server(args: &[String]) -> Option<(std::process::Child, std::io::BufReader<std::process::ChildStdout>, u16)> {
    use std::io::BufRead;
    let script = verif_root().join("peers").join("tls_peer.py");
    let mut child = std::process::Command::new("python3")
        .arg(script)
        .arg("server")
        .args(args)
        .stdin(std::process::Stdio::null())
        .stdout(std::process::Stdio::piped())
        .stderr(std::process::Stdio::null())
        .spawn()
        .ok()?;
    let mut reader = std::io::BufReader::new(child.stdout.take()?);
    let mut first = String::new();
    reader.read_line(&mut first).ok()?;
    let port: u16 = first.trim().strip_prefix("LISTENING ")?.trim().parse().ok()?;
    Some((child, reader, port))
}

fn finish_peer_server(mut child: std::process::Child, reader: std::io::BufReader<std::process::ChildStdout>) -> serde_json::Value {
    use std::io::BufRead;
    let t0 = Instant::now();
    loop {
        match child.try_wait() {
            Ok(Some(_)) => break,
            Ok(None) if t0.elapsed() > Duration::from_secs(15) => {
                let _ = child.kill();
                let _ = child.wait();
                break;
            }
            Ok(None) => std::thread::sleep(Duration::from_millis(20)),
            Err(_) => break,
        }
    }
    let mut last = String::new();
    for l in reader.lines().map_while(Result::ok) {
        if l.trim_start().starts_with('{') {
            last = l;
        }
    }
    serde_json::from_str(&last).unwrap_or(json!({"parse_error": last}))
}

/// TLS client settings through the C ABI: expected name and its wildcard switch, minimum version,
/// certificate mode - judged against an independent TLS server (python) and, for the creation
/// result, against the Rust constructor given the same values
fn tls_client_configuration(rt: &Rt, ev: &mut Evidence) {
    struct Cell {
        name: &'static str,
        dns: &'static str,
        wildcard: bool,
        mode: i32, // 0 authority, 1 self-signed
        min: i32,  // 0 = 1.2, 1 = 1.3
        server_cert: &'static str,
        server_max: &'static str,
        /// None: creation must fail; Some(admit)
        expect: Option<bool>,
    }
    let cells = [
        Cell { name: "name_matches", dns: "test.server", wildcard: false, mode: 0, min: 0, server_cert: "server_valid", server_max: "1.3", expect: Some(true) },
        Cell { name: "name_differs", dns: "test.server", wildcard: false, mode: 0, min: 0, server_cert: "server_wrong_name", server_max: "1.3", expect: Some(false) },
        Cell { name: "name_differs_wildcard_flag_set_but_name_given", dns: "test.server", wildcard: true, mode: 0, min: 0, server_cert: "server_wrong_name", server_max: "1.3", expect: Some(false) },
        Cell { name: "star_with_wildcard_flag", dns: "*", wildcard: true, mode: 0, min: 0, server_cert: "server_wrong_name", server_max: "1.3", expect: Some(true) },
        Cell { name: "star_without_wildcard_flag", dns: "*", wildcard: false, mode: 0, min: 0, server_cert: "server_wrong_name", server_max: "1.3", expect: None },
        Cell { name: "wrong_authority", dns: "test.server", wildcard: false, mode: 0, min: 0, server_cert: "server_wrong_ca", server_max: "1.3", expect: Some(false) },
        Cell { name: "min13_server_12_only", dns: "test.server", wildcard: false, mode: 0, min: 1, server_cert: "server_valid", server_max: "1.2", expect: Some(false) },
        Cell { name: "min12_server_12_only", dns: "test.server", wildcard: false, mode: 0, min: 0, server_cert: "server_valid", server_max: "1.2", expect: Some(true) },
        Cell { name: "min13_server_13", dns: "test.server", wildcard: false, mode: 0, min: 1, server_cert: "server_valid", server_max: "1.3", expect: Some(true) },
        Cell { name: "self_signed_same_certificate", dns: "ignored", wildcard: false, mode: 1, min: 0, server_cert: "ss_server", server_max: "1.3", expect: Some(true) },
        Cell { name: "self_signed_other_certificate", dns: "ignored", wildcard: false, mode: 1, min: 0, server_cert: "ss_server_other", server_max: "1.3", expect: Some(false) },
    ];
    for c in cells.iter() {
        ev.eval();
        ev.count("configuration_cells", 1);
        let (peer_cert, local, key, ca_for_server) = if c.mode == 0 {
            (fixture("ca1.cert.pem"), fixture("client_operator.cert.pem"), fixture("client_operator.key.pem"), fixture("ca1.cert.pem"))
        } else {
            (fixture("ss_server.cert.pem"), fixture("ss_client.cert.pem"), fixture("ss_client.key.pem"), fixture("ss_client.cert.pem"))
        };
        // what the Rust constructor says about the same values
        let rust = {
            use rodbus::client::TlsClientConfig as T;
            let min = if c.min == 0 { rodbus::client::MinTlsVersion::V1_2 } else { rodbus::client::MinTlsVersion::V1_3 };
            let (pc, lc, k) = (std::path::PathBuf::from(&peer_cert), std::path::PathBuf::from(&local), std::path::PathBuf::from(&key));
            if c.mode == 0 {
                let name = if c.wildcard && c.dns == "*" { None } else { Some(c.dns.to_string()) };
                T::full_pki(name, &pc, &lc, &k, None, min).is_ok()
            } else {
                T::self_signed(&pc, &lc, &k, None, min).is_ok()
            }
        };
        let Some((child, reader, port)) = start_peer_server(&[
            "--ca".into(), ca_for_server, "--cert".into(), fixture(&format!("{}.cert.pem", c.server_cert)), "--key".into(), fixture(&format!("{}.key.pem", c.server_cert)),
            "--min".into(), "1.2".into(), "--max".into(), c.server_max.into(), "--wait".into(), "2".into(), "--accept-wait".into(), "4".into(),
        ]) else {
            ev.inconclusive("python TLS server did not start (C18 TLS client cells)");
            continue;
        };
        let (d, a, b, k, pw) = (cstr(c.dns), cstr(&peer_cert), cstr(&local), cstr(&key), cstr(""));
        let tls = ffi::TlsClientConfig { dns_name: d.as_ptr(), peer_cert_path: a.as_ptr(), local_cert_path: b.as_ptr(), private_key_path: k.as_ptr(), password: pw.as_ptr(), min_tls_version: c.min, certificate_mode: c.mode, allow_server_name_wildcard: c.wildcard };
        let (states, listener) = client_listener();
        let mut ch = std::ptr::null_mut();
        let host = cstr("127.0.0.1");
        let rc = unsafe { ffi::rodbus_client_channel_create_tls(rt.0, host.as_ptr(), port, 4, retry(5000, 5000), tls, decode(0, 0, 0), listener, &mut ch) };
        let cellname = format!("config|tls_client|{}", c.name);
        let rep = json!({"cell": c.name, "dns_name": c.dns, "allow_server_name_wildcard": c.wildcard, "certificate_mode": c.mode, "min_tls_version": c.min, "server_presents": c.server_cert, "server_max": c.server_max});
        if (rc == 0) != rust {
            ev.violation(
                format!("{cellname}:creation_differs_from_rust_api:rc={rc}"),
                format!("rodbus_client_channel_create_tls returned param error {} but the Rust constructor with the same values {}", rc, if rust { "succeeds" } else { "fails" }),
                rep.clone(),
            );
        }
        if c.expect.is_none() && rc == 0 {
            ev.violation(format!("{cellname}:created_although_invalid"), "a channel was created from a configuration the Rust API rejects".to_string(), rep.clone());
        }
        if rc != 0 {
            ev.class(format!("{cellname}|creation_refused:{}", rc));
            drop(states);
            let _ = finish_peer_server(child, reader);
            continue;
        }
        let chan = CChannel { ch, states };
        chan.enable();
        // Connected, or a wait state after the failed attempt (the retry delay is 5 s: one attempt only)
        let t0 = Instant::now();
        while t0.elapsed() < Duration::from_secs(4) {
            if chan.states.seq.lock().unwrap().iter().any(|s| matches!(s, 2 | 3 | 4)) {
                break;
            }
            std::thread::sleep(Duration::from_millis(2));
        }
        let connected = chan.states.seq.lock().unwrap().contains(&2);
        let mut served = false;
        if connected {
            let req = ClientReq::WriteSingleReg { addr: 7, value: 0xBEEF };
            let (rc, cb) = chan.op(&req, 1, 1500);
            if rc == 0 {
                cb.wait(Duration::from_secs(3));
                served = matches!(cb.outcome(), Outcome::Ok);
            }
        }
        chan.destroy();
        let peer = finish_peer_server(child, reader);
        let got_request = peer["request_hex"].as_str().map(|h| !h.is_empty()).unwrap_or(false);
        ev.class(format!("{cellname}|{}", if connected { "connected" } else { "refused" }));
        match c.expect {
            Some(true) if !served => ev.violation(format!("{cellname}:valid_server_refused"), format!("the server should be accepted with these settings: connected={connected} served={served} peer={peer}"), rep.clone()),
            Some(false) if connected || got_request => ev.violation(format!("{cellname}:invalid_server_accepted"), format!("the server must be refused with these settings: Connected reported={connected}, Modbus bytes sent to it={got_request}"), rep.clone()),
            _ => ev.count("tls_client_configuration_cells_as_expected", 1),
        }
    }
}

/// configuration passes through unchanged: TLS settings (minimum version, certificate mode),
/// retry strategy delays, serial port settings
fn configuration(rt: &Rt, ev: &mut Evidence) {
    // --- max_queued_requests: against a silent peer the channel holds one outstanding request plus
    // exactly `max_queued_requests` queued ones; the rest is refused at the call. (The first request
    // may or may not have left the queue when the burst arrives: k or k+1 accepted.)
    for k in [1u16, 4, 9] {
        let peer = Peer::start();
        for _ in 0..24 {
            peer.push(Mode::Silence);
        }
        let ch = CChannel::tcp(rt, peer.port, k, decode(0, 0, 0));
        ch.enable();
        if !ch.wait_state(2, Duration::from_secs(5)) {
            ev.inconclusive("C-ABI channel did not connect (max_queued_requests cell)");
            ch.destroy();
            continue;
        }
        let req = ClientReq::Read { kind: Kind::ReadHolding, start: 0, count: 1 };
        let (rc0, _c0) = ch.op(&req, 1, 1500);
        std::thread::sleep(Duration::from_millis(100));
        let mut accepted = usize::from(rc0 == 0);
        let mut calls = vec![];
        for _ in 0..16 {
            let (rc, c) = ch.op(&req, 1, 1500);
            if rc == 0 {
                accepted += 1;
            }
            calls.push((rc, c));
        }
        ev.eval();
        ev.count("configuration_cells", 1);
        ev.class(format!("config|max_queued_requests={k}|accepted={accepted}"));
        if accepted != k as usize && accepted != k as usize + 1 {
            ev.violation(
                format!("config:max_queued_requests={k}:accepted={accepted}"),
                format!("channel created with max_queued_requests={k}: {accepted} of 17 requests were accepted while the peer stayed silent (expected {k} queued + the outstanding one)"),
                json!({"max_queued_requests": k}),
            );
        }
        ch.destroy();
    }
    tls_client_configuration(rt, ev);
    // --- TLS server through the C ABI: {min 1.2, 1.3} x {authority, self-signed} vs a python peer
    for (min, mode) in [(0i32, 0i32), (1, 0), (0, 1), (1, 1)] {
        let (peer_cert, local, key) = if mode == 0 {
            (fixture("ca1.cert.pem"), fixture("server_valid.cert.pem"), fixture("server_valid.key.pem"))
        } else {
            (fixture("ss_client.cert.pem"), fixture("ss_server.cert.pem"), fixture("ss_server.key.pem"))
        };
        let (a, b, c, d) = (cstr(&peer_cert), cstr(&local), cstr(&key), cstr(""));
        let tls = ffi::TlsServerConfig { peer_cert_path: a.as_ptr(), local_cert_path: b.as_ptr(), private_key_path: c.as_ptr(), password: d.as_ptr(), min_tls_version: min, certificate_mode: mode };
        let server = unsafe {
            let map = ffi::rodbus_device_map_create();
            let (_wh, handler) = write_handler(false);
            let (_c, cb) = db_callback_with(|db| {
                ffi::rodbus_database_add_holding_register(db, 0, 0x1234);
            });
            ffi::rodbus_device_map_add_endpoint(map, 1, handler, cb);
            let filter = ffi::rodbus_address_filter_any();
            let port = next_port();
            let ip = cstr("127.0.0.1");
            let mut server = std::ptr::null_mut();
            let rc = ffi::rodbus_server_create_tls(rt.0, ip.as_ptr(), port, filter, 4, map, tls, decode(0, 0, 0), &mut server);
            ffi::rodbus_address_filter_destroy(filter);
            ffi::rodbus_device_map_destroy(map);
            if rc != 0 {
                ev.inconclusive(format!("rodbus_server_create_tls(min={min}, mode={mode}) returned {rc}"));
                continue;
            }
            (server, port)
        };
        let (ca, cert, ckey, name) = if mode == 0 {
            (fixture("ca1.cert.pem"), fixture("client_operator.cert.pem"), fixture("client_operator.key.pem"), "test.server")
        } else {
            (fixture("ss_server.cert.pem"), fixture("ss_client.cert.pem"), fixture("ss_client.key.pem"), "ss.server")
        };
        for (lo, hi, offer) in [("1.2", "1.2", 12), ("1.3", "1.3", 13)] {
            let res = run_peer(&[
                "client".into(), "--port".into(), server.1.to_string(), "--ca".into(), ca.clone(), "--cert".into(), cert.clone(), "--key".into(), ckey.clone(),
                "--min".into(), lo.into(), "--max".into(), hi.into(), "--servername".into(), name.into(), "--send".into(), "424200000006010300000001".into(), "--wait".into(), "2".into(),
            ]);
            let served = res["reply_hex"].as_str().map(|h| h.starts_with("4242")).unwrap_or(false);
            let want = !(min == 1 && offer == 12);
            ev.eval();
            ev.count("tls_configuration_cells", 1);
            ev.class(format!("config|tls_server|min{}|mode{}|peer_tls1.{}|{}", if min == 0 { "1.2" } else { "1.3" }, mode, offer - 10, if served { "served" } else { "refused" }));
            if served != want {
                ev.violation(
                    format!("config:tls_server:min_version={min}:certificate_mode={mode}:peer_tls1.{}:{}", offer - 10, if served { "served" } else { "refused" }),
                    format!("C-ABI TLS server with min_tls_version={} certificate_mode={}: a valid peer offering only TLS1.{} was {} ({res})", if min == 0 { "V12" } else { "V13" }, if mode == 0 { "AuthorityBased" } else { "SelfSigned" }, offer - 10, if served { "served" } else { "refused" }),
                    json!({"min": min, "mode": mode, "offer": offer, "peer": res}),
                );
            }
        }
        // the other mode's credentials must not work (mode really is what was asked for)
        let (oca, ocert, okey, oname) = if mode == 1 {
            (fixture("ca1.cert.pem"), fixture("client_operator.cert.pem"), fixture("client_operator.key.pem"), "test.server")
        } else {
            (fixture("ss_server.cert.pem"), fixture("ss_client.cert.pem"), fixture("ss_client.key.pem"), "ss.server")
        };
        let res = run_peer(&["client".into(), "--port".into(), server.1.to_string(), "--ca".into(), oca, "--cert".into(), ocert, "--key".into(), okey, "--servername".into(), oname.into(), "--send".into(), "424200000006010300000001".into(), "--wait".into(), "1".into()]);
        if res["reply_hex"].as_str().map(|h| h.starts_with("4242")).unwrap_or(false) {
            ev.violation(format!("config:tls_server:certificate_mode={mode}:other_mode_credentials_served"), "a peer with the other certificate mode's credentials was served".to_string(), json!({"peer": res}));
        }
        unsafe { ffi::rodbus_server_destroy(server.0) };
    }

    // --- retry strategy delays: first wait after a refused connect must be >= min_delay
    for min_ms in [120u64, 300] {
        let (states, listener) = client_listener();
        let mut ch = std::ptr::null_mut();
        let host = cstr("127.0.0.1");
        let port = next_port();
        let rc = unsafe { ffi::rodbus_client_channel_create_tcp(rt.0, host.as_ptr(), port, 4, retry(min_ms, min_ms * 4), decode(0, 0, 0), listener, &mut ch) };
        if rc != 0 {
            continue;
        }
        unsafe { ffi::rodbus_client_channel_enable(ch) };
        std::thread::sleep(Duration::from_millis(min_ms * 4 + 400));
        unsafe { ffi::rodbus_client_channel_destroy(ch) };
        let seq = states.seq.lock().unwrap().clone();
        let at = states.at.lock().unwrap().clone();
        ev.eval();
        ev.class(format!("config|retry_min_delay_{min_ms}ms"));
        // disabled, connecting, wait, connecting, wait ...: gaps between wait_k and the next connecting
        let mut waits = vec![];
        for i in 0..seq.len().saturating_sub(1) {
            if seq[i] == 3 && seq[i + 1] == 1 {
                waits.push(at[i + 1].duration_since(at[i]));
            }
        }
        ev.count("retry_waits_measured", waits.len() as u64);
        if let Some(w) = waits.first() {
            if *w + Duration::from_millis(2) < Duration::from_millis(min_ms) || *w > Duration::from_millis(min_ms + 250) {
                ev.violation(format!("config:retry_strategy:min_delay={min_ms}ms"), format!("retry strategy min_delay {min_ms} ms: first wait lasted {w:?}"), json!({"waits": waits.iter().map(|d| d.as_millis() as u64).collect::<Vec<_>>()}));
            }
        }
        if let Some(w) = waits.get(1) {
            if *w + Duration::from_millis(2) < Duration::from_millis(2 * min_ms) {
                ev.violation(format!("config:retry_strategy:second_delay:min={min_ms}ms"), format!("second wait lasted {w:?}, expected about {} ms", 2 * min_ms), json!({}));
            }
        }
    }

    // --- serial settings: open a pty through the C ABI and read the line settings back
    unsafe {
        let m = libc::posix_openpt(libc::O_RDWR | libc::O_NOCTTY);
        if m >= 0 && libc::grantpt(m) == 0 && libc::unlockpt(m) == 0 {
            let mut buf = [0 as libc::c_char; 128];
            libc::ptsname_r(m, buf.as_mut_ptr(), buf.len());
            let path = std::ffi::CStr::from_ptr(buf.as_ptr()).to_owned();
            // (baud, data bits enum, flow enum, parity enum, stop bits enum)
            for (baud, data, flow, parity, stop) in [(19200u32, 2i32, 0i32, 2i32, 1i32), (9600, 3, 1, 1, 0), (115200, 3, 0, 0, 0), (4800, 1, 2, 0, 1)] {
                let (st, listener) = port_listener();
                let mut ch = std::ptr::null_mut();
                let settings = ffi::SerialPortSettings { baud_rate: baud, data_bits: data, flow_control: flow, parity, stop_bits: stop };
                let rc = ffi::rodbus_client_channel_create_rtu(rt.0, path.as_ptr(), settings, 4, retry(50, 100), decode(0, 0, 0), listener, &mut ch);
                if rc != 0 {
                    continue;
                }
                ffi::rodbus_client_channel_enable(ch);
                std::thread::sleep(Duration::from_millis(120));
                // the port is open: the C port listener is told so, by that name
                {
                    let seen: Vec<&str> = st.seq.lock().unwrap().iter().map(|x| port_state_name(*x)).collect();
                    ev.class(format!("port_state|{}", seen.join(">")));
                    if seen != ["disabled", "open"] {
                        ev.violation(format!("port_state:open_port:{}", seen.join(">")), format!("serial channel on a pty that can be opened: the C port listener saw {seen:?}, expected disabled, open"), json!({"baud": baud}));
                    } else {
                        ev.count("port_state_open_observed", 1);
                    }
                }
                let fd = libc::open(path.as_ptr(), libc::O_RDWR | libc::O_NOCTTY | libc::O_NONBLOCK);
                let mut t: libc::termios = std::mem::zeroed();
                let ok = fd >= 0 && libc::tcgetattr(fd, &mut t) == 0;
                if ok {
                    let csize = t.c_cflag & libc::CSIZE;
                    let got_data = match csize {
                        x if x == libc::CS5 => 0,
                        x if x == libc::CS6 => 1,
                        x if x == libc::CS7 => 2,
                        _ => 3,
                    };
                    let got_parity = if t.c_cflag & libc::PARENB == 0 { 0 } else if t.c_cflag & libc::PARODD != 0 { 1 } else { 2 };
                    let got_stop = if t.c_cflag & libc::CSTOPB != 0 { 1 } else { 0 };
                    let got_flow = if t.c_cflag & libc::CRTSCTS != 0 { 2 } else if t.c_iflag & (libc::IXON | libc::IXOFF) != 0 { 1 } else { 0 };
                    let got_baud = match libc::cfgetospeed(&t) {
                        libc::B4800 => 4800,
                        libc::B9600 => 9600,
                        libc::B19200 => 19200,
                        libc::B115200 => 115200,
                        _ => 0,
                    };
                    ev.eval();
                    ev.count("serial_settings_checked", 1);
                    ev.class(format!("config|serial|{baud}|d{data}|f{flow}|p{parity}|s{stop}"));
                    // a Linux pty forces 8 data bits / no parity and does not keep the baud rate, so
                    // only flow control and stop bits can be read back here
                    let _ = (got_baud, got_data, got_parity);
                    let want = (flow, stop);
                    let got = (got_flow, got_stop);
                    if want != got {
                        ev.violation(
                            format!("config:serial_settings:flow_stop:want={want:?}:got={got:?}").replace(' ', ""),
                            format!("serial settings (flow_control, stop_bits) given {want:?} but the port was configured {got:?}"),
                            json!({"baud": baud, "data_bits": data, "parity": parity}),
                        );
                    }
                }
                if fd >= 0 {
                    libc::close(fd);
                }
                ffi::rodbus_client_channel_destroy(ch);
                std::thread::sleep(Duration::from_millis(30));
            }
            libc::close(m);
        } else {
            ev.count("pty_unavailable", 1);
        }
    }
}

pub fn run(args: &Args) -> i32 {
    let started = Instant::now();
    let log = install_logger();
    let rt = runtime(4);
    let trt = tokio::runtime::Builder::new_multi_thread().worker_threads(2).enable_all().build().unwrap();
    let mut ev = Evidence::new();
    client_outcomes(&rt, &trt, args, &mut ev);
    client_failures(&rt, args, &mut ev);
    invalid_arguments(&rt, &mut ev);
    lost_connection_state(&rt, &mut ev);
    write_results(&rt, args, &mut ev);
    match &log {
        Some(l) => decode_levels(&rt, &trt, l, &mut ev),
        None => ev.inconclusive("could not install the C-ABI logger"),
    }
    port_states(&rt, &mut ev);
    configuration(&rt, &mut ev);
    crate::c18srv::run(&rt, &trt, &mut ev);
    crate::c18misc::run(&rt, log.as_deref(), &mut ev);
    ev.sample(json!({"client_scenario": "rodbus_client_channel_read_holding_registers(unit, range, timeout) against a scripted peer answering [genuine, exception 0x01..0xFF, bad response, silence, ...]; the same list through rodbus::client::Channel", "server_scenario": "WriteHandler callbacks returning {success | exception enum | Unknown+raw code} for FC05/06/15/16 observed by a raw TCP client"}));
    unsafe { ffi::rodbus_runtime_destroy(rt.0) };
    if args.tier == Tier::Thorough && !args.extra.contains_key("no-legs") {
        crate::legs::miri_ffi(args, "C18", &mut ev);
        crate::legs::asan(args, "c18", "C18", &mut ev);
    }
    let meta = Meta {
        property_id: "C18",
        level: "exploration",
        rule: "one evaluation = one compared observable. Client: all eight operations through rodbus_client_channel_* with random arguments, unit ids and timeouts against a scripted loopback peer producing genuine replies, the 9 standard and all 256 raw exception codes, bad response, bad framing, close, silence, no listener, channel destroyed while pending, full queue; the same scenario runs through the Rust API; outcomes are compared after mapping names through an independent table, request bytes are compared with the reference encoder and with the Rust run, timeouts are measured. Server: a C-ABI write handler answering success / each standard exception / raw codes through WriteResult for all four write functions, observed by a raw client. Completion callbacks must sum to one and on_destroy must be one for every callback object. Decode levels: each of the 36 levels through the C ABI and through the Rust API with the process-wide C logger, message sets compared. Client/port state listeners compared by name. Configuration: max_queued_requests (accepted requests against a silent peer), TLS client settings (expected name and its wildcard switch, minimum version, certificate mode against an independent TLS server; creation result vs the Rust constructor), TLS server settings, retry delays, serial settings; max_sessions 2 / 256 / 258 through each of the three TCP/TLS server constructors; a C authorization handler with one callback per function answering by a bit mask (four masks): callback consulted, its arguments and role, client result, write-handler calls. distinct = (surface, operation, condition, reported name)".into(),
        assumptions: vec![
"the completion callback of a call that is refused (invalid range or list, null channel, full queue, runtime gone) must fire exactly once like any other; which error code it carries is not judged".into(),
            "the harness is Rust linking the rodbus-ffi rlib and calling only the generated extern \"C\" functions with extern \"C\" callbacks".into(),
        ],
        exhaustive: None,
        floors: vec![
            ("client_operations_compared".into(), args.tier.pick(300, 2_000)),
            ("write_results_checked".into(), args.tier.pick(200, 1_000)),
            ("callback_objects_checked".into(), args.tier.pick(400, 2_500)),
            ("decode_levels_compared".into(), 36),
            ("distinct_exception_codes".into(), 256),
            ("queue_full_rejections".into(), 8),
            ("shutdown_completions".into(), 8),
            ("tls_configuration_cells".into(), 8),
            ("invalid_argument_calls".into(), 17),
            ("runtime_level_changes_compared".into(), 72),
            ("rtu_server_replies_checked".into(), 3),
            ("disable_enable_cycles_checked".into(), 1),
            ("list_reuse_writes_checked".into(), 6),
            ("max_sessions_cells_as_expected".into(), 9),
            ("authorization_callbacks_checked".into(), 32),
            ("tls_client_configuration_cells_as_expected".into(), 9),
        ],
        min_classes: 120,
    };
    finish(args, meta, ev, started)
}
