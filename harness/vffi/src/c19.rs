//! C19: the C-ABI point database is a per-type map with atomic transactions.

use crate::util::*;
use rodbus_ffi::ffi;
use serde_json::json;
use std::collections::HashMap;
use std::io::{Read, Write};
use std::net::TcpStream;
use std::sync::atomic::{AtomicBool, AtomicU64, Ordering};
use std::sync::{Arc, Mutex};
use std::time::{Duration, Instant};
use vcommon::model::mbap_frame;
use vcommon::report::*;
use vcommon::rng::Rng;

#[derive(Copy, Clone, Debug, PartialEq, Eq, Hash)]
enum Ty {
    Coil,
    Discrete,
    Holding,
    Input,
}
const TYPES: [Ty; 4] = [Ty::Coil, Ty::Discrete, Ty::Holding, Ty::Input];

#[derive(Copy, Clone, Debug)]
enum Op {
    Add(Ty, u16, u16),
    Update(Ty, u16, u16),
    Delete(Ty, u16),
    Get(Ty, u16),
}

/// reference: one HashMap per type
#[derive(Default, Clone)]
struct Model {
    m: HashMap<(u8, u16), u16>,
}
fn tk(t: Ty) -> u8 {
    t as u8
}
impl Model {
    /// returns (bool result, get value)
    fn apply(&mut self, op: Op) -> (bool, Option<u16>) {
        match op {
            Op::Add(t, i, v) => {
                if self.m.contains_key(&(tk(t), i)) {
                    (false, None)
                } else {
                    self.m.insert((tk(t), i), v);
                    (true, None)
                }
            }
            Op::Update(t, i, v) => {
                if let Some(x) = self.m.get_mut(&(tk(t), i)) {
                    *x = v;
                    (true, None)
                } else {
                    (false, None)
                }
            }
            Op::Delete(t, i) => (self.m.remove(&(tk(t), i)).is_some(), None),
            Op::Get(t, i) => match self.m.get(&(tk(t), i)) {
                Some(v) => (true, Some(*v)),
                None => (false, None),
            },
        }
    }
}

/// perform one op through the C ABI; returns (bool result, get value)
unsafe fn do_op(db: *mut rodbus_ffi::Database, op: Op) -> (bool, Option<u16>) {
    match op {
        Op::Add(Ty::Coil, i, v) => (ffi::rodbus_database_add_coil(db, i, v & 1 == 1), None),
        Op::Add(Ty::Discrete, i, v) => (ffi::rodbus_database_add_discrete_input(db, i, v & 1 == 1), None),
        Op::Add(Ty::Holding, i, v) => (ffi::rodbus_database_add_holding_register(db, i, v), None),
        Op::Add(Ty::Input, i, v) => (ffi::rodbus_database_add_input_register(db, i, v), None),
        Op::Update(Ty::Coil, i, v) => (ffi::rodbus_database_update_coil(db, i, v & 1 == 1), None),
        Op::Update(Ty::Discrete, i, v) => (ffi::rodbus_database_update_discrete_input(db, i, v & 1 == 1), None),
        Op::Update(Ty::Holding, i, v) => (ffi::rodbus_database_update_holding_register(db, i, v), None),
        Op::Update(Ty::Input, i, v) => (ffi::rodbus_database_update_input_register(db, i, v), None),
        Op::Delete(Ty::Coil, i) => (ffi::rodbus_database_delete_coil(db, i), None),
        Op::Delete(Ty::Discrete, i) => (ffi::rodbus_database_delete_discrete_input(db, i), None),
        Op::Delete(Ty::Holding, i) => (ffi::rodbus_database_delete_holding_register(db, i), None),
        Op::Delete(Ty::Input, i) => (ffi::rodbus_database_delete_input_register(db, i), None),
        Op::Get(Ty::Coil, i) => {
            let mut out = false;
            let rc = ffi::rodbus_database_get_coil(db, i, &mut out);
            (rc == 0, if rc == 0 { Some(out as u16) } else { None })
        }
        Op::Get(Ty::Discrete, i) => {
            let mut out = false;
            let rc = ffi::rodbus_database_get_discrete_input(db, i, &mut out);
            (rc == 0, if rc == 0 { Some(out as u16) } else { None })
        }
        Op::Get(Ty::Holding, i) => {
            let mut out = 0u16;
            let rc = ffi::rodbus_database_get_holding_register(db, i, &mut out);
            (rc == 0, if rc == 0 { Some(out) } else { None })
        }
        Op::Get(Ty::Input, i) => {
            let mut out = 0u16;
            let rc = ffi::rodbus_database_get_input_register(db, i, &mut out);
            (rc == 0, if rc == 0 { Some(out) } else { None })
        }
    }
}

fn gen_op(rng: &mut Rng) -> Op {
    let t = *rng.pick(&TYPES);
    // six neighbouring indices (so that reads span present and absent points) and the two ends of
    // the index space
    let i = *rng.pick(&[0u16, 1, 2, 3, 4, 5, 0, 1, 2, 3, 4, 5, 65534, 65535]);
    let v = rng.u16();
    match rng.below(4) {
        0 => Op::Add(t, i, v),
        1 => Op::Update(t, i, v),
        2 => Op::Delete(t, i),
        _ => Op::Get(t, i),
    }
}

fn norm(t: Ty, v: u16) -> u16 {
    match t {
        Ty::Coil | Ty::Discrete => v & 1,
        _ => v,
    }
}

pub fn read_pdu(s: &mut TcpStream, tx: u16, unit: u8, fc: u8, start: u16, count: u16) -> Option<Vec<u8>> {
    let mut pdu = vec![fc];
    pdu.extend_from_slice(&start.to_be_bytes());
    pdu.extend_from_slice(&count.to_be_bytes());
    s.write_all(&mbap_frame(tx, unit, &pdu)).ok()?;
    let mut hdr = [0u8; 7];
    s.read_exact(&mut hdr).ok()?;
    let len = (((hdr[4] as usize) << 8) | hdr[5] as usize).checked_sub(1)?;
    let mut body = vec![0u8; len];
    s.read_exact(&mut body).ok()?;
    if hdr[0] != (tx >> 8) as u8 || hdr[1] != tx as u8 {
        return None;
    }
    Some(body)
}

pub struct Srv {
    pub server: *mut rodbus_ffi::Server,
    pub port: u16,
    pub wh: Arc<WhCtx>,
}
unsafe impl Send for Srv {}
unsafe impl Sync for Srv {}

static PORT: AtomicU64 = AtomicU64::new(0);
pub fn next_port() -> u16 {
    loop {
        let k = PORT.fetch_add(1, Ordering::SeqCst);
        let p = 31_000 + ((k + (std::process::id() as u64 % 89) * 17) % 1500) as u16;
        if std::net::TcpListener::bind(("127.0.0.1", p)).is_ok() {
            return p;
        }
    }
}

/// C-ABI TCP server with one endpoint (unit 1); `configure` runs inside the configure callback
pub fn start_server(rt: &Rt, configure: impl FnMut(*mut rodbus_ffi::Database) + Send + 'static, apply_writes: bool) -> Option<Srv> {
    unsafe {
        let map = ffi::rodbus_device_map_create();
        let (wh, handler) = write_handler(apply_writes);
        let (_dbc, cb) = db_callback_with(configure);
        if !ffi::rodbus_device_map_add_endpoint(map, 1, handler, cb) {
            return None;
        }
        let filter = ffi::rodbus_address_filter_any();
        let port = next_port();
        let mut server: *mut rodbus_ffi::Server = std::ptr::null_mut();
        let ip = cstr("127.0.0.1");
        let rc = ffi::rodbus_server_create_tcp(rt.0, ip.as_ptr(), port, filter, 100, map, decode(0, 0, 0), &mut server);
        ffi::rodbus_address_filter_destroy(filter);
        ffi::rodbus_device_map_destroy(map);
        if rc != 0 {
            return None;
        }
        Some(Srv { server, port, wh })
    }
}

/// (a) model comparison of add/update/delete/get + reads over the wire
fn sequential(rt: &Rt, seed: u64, n: u64, ev: &mut Evidence) {
    let mut rng = Rng::sub(seed, 119, n);
    let model = Arc::new(Mutex::new(Model::default()));
    let mismatches: Arc<Mutex<Vec<String>>> = Arc::new(Mutex::new(vec![]));
    let nops0 = 5 + rng.usize_below(40);
    let ops0: Vec<Op> = (0..nops0).map(|_| gen_op(&mut rng)).collect();
    let seen: Arc<Mutex<std::collections::BTreeSet<String>>> = Arc::new(Mutex::new(Default::default()));
    let seen2 = seen.clone();
    let (m2, mm2, ops2) = (model.clone(), mismatches.clone(), ops0.clone());
    let Some(srv) = start_server(
        rt,
        move |db| {
            let mut m = m2.lock().unwrap();
            for op in &ops2 {
                let want = m.apply(*op);
                let got = unsafe { do_op(db, *op) };
                let want = (want.0, want.1.map(|v| if let Op::Get(t, _) = op { norm(*t, v) } else { v }));
                seen2.lock().unwrap().insert(format!("op|{}|{}", format!("{op:?}").split(',').next().unwrap_or("").replace('(', "|"), got.0));
                if got != want {
                    mm2.lock().unwrap().push(format!("configure: {op:?} returned {got:?}, model says {want:?}"));
                }
            }
        },
        false,
    ) else {
        ev.inconclusive("cannot start C-ABI server");
        return;
    };
    ev.count("database_ops", nops0 as u64);
    let mut sock = TcpStream::connect(("127.0.0.1", srv.port)).ok();
    if let Some(s) = &sock {
        s.set_read_timeout(Some(Duration::from_secs(3))).ok();
        s.set_nodelay(true).ok();
    }
    let mut tx = 1u16;
    let rounds = 2 + rng.usize_below(5);
    for _ in 0..rounds {
        // a transaction
        let nops = 1 + rng.usize_below(30);
        let ops: Vec<Op> = (0..nops).map(|_| gen_op(&mut rng)).collect();
        let (m2, mm2, ops2) = (model.clone(), mismatches.clone(), ops.clone());
        let seen2 = seen.clone();
        let (dbc, cb) = db_callback_with(move |db| {
            let mut m = m2.lock().unwrap();
            for op in &ops2 {
                let want = m.apply(*op);
                let got = unsafe { do_op(db, *op) };
                let want = (want.0, want.1.map(|v| if let Op::Get(t, _) = op { norm(*t, v) } else { v }));
                seen2.lock().unwrap().insert(format!("op|{}|{}", format!("{op:?}").split(',').next().unwrap_or("").replace('(', "|"), got.0));
                if got != want {
                    mm2.lock().unwrap().push(format!("transaction: {op:?} returned {got:?}, model says {want:?}"));
                }
            }
        });
        let rc = unsafe { ffi::rodbus_server_update_database(srv.server, 1, cb) };
        ev.count("database_ops", nops as u64);
        ev.count("transactions", 1);
        if rc != 0 || dbc.calls.load(Ordering::SeqCst) != 1 {
            mismatches.lock().unwrap().push(format!("update_database rc={rc} callback calls={}", dbc.calls.load(Ordering::SeqCst)));
        }
        if dbc.destroys.load(Ordering::SeqCst) != 1 {
            mismatches.lock().unwrap().push(format!("transaction callback destroyed {} times", dbc.destroys.load(Ordering::SeqCst)));
        }
        // reads over the wire: every type, windows over the index set
        if let Some(s) = sock.as_mut() {
            for (t, fc) in [(Ty::Coil, 1u8), (Ty::Discrete, 2), (Ty::Holding, 3), (Ty::Input, 4)] {
                let (start, count) = if rng.chance(1, 6) { *rng.pick(&[(65534u16, 2u16), (65535, 1), (65534, 1)]) } else { (rng.below(6) as u16, 1 + rng.below(3) as u16) };
                tx = tx.wrapping_add(1);
                let Some(pdu) = read_pdu(s, tx, 1, fc, start, count) else {
                    mismatches.lock().unwrap().push("no reply to a read".into());
                    sock = None;
                    break;
                };
                ev.count("wire_reads", 1);
                let m = model.lock().unwrap();
                let vals: Vec<Option<u16>> = (0..count).map(|k| m.m.get(&(tk(t), start + k)).copied()).collect();
                if vals.iter().any(|v| v.is_none()) {
                    ev.count("reads_touching_absent_points", 1);
                    if pdu != vec![fc | 0x80, 0x02] {
                        mismatches.lock().unwrap().push(format!("read {t:?} {start}+{count} touches an absent point: expected exception 02, got {}", hex(&pdu)));
                    }
                } else {
                    let want: Vec<u8> = match t {
                        Ty::Coil | Ty::Discrete => {
                            let mut b = 0u8;
                            for (k, v) in vals.iter().enumerate() {
                                if v.unwrap() & 1 == 1 {
                                    b |= 1 << k;
                                }
                            }
                            vec![fc, 1, b]
                        }
                        _ => {
                            let mut p = vec![fc, (2 * count) as u8];
                            for v in &vals {
                                p.extend_from_slice(&v.unwrap().to_be_bytes());
                            }
                            p
                        }
                    };
                    if pdu != want {
                        mismatches.lock().unwrap().push(format!("read {t:?} {start}+{count}: got {}, database holds {}", hex(&pdu), hex(&want)));
                    }
                }
            }
        }
    }
    unsafe { ffi::rodbus_server_destroy(srv.server) };
    ev.eval();
    ev.class("sequential|model_comparison");
    for c in seen.lock().unwrap().iter() {
        ev.class(c.clone());
    }
    for m in mismatches.lock().unwrap().iter() {
        let kind = m.split(':').next().unwrap_or("?").to_string();
        let opk = m.split_whitespace().nth(1).map(|s| s.split('(').next().unwrap_or("").to_string()).unwrap_or_default();
        ev.violation(format!("database:{kind}:{opk}"), m.clone(), json!({"n": n, "kind": "sequential"}));
    }
    if n < 2 {
        ev.sample(json!({"configure_ops": ops0.iter().take(6).map(|o| format!("{o:?}")).collect::<Vec<_>>(), "transactions": rounds}));
    }
}

/// (b) atomicity: writers set N registers to one common value per transaction (yielding
/// between individual updates), readers read all N in one request
fn stress(rt: &Rt, args: &Args, ev: &mut Evidence, kind: usize) {
    // kind 0: holding registers (FC3), 1: coils (FC1, bit-packed reply), 2: discrete inputs (FC2), 3: input registers (FC4)
    const N: u16 = 50;
    let fc = [3u8, 1, 2, 4][kind];
    let kind_name = ["holding_registers", "coils", "discrete_inputs", "input_registers"][kind];
    let Some(srv) = start_server(
        rt,
        move |db| {
            for i in 0..N {
                unsafe {
                    match kind {
                        0 => ffi::rodbus_database_add_holding_register(db, i, 0),
                        1 => ffi::rodbus_database_add_coil(db, i, false),
                        2 => ffi::rodbus_database_add_discrete_input(db, i, false),
                        _ => ffi::rodbus_database_add_input_register(db, i, 0),
                    }
                };
            }
        },
        false,
    ) else {
        ev.inconclusive("cannot start C-ABI server for the stress run");
        return;
    };
    let srv = Arc::new(srv);
    let stop = Arc::new(AtomicBool::new(false));
    let value = Arc::new(AtomicU64::new(1));
    // open transaction intervals are tracked with a counter
    let open = Arc::new(AtomicU64::new(0));
    let txns = Arc::new(AtomicU64::new(0));
    let writers: Vec<_> = (0..3)
        .map(|_| {
            let (srv, stop, value, open, txns) = (srv.clone(), stop.clone(), value.clone(), open.clone(), txns.clone());
            std::thread::spawn(move || {
                while !stop.load(Ordering::SeqCst) {
                    let v = (value.fetch_add(1, Ordering::SeqCst) % 60000) as u16 + 1;
                    let open2 = open.clone();
                    let (_c, cb) = db_callback_with(move |db| {
                        open2.fetch_add(1, Ordering::SeqCst);
                        for i in 0..N {
                            unsafe {
                                match kind {
                                    0 => ffi::rodbus_database_update_holding_register(db, i, v),
                                    1 => ffi::rodbus_database_update_coil(db, i, v % 2 == 1),
                                    2 => ffi::rodbus_database_update_discrete_input(db, i, v % 2 == 1),
                                    _ => ffi::rodbus_database_update_input_register(db, i, v),
                                }
                            };
                            // user code inside the transaction: a legitimate suspension point
                            if i % 8 == 0 {
                                std::thread::yield_now();
                            }
                            if i == N / 2 {
                                std::thread::sleep(Duration::from_micros(30));
                            }
                        }
                        open2.fetch_sub(1, Ordering::SeqCst);
                    });
                    unsafe { ffi::rodbus_server_update_database(srv.server, 1, cb) };
                    txns.fetch_add(1, Ordering::SeqCst);
                    // leave room for the readers: the handler mutex is not fair
                    std::thread::sleep(Duration::from_micros(120));
                }
            })
        })
        .collect();
    let reads_goal = if kind == 0 { args.tier.pick(40_000u64, 1_000_000) } else { args.tier.pick(8_000u64, 200_000) };
    let reads = Arc::new(AtomicU64::new(0));
    let overlaps = Arc::new(AtomicU64::new(0));
    let torn: Arc<Mutex<Vec<String>>> = Arc::new(Mutex::new(vec![]));
    let backwards = Arc::new(AtomicU64::new(0));
    let t0 = Instant::now();
    let limit = Duration::from_secs(if kind == 0 { args.tier.pick(60, 900) } else { args.tier.pick(20, 240) });
    let readers: Vec<_> = (0..6)
        .map(|r| {
            let (srv, reads, overlaps, torn, open) = (srv.clone(), reads.clone(), overlaps.clone(), torn.clone(), open.clone());
            let backwards = backwards.clone();
            std::thread::spawn(move || {
                let Ok(mut s) = TcpStream::connect(("127.0.0.1", srv.port)) else { return };
                s.set_read_timeout(Some(Duration::from_secs(5))).ok();
                s.set_nodelay(true).ok();
                let mut tx = (r as u16) << 12;
                while (reads.load(Ordering::SeqCst) < reads_goal || overlaps.load(Ordering::SeqCst) < reads_goal / 10) && t0.elapsed() < limit {
                    tx = tx.wrapping_add(1);
                    let before = open.load(Ordering::SeqCst);
                    let Some(pdu) = read_pdu(&mut s, tx, 1, fc, 0, N) else { break };
                    let after = open.load(Ordering::SeqCst);
                    if before > 0 || after > 0 {
                        overlaps.fetch_add(1, Ordering::SeqCst);
                    }
                    reads.fetch_add(1, Ordering::SeqCst);
                    let bits = fc == 1 || fc == 2;
                    let want_len = if bits { 2 + (N as usize + 7) / 8 } else { 2 + 2 * N as usize };
                    if pdu.len() != want_len || pdu[0] != fc {
                        torn.lock().unwrap().push(format!("unexpected reply {}", hex(&pdu[..pdu.len().min(8)])));
                        break;
                    }
                    let vals: Vec<u16> = if bits { (0..N as usize).map(|i| ((pdu[2 + i / 8] >> (i % 8)) & 1) as u16).collect() } else { pdu[2..].chunks(2).map(|c| ((c[0] as u16) << 8) | c[1] as u16).collect() };
                    if vals.iter().any(|v| *v != vals[0]) {
                        let mut d: Vec<u16> = vals.clone();
                        d.dedup();
                        let mut g = torn.lock().unwrap();
                        if g.len() < 5 {
                            g.push(format!("one read returned points from different transactions: {:?}", &d[..d.len().min(6)]));
                        }
                    }
                    let _ = &backwards;
                }
            })
        })
        .collect();
    for r in readers {
        let _ = r.join();
    }
    stop.store(true, Ordering::SeqCst);
    for w in writers {
        let _ = w.join();
    }
    let srv = Arc::try_unwrap(srv).ok();
    if let Some(s) = srv {
        unsafe { ffi::rodbus_server_destroy(s.server) };
    }
    ev.eval();
    ev.count("stress_reads", reads.load(Ordering::SeqCst));
    ev.count("stress_transactions", txns.load(Ordering::SeqCst));
    ev.count("reads_overlapping_an_open_transaction", overlaps.load(Ordering::SeqCst));
    ev.count(&format!("stress_reads_{kind_name}"), reads.load(Ordering::SeqCst));
    ev.class(format!("stress|atomicity|3_writers_6_readers|{kind_name}"));
    for t in torn.lock().unwrap().iter() {
        ev.violation("transaction_not_atomic:torn_read", t.clone(), json!({"kind": "stress"}));
    }
    ev.sample(json!({"stress": {"point_type": kind_name, "points": N, "writers": 3, "readers": 6, "reads": reads.load(Ordering::SeqCst), "transactions": txns.load(Ordering::SeqCst), "reads_overlapping_open_transaction": overlaps.load(Ordering::SeqCst)}}));
}

pub fn run(args: &Args) -> i32 {
    let started = Instant::now();
    let rt = runtime(4);
    let mut ev = Evidence::new();
    let seqs = args.tier.pick(600u64, 5000);
    for n in 0..seqs {
        sequential(&rt, args.seed, n, &mut ev);
    }
    for kind in 0..4 {
        stress(&rt, args, &mut ev, kind);
    }
    unsafe { ffi::rodbus_runtime_destroy(rt.0) };
    if args.tier == Tier::Thorough && !args.extra.contains_key("no-legs") {
        crate::legs::miri_ffi(args, "C19", &mut ev);
        crate::legs::asan(args, "c19", "C19", &mut ev);
    }
    let meta = Meta {
        property_id: "C19",
        level: "exploration",
        rule: "(a) one evaluation = one C-ABI server whose database is driven by random sequences (5-45 ops in the configure callback, then 2-6 transactions of 1-30 ops) of add/update/delete/get over the four point types and indices 0..5 through rodbus_database_* inside rodbus_device_map_add_endpoint / rodbus_server_update_database callbacks; every return value is compared with a HashMap model and after each transaction raw-socket reads of every type are compared with the model (exception 02 when any point is absent). (b) stress: 3 OS threads run transactions that set 50 holding registers to one fresh common value, yielding/sleeping between individual updates inside the callback, while 6 raw TCP clients read all 50 in one request; a read returning unequal values is a torn read; reads that overlapped an open transaction are counted. distinct = phases".into(),
        assumptions: vec![
            "overlap of a read with an open transaction is measured by a counter sampled before and after the read (an under-estimate)".into(),
        ],
        exhaustive: None,
        floors: vec![
            ("database_ops".into(), args.tier.pick(20_000, 200_000)),
            ("wire_reads".into(), args.tier.pick(6_000, 50_000)),
            ("reads_touching_absent_points".into(), args.tier.pick(1_200, 10_000)),
            ("stress_reads".into(), args.tier.pick(30_000, 500_000)),
            ("reads_overlapping_an_open_transaction".into(), args.tier.pick(1_500, 20_000)),
        ],
        min_classes: 30,
    };
    finish(args, meta, ev, started)
}
