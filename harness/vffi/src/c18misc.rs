//! C18: the remaining entry points of the C ABI - disabling a channel, changing the decode level
//! of a running channel / server, the RTU server constructor, the runtime's shutdown timeout.

use crate::c18::{CChannel, Mode, Peer};
use crate::c19::next_port;
use crate::util::*;
use rodbus_ffi::ffi;
use serde_json::json;
use std::io::{Read, Write};
use std::sync::atomic::Ordering;
use std::time::{Duration, Instant};
use vcommon::model::*;
use vcommon::report::*;

fn kinds(lines: &[String]) -> Vec<String> {
    let mut v = vec![];
    for l in lines {
        for tag in ["PDU TX", "PDU RX", "MBAP TX", "MBAP RX", "PHYS TX", "PHYS RX"] {
            if let Some(p) = l.find(tag) {
                v.push(l[p..].to_string());
            }
        }
    }
    v.sort();
    v
}

/// `rodbus_client_channel_disable`: Disabled is reported, the connection is closed, requests fail
/// with no-connection, and enable brings the channel back
fn disable(rt: &Rt, ev: &mut Evidence) {
    let peer = Peer::start();
    for _ in 0..8 {
        peer.push(Mode::Genuine);
    }
    let ch = CChannel::tcp(rt, peer.port, 4, decode(0, 0, 0));
    ch.enable();
    ev.eval();
    if !ch.wait_state(2, Duration::from_secs(5)) {
        ev.inconclusive("C-ABI channel did not connect (disable cell)");
        ch.destroy();
        return;
    }
    let req = ClientReq::Read { kind: Kind::ReadHolding, start: 1, count: 2 };
    let (_rc, c) = ch.op(&req, 1, 1000);
    c.wait(Duration::from_secs(2));
    let rc = unsafe { ffi::rodbus_client_channel_disable(ch.ch) };
    let t0 = Instant::now();
    while t0.elapsed() < Duration::from_secs(3) && ch.states.seq.lock().unwrap().iter().filter(|s| **s == 0).count() < 2 {
        std::thread::sleep(Duration::from_millis(2));
    }
    let seq: Vec<&str> = ch.states.seq.lock().unwrap().iter().map(|s| client_state_name(*s)).collect();
    ev.class(format!("client|disable|{}", seq.join(">")));
    if rc != 0 || seq != ["disabled", "connecting", "connected", "disabled"] {
        ev.violation("client:disable:states".to_string(), format!("rodbus_client_channel_disable returned {rc}; the C listener saw {seq:?}, expected disabled, connecting, connected, disabled"), json!({}));
    }
    let (rc2, c2) = ch.op(&req, 1, 500);
    c2.wait(Duration::from_secs(2));
    let name = match c2.outcome() {
        Outcome::Err(e) => request_error_name(e).to_string(),
        Outcome::Ok => "ok".into(),
        Outcome::Pending => "pending".into(),
    };
    if rc2 != 0 || name != "no_connection" {
        ev.violation(format!("client:disable:request_reported_{name}"), format!("a request on a disabled channel: call returned {rc2}, callback reported {name}"), json!({}));
    }
    ch.enable();
    let t0 = Instant::now();
    while t0.elapsed() < Duration::from_secs(3) && ch.states.seq.lock().unwrap().iter().filter(|s| **s == 2).count() < 2 {
        std::thread::sleep(Duration::from_millis(2));
    }
    let (_rc3, c3) = ch.op(&req, 1, 1000);
    c3.wait(Duration::from_secs(2));
    if !matches!(c3.outcome(), Outcome::Ok) {
        ev.violation("client:disable:not_usable_after_enable".to_string(), format!("after disable + enable a request completed with {:?}", c3.outcome()), json!({}));
    } else {
        ev.count("disable_enable_cycles_checked", 1);
    }
    ch.destroy();
}

/// A level set on a running channel / server logs what a channel / server created at that level logs
fn runtime_levels(rt: &Rt, log: &LogCtx, ev: &mut Evidence) {
    let req = ClientReq::Read { kind: Kind::ReadHolding, start: 7, count: 3 };
    for level in 0..36i32 {
        let (a, f, p) = (level % 4, (level / 4) % 3, level / 12);
        // ---- client: created at the level / created silent and changed
        let mut runs = vec![];
        for changed in [false, true] {
            let peer = Peer::start();
            log.lines.lock().unwrap().clear();
            let ch = CChannel::tcp(rt, peer.port, 4, if changed { decode(0, 0, 0) } else { decode(a, f, p) });
            ch.enable();
            ch.wait_state(2, Duration::from_secs(5));
            if changed {
                let rc = unsafe { ffi::rodbus_client_channel_set_decode_level(ch.ch, decode(a, f, p)) };
                if rc != 0 {
                    ev.violation(format!("decode_level:client_set:rc={rc}"), format!("rodbus_client_channel_set_decode_level returned {rc}"), json!({}));
                }
                std::thread::sleep(Duration::from_millis(20));
            }
            let (_rc, c) = ch.op(&req, 1, 2000);
            c.wait(Duration::from_secs(3));
            ch.destroy();
            std::thread::sleep(Duration::from_millis(20));
            runs.push(kinds(&log.lines.lock().unwrap()));
        }
        ev.eval();
        ev.count("runtime_level_changes_compared", 1);
        ev.class(format!("decode_level|client_set|app{a}|frame{f}|phys{p}"));
        if runs[0] != runs[1] {
            ev.violation(
                format!("decode_level:client_set:app{a}_frame{f}_phys{p}:messages_differ"),
                format!("client level app={a} frame={f} phys={p}: a channel created at that level logged {} protocol messages, a channel switched to it at run time {}", runs[0].len(), runs[1].len()),
                json!({"created": runs[0], "changed": runs[1]}),
            );
        }
        // ---- server
        let mut runs = vec![];
        for changed in [false, true] {
            log.lines.lock().unwrap().clear();
            let port = next_port();
            let server = unsafe {
                let map = ffi::rodbus_device_map_create();
                let (_wh, handler) = write_handler(false);
                let (_c, cb) = db_callback_with(|db| {
                    for i in 0..16u16 {
                        ffi::rodbus_database_add_holding_register(db, i, 0x1000 + i);
                    }
                });
                ffi::rodbus_device_map_add_endpoint(map, 1, handler, cb);
                let filter = ffi::rodbus_address_filter_any();
                let ip = cstr("127.0.0.1");
                let mut server = std::ptr::null_mut();
                let rc = ffi::rodbus_server_create_tcp(rt.0, ip.as_ptr(), port, filter, 4, map, if changed { decode(0, 0, 0) } else { decode(a, f, p) }, &mut server);
                ffi::rodbus_address_filter_destroy(filter);
                ffi::rodbus_device_map_destroy(map);
                if rc != 0 {
                    ev.inconclusive(format!("rodbus_server_create_tcp returned {rc} (run-time level cells)"));
                    continue;
                }
                server
            };
            // the level reaches sessions that exist when it is set as well as later ones: connect first
            let mut s = None;
            for _ in 0..100 {
                if let Ok(x) = std::net::TcpStream::connect(("127.0.0.1", port)) {
                    s = Some(x);
                    break;
                }
                std::thread::sleep(Duration::from_millis(5));
            }
            let Some(mut s) = s else {
                ev.inconclusive("cannot connect to the C-ABI server (run-time level cells)");
                unsafe { ffi::rodbus_server_destroy(server) };
                continue;
            };
            std::thread::sleep(Duration::from_millis(30));
            if changed {
                let rc = unsafe { ffi::rodbus_server_set_decode_level(server, decode(a, f, p)) };
                if rc != 0 {
                    ev.violation(format!("decode_level:server_set:rc={rc}"), format!("rodbus_server_set_decode_level returned {rc}"), json!({}));
                }
                std::thread::sleep(Duration::from_millis(30));
            }
            let _ = s.set_read_timeout(Some(Duration::from_secs(2)));
            let _ = s.write_all(&mbap_frame(0x4242, 1, &[3, 0, 2, 0, 3]));
            let mut buf = [0u8; 64];
            let n = s.read(&mut buf).unwrap_or(0);
            if n != 15 {
                ev.violation("decode_level:server:no_reply".to_string(), format!("server at level app={a} frame={f} phys={p} (changed={changed}) answered {n} bytes"), json!({}));
            }
            drop(s);
            std::thread::sleep(Duration::from_millis(20));
            unsafe { ffi::rodbus_server_destroy(server) };
            std::thread::sleep(Duration::from_millis(20));
            runs.push(kinds(&log.lines.lock().unwrap()));
        }
        if runs.len() == 2 {
            ev.eval();
            ev.count("runtime_level_changes_compared", 1);
            ev.class(format!("decode_level|server_set|app{a}|frame{f}|phys{p}"));
            let has = |t: &str| runs[1].iter().any(|l| l.starts_with(t));
            if runs[0] != runs[1] {
                ev.violation(
                    format!("decode_level:server_set:app{a}_frame{f}_phys{p}:messages_differ"),
                    format!("server level app={a} frame={f} phys={p}: a server created at that level logged {} protocol messages, a server switched to it at run time {}", runs[0].len(), runs[1].len()),
                    json!({"created": runs[0], "changed": runs[1]}),
                );
            } else if (a > 0) != has("PDU") || (f > 0) != has("MBAP") || (p > 0) != has("PHYS") {
                ev.violation(
                    format!("decode_level:server_set:app{a}_frame{f}_phys{p}:wrong_layers_logged"),
                    format!("server level app={a} frame={f} phys={p} logged layers PDU={} MBAP={} PHYS={}", has("PDU"), has("MBAP"), has("PHYS")),
                    json!({"changed": runs[1]}),
                );
            }
        }
    }
}

/// `rodbus_server_create_rtu` on a pseudo terminal: reads from the database, forwards writes to the
/// C write handler, answers with a correct CRC, stays silent for other units
fn rtu_server(rt: &Rt, ev: &mut Evidence) {
    unsafe {
        let m = libc::posix_openpt(libc::O_RDWR | libc::O_NOCTTY);
        if m < 0 || libc::grantpt(m) != 0 || libc::unlockpt(m) != 0 {
            ev.count("pty_unavailable", 1);
            return;
        }
        let mut buf = [0 as libc::c_char; 128];
        libc::ptsname_r(m, buf.as_mut_ptr(), buf.len());
        let path = std::ffi::CStr::from_ptr(buf.as_ptr()).to_owned();
        let mut t: libc::termios = std::mem::zeroed();
        if libc::tcgetattr(m, &mut t) == 0 {
            libc::cfmakeraw(&mut t);
            libc::tcsetattr(m, libc::TCSANOW, &t);
        }
        let fl = libc::fcntl(m, libc::F_GETFL);
        libc::fcntl(m, libc::F_SETFL, fl | libc::O_NONBLOCK);
        let map = ffi::rodbus_device_map_create();
        let (wh, handler) = write_handler(true);
        let (_c, cb) = db_callback_with(|db| {
            for i in 0..16u16 {
                ffi::rodbus_database_add_holding_register(db, i, 0x2000 + i);
            }
        });
        ffi::rodbus_device_map_add_endpoint(map, 7, handler, cb);
        let settings = ffi::SerialPortSettings { baud_rate: 115200, data_bits: 3, flow_control: 0, parity: 0, stop_bits: 0 };
        let mut server = std::ptr::null_mut();
        let rc = ffi::rodbus_server_create_rtu(rt.0, path.as_ptr(), settings, retry(20, 40), map, decode(0, 0, 0), &mut server);
        ffi::rodbus_device_map_destroy(map);
        ev.eval();
        if rc != 0 {
            ev.violation(format!("rtu_server:create:rc={rc}"), format!("rodbus_server_create_rtu on a pty returned {rc}"), json!({}));
            libc::close(m);
            return;
        }
        std::thread::sleep(Duration::from_millis(150));
        let exchange = |frame: &[u8], wait_ms: u64| -> Vec<u8> {
            libc::write(m, frame.as_ptr() as *const libc::c_void, frame.len());
            let t0 = Instant::now();
            let mut out = vec![];
            let mut last = Instant::now();
            while t0.elapsed() < Duration::from_millis(wait_ms) {
                let mut b = [0u8; 256];
                let n = libc::read(m, b.as_mut_ptr() as *mut libc::c_void, b.len());
                if n > 0 {
                    out.extend_from_slice(&b[..n as usize]);
                    last = Instant::now();
                } else {
                    if !out.is_empty() && last.elapsed() > Duration::from_millis(30) {
                        break;
                    }
                    std::thread::sleep(Duration::from_millis(1));
                }
            }
            out
        };
        // read of registers 2..4 from the database
        let got = exchange(&rtu_frame(7, &[3, 0, 2, 0, 3]), 800);
        let want = rtu_frame(7, &[3, 6, 0x20, 0x02, 0x20, 0x03, 0x20, 0x04]);
        ev.class("server|rtu|read_holding_registers");
        if got != want {
            ev.violation("rtu_server:read_reply".to_string(), format!("C-ABI RTU server answered {} expected {}", hex(&got), hex(&want)), json!({}));
        } else {
            ev.count("rtu_server_replies_checked", 1);
        }
        // write single register goes to the C write handler and is applied
        let got = exchange(&rtu_frame(7, &[6, 0, 5, 0xAB, 0xCD]), 800);
        let want = rtu_frame(7, &[6, 0, 5, 0xAB, 0xCD]);
        let calls = wh.calls.lock().unwrap().clone();
        ev.class("server|rtu|write_single_register");
        if got != want || calls != vec![Written::Reg(5, 0xABCD)] {
            ev.violation("rtu_server:write".to_string(), format!("write single register through the C-ABI RTU server: reply {}, write handler calls {calls:?}", hex(&got)), json!({}));
        } else {
            ev.count("rtu_server_replies_checked", 1);
        }
        let got = exchange(&rtu_frame(7, &[3, 0, 5, 0, 1]), 800);
        if got != rtu_frame(7, &[3, 2, 0xAB, 0xCD]) {
            ev.violation("rtu_server:read_after_write".to_string(), format!("read after write answered {}", hex(&got)), json!({}));
        } else {
            ev.count("rtu_server_replies_checked", 1);
        }
        // another unit: silence
        let got = exchange(&rtu_frame(9, &[3, 0, 2, 0, 1]), 200);
        ev.class("server|rtu|other_unit");
        if !got.is_empty() {
            ev.violation("rtu_server:answered_other_unit".to_string(), format!("a frame for unit 9 was answered with {}", hex(&got)), json!({}));
        }
        ffi::rodbus_server_destroy(server);
        std::thread::sleep(Duration::from_millis(50));
        if wh.destroys.load(Ordering::SeqCst) != 1 {
            ev.violation(format!("rtu_server:write_handler_on_destroy={}", wh.destroys.load(Ordering::SeqCst)), "write handler destroy count after rodbus_server_destroy".to_string(), json!({}));
        }
        libc::close(m);
    }
}

/// `rodbus_runtime_set_shutdown_timeout`: destroying a runtime with a channel task still alive does
/// not take longer than the timeout that was set (plus scheduling slack)
fn shutdown_timeout(ev: &mut Evidence) {
    let rt = runtime(2);
    unsafe { ffi::rodbus_runtime_set_shutdown_timeout(rt.0, 1) };
    let peer = Peer::start();
    peer.push(Mode::Silence);
    let ch = CChannel::tcp(&rt, peer.port, 4, decode(0, 0, 0));
    ch.enable();
    ch.wait_state(2, Duration::from_secs(5));
    let req = ClientReq::Read { kind: Kind::ReadHolding, start: 1, count: 1 };
    let (_rc, c) = ch.op(&req, 1, 30_000);
    let t0 = Instant::now();
    unsafe { ffi::rodbus_runtime_destroy(rt.0) };
    let took = t0.elapsed();
    c.wait(Duration::from_secs(3));
    ev.eval();
    ev.class("runtime|shutdown_timeout");
    ev.count("runtime_shutdown_timeouts_checked", 1);
    if took > Duration::from_secs(6) {
        ev.violation("runtime:shutdown_timeout_not_applied".to_string(), format!("runtime with a shutdown timeout of 1 s took {took:?} to be destroyed"), json!({}));
    }
    if !matches!(c.outcome(), Outcome::Err(_)) || c.completions() != 1 {
        ev.violation("runtime:pending_request_not_failed_on_destroy".to_string(), format!("request pending when the runtime was destroyed: outcome {:?}, completions {}", c.outcome(), c.completions()), json!({}));
    }
    // the channel object outlives its runtime: release it
    unsafe { ffi::rodbus_client_channel_destroy(ch.ch) };
}

pub fn run(rt: &Rt, log: Option<&LogCtx>, ev: &mut Evidence) {
    disable(rt, ev);
    if let Some(log) = log {
        runtime_levels(rt, log, ev);
    }
    rtu_server(rt, ev);
    shutdown_timeout(ev);
}
