//! Shared plumbing for driving the extern "C" surface of rodbus-ffi exactly as a C program
//! would: callback structs with `extern "C"` functions and `void*` contexts.

use rodbus_ffi::ffi;
use std::os::raw::{c_char, c_int, c_void};
use std::sync::atomic::{AtomicI32, AtomicU32, Ordering};
use std::sync::{Arc, Condvar, Mutex};
use std::time::{Duration, Instant};

/// Keeps every callback context alive for the whole process: contexts are handed to the
/// library as raw pointers and never freed by `on_destroy` (a double destroy must be countable,
/// not a crash of the monitor).
static REGISTRY: Mutex<Vec<Arc<dyn std::any::Any + Send + Sync>>> = Mutex::new(Vec::new());

pub fn keep<T: std::any::Any + Send + Sync>(x: Arc<T>) -> *mut c_void {
    let p = Arc::as_ptr(&x) as *mut c_void;
    REGISTRY.lock().unwrap().push(x);
    p
}

#[derive(Default)]
pub struct Cb {
    pub completes: AtomicU32,
    pub failures: AtomicU32,
    pub destroys: AtomicU32,
    pub last_error: AtomicI32,
    pub bits: Mutex<Vec<(u16, bool)>>,
    pub regs: Mutex<Vec<(u16, u16)>>,
    pub done_at: Mutex<Option<Instant>>,
    pub cv: Condvar,
}

impl Cb {
    pub fn new() -> (Arc<Cb>, *mut c_void) {
        let c = Arc::new(Cb::default());
        c.last_error.store(-1, Ordering::SeqCst);
        let p = keep(c.clone());
        (c, p)
    }
    fn finish(&self) {
        let mut g = self.done_at.lock().unwrap();
        if g.is_none() {
            *g = Some(Instant::now());
        }
        self.cv.notify_all();
    }
    pub fn completions(&self) -> u32 {
        self.completes.load(Ordering::SeqCst) + self.failures.load(Ordering::SeqCst)
    }
    /// wait until one completion callback fired
    pub fn wait(&self, limit: Duration) -> bool {
        let g = self.done_at.lock().unwrap();
        let (g, _) = self.cv.wait_timeout_while(g, limit, |d| d.is_none()).unwrap();
        g.is_some()
    }
    /// wait until on_destroy fired
    pub fn wait_destroyed(&self, limit: Duration) -> bool {
        let t0 = Instant::now();
        while t0.elapsed() < limit {
            if self.destroys.load(Ordering::SeqCst) > 0 {
                return true;
            }
            std::thread::sleep(Duration::from_millis(2));
        }
        false
    }
    /// "ok" or the error value reported
    pub fn outcome(&self) -> Outcome {
        if self.completes.load(Ordering::SeqCst) > 0 {
            Outcome::Ok
        } else if self.failures.load(Ordering::SeqCst) > 0 {
            Outcome::Err(self.last_error.load(Ordering::SeqCst))
        } else {
            Outcome::Pending
        }
    }
}

#[derive(Copy, Clone, Debug, PartialEq, Eq)]
pub enum Outcome {
    Ok,
    Err(i32),
    Pending,
}

unsafe fn cb<'a>(ctx: *mut c_void) -> &'a Cb {
    &*(ctx as *const Cb)
}

extern "C" fn on_failure(error: c_int, ctx: *mut c_void) {
    let c = unsafe { cb(ctx) };
    c.last_error.store(error, Ordering::SeqCst);
    c.failures.fetch_add(1, Ordering::SeqCst);
    c.finish();
}

extern "C" fn on_destroy(ctx: *mut c_void) {
    let c = unsafe { cb(ctx) };
    c.destroys.fetch_add(1, Ordering::SeqCst);
}

extern "C" fn write_on_complete(_nothing: c_int, ctx: *mut c_void) {
    let c = unsafe { cb(ctx) };
    c.completes.fetch_add(1, Ordering::SeqCst);
    c.finish();
}

extern "C" fn bits_on_complete(it: *mut rodbus_ffi::BitValueIterator, ctx: *mut c_void) {
    let c = unsafe { cb(ctx) };
    let mut v = vec![];
    loop {
        let p = unsafe { ffi::rodbus_bit_value_iterator_next(it) };
        if p.is_null() {
            break;
        }
        let x = unsafe { &*p };
        v.push((x.index, x.value));
    }
    *c.bits.lock().unwrap() = v;
    c.completes.fetch_add(1, Ordering::SeqCst);
    c.finish();
}

extern "C" fn regs_on_complete(it: *mut rodbus_ffi::RegisterValueIterator, ctx: *mut c_void) {
    let c = unsafe { cb(ctx) };
    let mut v = vec![];
    loop {
        let p = unsafe { ffi::rodbus_register_value_iterator_next(it) };
        if p.is_null() {
            break;
        }
        let x = unsafe { &*p };
        v.push((x.index, x.value));
    }
    *c.regs.lock().unwrap() = v;
    c.completes.fetch_add(1, Ordering::SeqCst);
    c.finish();
}

pub fn write_callback() -> (Arc<Cb>, ffi::WriteCallback) {
    let (c, p) = Cb::new();
    (
        c,
        ffi::WriteCallback {
            on_complete: Some(write_on_complete),
            on_failure: Some(on_failure),
            on_destroy: Some(on_destroy),
            ctx: p,
        },
    )
}

pub fn bit_callback() -> (Arc<Cb>, ffi::BitReadCallback) {
    let (c, p) = Cb::new();
    (
        c,
        ffi::BitReadCallback {
            on_complete: Some(bits_on_complete),
            on_failure: Some(on_failure),
            on_destroy: Some(on_destroy),
            ctx: p,
        },
    )
}

pub fn reg_callback() -> (Arc<Cb>, ffi::RegisterReadCallback) {
    let (c, p) = Cb::new();
    (
        c,
        ffi::RegisterReadCallback {
            on_complete: Some(regs_on_complete),
            on_failure: Some(on_failure),
            on_destroy: Some(on_destroy),
            ctx: p,
        },
    )
}

// ------------------------------------------------------------------------------------------
// state listeners
// ------------------------------------------------------------------------------------------

#[derive(Default)]
pub struct States {
    pub seq: Mutex<Vec<i32>>,
    pub at: Mutex<Vec<Instant>>,
    pub destroys: AtomicU32,
}

extern "C" fn state_on_change(state: c_int, ctx: *mut c_void) {
    let s = unsafe { &*(ctx as *const States) };
    s.seq.lock().unwrap().push(state);
    s.at.lock().unwrap().push(Instant::now());
}

extern "C" fn state_on_destroy(ctx: *mut c_void) {
    let s = unsafe { &*(ctx as *const States) };
    s.destroys.fetch_add(1, Ordering::SeqCst);
}

pub fn client_listener() -> (Arc<States>, ffi::ClientStateListener) {
    let s = Arc::new(States::default());
    let p = keep(s.clone());
    (
        s,
        ffi::ClientStateListener {
            on_change: Some(state_on_change),
            on_destroy: Some(state_on_destroy),
            ctx: p,
        },
    )
}

pub fn port_listener() -> (Arc<States>, ffi::PortStateListener) {
    let s = Arc::new(States::default());
    let p = keep(s.clone());
    (
        s,
        ffi::PortStateListener {
            on_change: Some(state_on_change),
            on_destroy: Some(state_on_destroy),
            ctx: p,
        },
    )
}

// ------------------------------------------------------------------------------------------
// database callbacks
// ------------------------------------------------------------------------------------------

pub struct DbCtx {
    pub f: Mutex<Box<dyn FnMut(*mut rodbus_ffi::Database) + Send>>,
    pub calls: AtomicU32,
    pub destroys: AtomicU32,
}

extern "C" fn db_callback(db: *mut rodbus_ffi::Database, ctx: *mut c_void) {
    let c = unsafe { &*(ctx as *const DbCtx) };
    c.calls.fetch_add(1, Ordering::SeqCst);
    (c.f.lock().unwrap())(db);
}

extern "C" fn db_on_destroy(ctx: *mut c_void) {
    let c = unsafe { &*(ctx as *const DbCtx) };
    c.destroys.fetch_add(1, Ordering::SeqCst);
}

pub fn db_callback_with(f: impl FnMut(*mut rodbus_ffi::Database) + Send + 'static) -> (Arc<DbCtx>, ffi::DatabaseCallback) {
    let c = Arc::new(DbCtx {
        f: Mutex::new(Box::new(f)),
        calls: AtomicU32::new(0),
        destroys: AtomicU32::new(0),
    });
    let p = keep(c.clone());
    (
        c,
        ffi::DatabaseCallback {
            callback: Some(db_callback),
            on_destroy: Some(db_on_destroy),
            ctx: p,
        },
    )
}

// ------------------------------------------------------------------------------------------
// write handler
// ------------------------------------------------------------------------------------------

#[derive(Clone, Debug, PartialEq)]
pub enum Written {
    Coil(u16, bool),
    Reg(u16, u16),
    Coils(u16, Vec<(u16, bool)>),
    Regs(u16, Vec<(u16, u16)>),
}

pub struct WhCtx {
    /// what every write callback answers: (success, exception enum value, raw)
    pub answer: Mutex<(bool, i32, u8)>,
    pub calls: Mutex<Vec<Written>>,
    pub destroys: AtomicU32,
    /// apply successful writes to the database like the C example does
    pub apply: bool,
}

fn answer(c: &WhCtx) -> ffi::WriteResult {
    let a = *c.answer.lock().unwrap();
    ffi::WriteResult {
        success: a.0,
        exception: a.1,
        raw_exception: a.2,
    }
}

extern "C" fn wh_single_coil(index: u16, value: bool, db: *mut rodbus_ffi::Database, ctx: *mut c_void) -> ffi::WriteResult {
    let c = unsafe { &*(ctx as *const WhCtx) };
    c.calls.lock().unwrap().push(Written::Coil(index, value));
    let a = answer(c);
    if a.success && c.apply {
        unsafe { ffi::rodbus_database_update_coil(db, index, value) };
    }
    a
}

extern "C" fn wh_single_register(index: u16, value: u16, db: *mut rodbus_ffi::Database, ctx: *mut c_void) -> ffi::WriteResult {
    let c = unsafe { &*(ctx as *const WhCtx) };
    c.calls.lock().unwrap().push(Written::Reg(index, value));
    let a = answer(c);
    if a.success && c.apply {
        unsafe { ffi::rodbus_database_update_holding_register(db, index, value) };
    }
    a
}

extern "C" fn wh_multi_coils(start: u16, it: *mut rodbus_ffi::BitValueIterator, db: *mut rodbus_ffi::Database, ctx: *mut c_void) -> ffi::WriteResult {
    let c = unsafe { &*(ctx as *const WhCtx) };
    let mut v = vec![];
    loop {
        let p = unsafe { ffi::rodbus_bit_value_iterator_next(it) };
        if p.is_null() {
            break;
        }
        let x = unsafe { &*p };
        v.push((x.index, x.value));
    }
    let a = answer(c);
    if a.success && c.apply {
        for (i, b) in &v {
            unsafe { ffi::rodbus_database_update_coil(db, *i, *b) };
        }
    }
    c.calls.lock().unwrap().push(Written::Coils(start, v));
    a
}

extern "C" fn wh_multi_regs(start: u16, it: *mut rodbus_ffi::RegisterValueIterator, db: *mut rodbus_ffi::Database, ctx: *mut c_void) -> ffi::WriteResult {
    let c = unsafe { &*(ctx as *const WhCtx) };
    let mut v = vec![];
    loop {
        let p = unsafe { ffi::rodbus_register_value_iterator_next(it) };
        if p.is_null() {
            break;
        }
        let x = unsafe { &*p };
        v.push((x.index, x.value));
    }
    let a = answer(c);
    if a.success && c.apply {
        for (i, r) in &v {
            unsafe { ffi::rodbus_database_update_holding_register(db, *i, *r) };
        }
    }
    c.calls.lock().unwrap().push(Written::Regs(start, v));
    a
}

extern "C" fn wh_on_destroy(ctx: *mut c_void) {
    let c = unsafe { &*(ctx as *const WhCtx) };
    c.destroys.fetch_add(1, Ordering::SeqCst);
}

pub fn write_handler(apply: bool) -> (Arc<WhCtx>, ffi::WriteHandler) {
    let c = Arc::new(WhCtx {
        answer: Mutex::new((true, 1, 0)),
        calls: Mutex::new(vec![]),
        destroys: AtomicU32::new(0),
        apply,
    });
    let p = keep(c.clone());
    (
        c,
        ffi::WriteHandler {
            write_single_coil: Some(wh_single_coil),
            write_single_register: Some(wh_single_register),
            write_multiple_coils: Some(wh_multi_coils),
            write_multiple_registers: Some(wh_multi_regs),
            on_destroy: Some(wh_on_destroy),
            ctx: p,
        },
    )
}

// ------------------------------------------------------------------------------------------
// authorization handler (records roles, allows everything)
// ------------------------------------------------------------------------------------------

#[derive(Default)]
pub struct AuthCtx {
    pub roles: Mutex<Vec<String>>,
    pub destroys: AtomicU32,
}

extern "C" fn auth_range(_u: u8, _r: ffi::AddressRange, role: *const c_char, ctx: *mut c_void) -> c_int {
    let c = unsafe { &*(ctx as *const AuthCtx) };
    let s = unsafe { std::ffi::CStr::from_ptr(role) }.to_string_lossy().to_string();
    c.roles.lock().unwrap().push(s);
    ffi::Authorization::Allow.into()
}

extern "C" fn auth_index(_u: u8, _i: u16, role: *const c_char, ctx: *mut c_void) -> c_int {
    let c = unsafe { &*(ctx as *const AuthCtx) };
    let s = unsafe { std::ffi::CStr::from_ptr(role) }.to_string_lossy().to_string();
    c.roles.lock().unwrap().push(s);
    ffi::Authorization::Allow.into()
}

extern "C" fn auth_on_destroy(ctx: *mut c_void) {
    let c = unsafe { &*(ctx as *const AuthCtx) };
    c.destroys.fetch_add(1, Ordering::SeqCst);
}

pub fn auth_handler() -> (Arc<AuthCtx>, ffi::AuthorizationHandler) {
    let c = Arc::new(AuthCtx::default());
    let p = keep(c.clone());
    (
        c,
        ffi::AuthorizationHandler {
            read_coils: Some(auth_range),
            read_discrete_inputs: Some(auth_range),
            read_holding_registers: Some(auth_range),
            read_input_registers: Some(auth_range),
            write_single_coil: Some(auth_index),
            write_single_register: Some(auth_index),
            write_multiple_coils: Some(auth_range),
            write_multiple_registers: Some(auth_range),
            on_destroy: Some(auth_on_destroy),
            ctx: p,
        },
    )
}

// ------------------------------------------------------------------------------------------
// logger
// ------------------------------------------------------------------------------------------

#[derive(Default)]
pub struct LogCtx {
    pub lines: Mutex<Vec<String>>,
}

extern "C" fn log_on_message(_level: c_int, message: *const c_char, ctx: *mut c_void) {
    let c = unsafe { &*(ctx as *const LogCtx) };
    let s = unsafe { std::ffi::CStr::from_ptr(message) }.to_string_lossy().to_string();
    let mut g = c.lines.lock().unwrap();
    if g.len() < 200_000 {
        g.push(s);
    }
}

extern "C" fn log_on_destroy(_ctx: *mut c_void) {}

/// install the C-ABI logger as the process-wide subscriber (can be done once)
pub fn install_logger() -> Option<Arc<LogCtx>> {
    let c = Arc::new(LogCtx::default());
    let p = keep(c.clone());
    let cfg: ffi::LoggingConfig = ffi::LoggingConfigFields {
        level: ffi::LogLevel::Info,
        output_format: ffi::LogOutputFormat::Text,
        time_format: ffi::TimeFormat::None,
        print_level: false,
        print_module_info: false,
    }
    .into();
    let rc = unsafe {
        ffi::rodbus_configure_logging(
            cfg,
            ffi::Logger {
                on_message: Some(log_on_message),
                on_destroy: Some(log_on_destroy),
                ctx: p,
            },
        )
    };
    if rc == 0 {
        Some(c)
    } else {
        None
    }
}

// ------------------------------------------------------------------------------------------
// runtime, levels, params
// ------------------------------------------------------------------------------------------

pub struct Rt(pub *mut rodbus_ffi::Runtime);
unsafe impl Send for Rt {}
unsafe impl Sync for Rt {}

pub fn runtime(threads: u16) -> Rt {
    let mut out: *mut rodbus_ffi::Runtime = std::ptr::null_mut();
    let rc = unsafe { ffi::rodbus_runtime_create(ffi::RuntimeConfig { num_core_threads: threads }, &mut out) };
    assert_eq!(rc, 0, "runtime create failed");
    Rt(out)
}

pub fn decode(app: i32, frame: i32, phys: i32) -> ffi::DecodeLevel {
    ffi::DecodeLevel { app, frame, physical: phys }
}

pub fn param(unit: u8, timeout_ms: u64) -> ffi::RequestParam {
    ffi::RequestParam { unit_id: unit, timeout: timeout_ms }
}

pub fn retry(min_ms: u64, max_ms: u64) -> ffi::RetryStrategy {
    ffi::RetryStrategy { min_delay: min_ms, max_delay: max_ms }
}

pub fn cstr(s: &str) -> std::ffi::CString {
    std::ffi::CString::new(s).unwrap()
}

/// independent name table: `request_error` values of the C header by name
pub fn request_error_name(v: i32) -> &'static str {
    match v {
        0 => "ok",
        1 => "shutdown",
        2 => "no_connection",
        3 => "response_timeout",
        4 => "bad_request",
        5 => "bad_response",
        6 => "io_error",
        7 => "bad_framing",
        8 => "internal_error",
        9 => "bad_argument",
        10 => "modbus_exception_illegal_function",
        11 => "modbus_exception_illegal_data_address",
        12 => "modbus_exception_illegal_data_value",
        13 => "modbus_exception_server_device_failure",
        14 => "modbus_exception_acknowledge",
        15 => "modbus_exception_server_device_busy",
        16 => "modbus_exception_memory_parity_error",
        17 => "modbus_exception_gateway_path_unavailable",
        18 => "modbus_exception_gateway_target_device_failed_to_respond",
        19 => "modbus_exception_unknown",
        _ => "?",
    }
}

/// the name the C API must use for a Modbus exception code
pub fn exception_name(code: u8) -> &'static str {
    match code {
        1 => "modbus_exception_illegal_function",
        2 => "modbus_exception_illegal_data_address",
        3 => "modbus_exception_illegal_data_value",
        4 => "modbus_exception_server_device_failure",
        5 => "modbus_exception_acknowledge",
        6 => "modbus_exception_server_device_busy",
        8 => "modbus_exception_memory_parity_error",
        10 => "modbus_exception_gateway_path_unavailable",
        11 => "modbus_exception_gateway_target_device_failed_to_respond",
        _ => "modbus_exception_unknown",
    }
}

pub fn client_state_name(v: i32) -> &'static str {
    match v {
        0 => "disabled",
        1 => "connecting",
        2 => "connected",
        3 => "wait_after_failed_connect",
        4 => "wait_after_disconnect",
        5 => "shutdown",
        _ => "?",
    }
}

pub fn port_state_name(v: i32) -> &'static str {
    match v {
        0 => "disabled",
        1 => "wait",
        2 => "open",
        3 => "shutdown",
        _ => "?",
    }
}
