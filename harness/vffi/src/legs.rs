//! Sanitizer legs of the FFI checks (thorough tier): Miri on the runtime-free part of the C ABI,
//! AddressSanitizer + LeakSanitizer on the socket-driven workloads.

use serde_json::json;
use std::time::Duration;
use vcommon::legs::run_leg;
use vcommon::report::*;

pub fn miri_ffi(args: &Args, prop: &str, ev: &mut Evidence) {
    let root = verif_root();
    let manifest = root.join("harness").join("Cargo.toml").display().to_string();
    let target = root.join(".build").join("miri").display().to_string();
    let seed = (args.seed % 1000).to_string();
    let r = run_leg(
        "cargo",
        &["+nightly", "miri", "run", "-q", "--manifest-path", &manifest, "-p", "vmiri", "--", "ffi", &seed],
        &[("MIRIFLAGS", "-Zmiri-disable-isolation"), ("CARGO_TARGET_DIR", &target), ("CARGO_NET_OFFLINE", "true")],
        None,
        Duration::from_secs(3000),
    );
    ev.count("miri_leg_runs", 1);
    let ub = r.output.contains("Undefined Behavior") || r.output.contains("error: memory leaked") || r.output.contains("unsupported operation");
    if r.output.contains("VMIRI-OK") && !ub && r.code == Some(0) {
        ev.count("miri_leg_clean", 1);
        ev.class("leg|miri|ffi_runtime_free_subset");
        let ops = r.output.lines().find(|l| l.starts_with("VMIRI-OK")).unwrap_or("").to_string();
        ev.sample(json!({"miri_leg": ops, "wall_s": r.wall.as_secs_f64()}));
    } else if r.output.contains("Undefined Behavior") || r.output.contains("memory leaked") || r.output.contains("VMIRI-MISMATCH") {
        let first = r.output.lines().find(|l| l.contains("Undefined Behavior") || l.contains("memory leaked") || l.contains("VMIRI-MISMATCH")).unwrap_or("").to_string();
        let site = r.output.lines().find(|l| l.contains("-->") && l.contains("rodbus")).unwrap_or("").trim().to_string();
        ev.violation(
            format!("miri:{}:{}", prop, first.split(':').nth(1).unwrap_or("report").trim().replace(' ', "_")),
            format!("Miri reported on the runtime-free C-ABI workload: {first} {site}"),
            json!({"tail": r.output.lines().rev().take(40).collect::<Vec<_>>()}),
        );
    } else {
        ev.inconclusive(format!("Miri leg did not complete (exit {:?}, {:.0}s): {}", r.code, r.wall.as_secs_f64(), r.output.lines().rev().take(3).collect::<Vec<_>>().join(" | ")));
    }
}

pub fn asan(args: &Args, which: &str, prop: &str, ev: &mut Evidence) {
    let root = verif_root();
    let manifest = root.join("harness").join("Cargo.toml").display().to_string();
    let target = root.join(".build").join("asan").display().to_string();
    let b = run_leg(
        "cargo",
        &["+nightly", "build", "-q", "--manifest-path", &manifest, "-p", "vffi", "--target", "x86_64-unknown-linux-gnu"],
        &[("RUSTFLAGS", "-Zsanitizer=address -Cforce-frame-pointers=yes"), ("CARGO_TARGET_DIR", &target), ("CARGO_NET_OFFLINE", "true")],
        None,
        Duration::from_secs(1800),
    );
    if b.code != Some(0) {
        ev.inconclusive(format!("AddressSanitizer build failed: {}", b.output.lines().rev().take(3).collect::<Vec<_>>().join(" | ")));
        return;
    }
    let exe = format!("{target}/x86_64-unknown-linux-gnu/debug/vffi");
    let scratch = root.join("out").join("asan-root");
    let _ = std::fs::create_dir_all(&scratch);
    // the workload needs the fixture PKI and the TLS peer; evidence and replays stay in the scratch root
    for d in ["fixtures", "peers", "known_findings.txt"] {
        let link = scratch.join(d);
        if std::fs::symlink_metadata(&link).is_err() {
            let _ = std::os::unix::fs::symlink(root.join(d), &link);
        }
    }
    let seed = (args.seed as i64).to_string();
    let r = run_leg(
        &exe,
        &[which, "--tier", "quick", "--seed", &seed, "--no-legs", "1"],
        &[("ASAN_OPTIONS", "halt_on_error=1:detect_leaks=1:abort_on_error=0"), ("VERIF_ROOT", &scratch.display().to_string())],
        None,
        Duration::from_secs(1800),
    );
    ev.count("asan_leg_runs", 1);
    let report = r.output.contains("ERROR: AddressSanitizer") || r.output.contains("ERROR: LeakSanitizer");
    if report {
        let first = r.output.lines().find(|l| l.contains("ERROR: AddressSanitizer") || l.contains("ERROR: LeakSanitizer")).unwrap_or("").to_string();
        let frame = r.output.lines().find(|l| l.contains("rodbus_ffi") || l.contains("rodbus::")).unwrap_or("").trim().to_string();
        let kind = first.split_whitespace().nth(2).unwrap_or("report").to_string();
        ev.violation(
            format!("asan:{prop}:{kind}"),
            format!("sanitizer report while running the {which} workload through the C ABI: {first} | first library frame: {frame}"),
            json!({"tail": r.output.lines().filter(|l| l.contains('#') || l.contains("ERROR")).take(40).collect::<Vec<_>>()}),
        );
    } else if r.code == Some(0) {
        ev.count("asan_leg_clean", 1);
        ev.class(format!("leg|asan|{which}"));
        ev.sample(json!({"asan_leg": r.output.lines().rev().find(|l| l.contains("evaluations=")).unwrap_or(""), "wall_s": r.wall.as_secs_f64()}));
    } else {
        ev.inconclusive(format!("AddressSanitizer leg ended with {:?}: {}", r.code, r.output.lines().rev().take(3).collect::<Vec<_>>().join(" | ")));
    }
}
