#!/usr/bin/env python3
"""Independent TLS peer (CPython ssl / OpenSSL) for the rodbus TLS checks.

client: connect (optionally from a given source address), handshake with pinned min/max version,
        send a Modbus request, read the reply; prints one JSON line.
server: listen on a port, print "LISTENING", accept one connection, handshake, answer one Modbus
        request genuinely; prints one JSON line.
raw:    connect without TLS, send bytes, read.
"""
import argparse, json, socket, ssl, sys, time

VERS = {"1.2": ssl.TLSVersion.TLSv1_2, "1.3": ssl.TLSVersion.TLSv1_3}

def ctx_for(args, server_side):
    ctx = ssl.SSLContext(ssl.PROTOCOL_TLS_SERVER if server_side else ssl.PROTOCOL_TLS_CLIENT)
    ctx.minimum_version = VERS[args.min]
    ctx.maximum_version = VERS[args.max]
    if args.cert:
        ctx.load_cert_chain(args.cert, args.key)
    if args.ca:
        ctx.load_verify_locations(args.ca)
    if server_side:
        ctx.verify_mode = ssl.CERT_REQUIRED if args.ca else ssl.CERT_NONE
    else:
        ctx.check_hostname = bool(args.servername)
        ctx.verify_mode = ssl.CERT_REQUIRED if args.ca else ssl.CERT_NONE
        if not args.ca:
            ctx.check_hostname = False
    return ctx

def read_some(sock, timeout):
    sock.settimeout(timeout)
    data = b""
    try:
        while True:
            chunk = sock.recv(4096)
            if not chunk:
                return data, "eof"
            data += chunk
            if len(data) >= 7 and len(data) >= 6 + int.from_bytes(data[4:6], "big"):
                return data, "frame"
    except socket.timeout:
        return data, "timeout"
    except (ssl.SSLError, OSError) as e:
        return data, "error:" + type(e).__name__ + ":" + str(e)[:120]

def client(args):
    out = {"role": "client", "handshake": "fail", "version": None, "reply_hex": "", "read_end": None, "error": None}
    try:
        src = (args.src, 0) if args.src else None
        if args.rcvbuf:
            # a fixed, small receive window: must be set before connecting
            raw = socket.socket(socket.AF_INET, socket.SOCK_STREAM)
            raw.setsockopt(socket.SOL_SOCKET, socket.SO_RCVBUF, args.rcvbuf)
            raw.settimeout(5)
            if src: raw.bind(src)
            raw.connect((args.host, args.port))
        else:
            raw = socket.create_connection((args.host, args.port), timeout=5, source_address=src)
    except OSError as e:
        out["error"] = "connect:" + str(e)
        print(json.dumps(out)); return
    try:
        ctx = ctx_for(args, False)
        s = ctx.wrap_socket(raw, server_hostname=args.servername or None)
        out["handshake"] = "ok"          # from this side's point of view
        out["version"] = s.version()
        if args.flood:
            flood(s, args, out)
            print(json.dumps(out)); return
        if args.send:
            try:
                send_chunked(s, bytes.fromhex(args.send), args)
            except (ssl.SSLError, OSError) as e:
                # the peer closed while we were still sending (it may do so after a malformed header):
                # what it sent before is still readable
                out["send_error"] = type(e).__name__ + ":" + str(e)[:120]
        if args.read_all:
            data, end = read_all(s, args.wait, args.expect_bytes)
        else:
            data, end = read_some(s, args.wait)
        out["reply_hex"] = data.hex(); out["read_end"] = end
        try: s.close()
        except Exception: pass
    except (ssl.SSLError, OSError) as e:
        out["error"] = type(e).__name__ + ":" + str(e)[:160]
    print(json.dumps(out))

REQ = bytes([0, 7, 0, 0, 0, 6, 1, 3, 0, 0, 0, 1])

def one_request(ctx, args, session=None):
    """connect, handshake (offering `session` if given), one read request; -> (result, socket info)"""
    r = {"handshake": "fail", "served": False, "reused": None, "version": None, "error": None}
    try:
        raw = socket.create_connection((args.host, args.port), timeout=5)
        s = ctx.wrap_socket(raw, server_hostname=args.servername or None, session=session)
        r["handshake"] = "ok"; r["reused"] = s.session_reused; r["version"] = s.version()
        s.sendall(REQ)
        data, end = read_some(s, args.wait)
        r["served"] = (end == "frame" and len(data) >= 9 and data[7] == 3)
        r["read_end"] = end
        return r, s
    except (ssl.SSLError, OSError) as e:
        r["error"] = type(e).__name__ + ":" + str(e)[:120]
        return r, None

def resume_after_expiry(args):
    """C09 resumption scenario, client side: (1) full handshake with a certificate that is still valid,
    one request; keep the session. (2) wait until the certificate has expired. (3) control: a full
    handshake with the same certificate must now be refused. (4) offer the kept session."""
    out = {"role": "client", "scenario": "resume_after_expiry"}
    ctx = ctx_for(args, False)
    first, s = one_request(ctx, args)
    out["first"] = first
    sess = s.session if s else None
    if s:
        try: s.close()
        except Exception: pass
    time.sleep(max(0.0, args.expires_at + 2.0 - time.time()))
    control, s2 = one_request(ctx_for(args, False), args)      # fresh context: nothing to resume
    out["full_after_expiry"] = control
    if s2:
        try: s2.close()
        except Exception: pass
    if sess is not None:
        resumed, s3 = one_request(ctx, args, session=sess)
        out["resumed"] = resumed
        if s3:
            try: s3.close()
            except Exception: pass
    print(json.dumps(out))

def flood(s, args, out):
    """a peer that pipelines `flood` requests (read 125 holding registers, transaction id k), reads
    nothing until `read_delay` seconds after the last one was sent, then reads until `wait` seconds
    of silence. Reports how many complete replies arrived and whether they came in order."""
    n = args.flood
    blob = b"".join(k.to_bytes(2, "big") + bytes([0, 0, 0, 6, 1, 3, 0, 0, 0, 125]) for k in range(n))
    s.settimeout(60)
    s.sendall(blob)
    time.sleep(args.read_delay)
    s.settimeout(args.wait)
    frames = 0; order_ok = True; buf = b""; end = None; total = 0; recvs = 0; stalls = 0
    try:
        while frames < n:
            try:
                chunk = s.recv(16384)
            except socket.timeout:
                # silence: a loaded machine or a lost tail? wait once more, much longer, before deciding
                stalls += 1
                s.settimeout(15)
                chunk = s.recv(16384)
                s.settimeout(args.wait)
            if not chunk:
                end = "eof"; break
            total += len(chunk); buf += chunk
            recvs += 1
            if args.read_throttle_ms > 0 and recvs % 16 == 0:
                time.sleep(args.read_throttle_ms / 1000.0)   # a slow reader: the sender stays blocked
            while len(buf) >= 7:
                ln = 6 + int.from_bytes(buf[4:6], "big")
                if len(buf) < ln: break
                if int.from_bytes(buf[0:2], "big") != (frames & 0xFFFF) or ln != 259:
                    order_ok = False
                frames += 1; buf = buf[ln:]
        if end is None: end = "all"
    except socket.timeout:
        end = "timeout"
    except (ssl.SSLError, OSError) as e:
        end = "error:" + type(e).__name__ + ":" + str(e)[:120]
    out["flood"] = {"sent": n, "replies": frames, "in_order": order_ok, "bytes": total, "read_end": end, "partial_tail": len(buf), "stalls": stalls}
    try: s.close()
    except Exception: pass

def send_chunked(s, data, args):
    """every sendall() is at least one TLS record; the gap makes the peer see separate reads"""
    sizes = [int(x) for x in args.chunks.split(",")] if args.chunks else []
    if not sizes:
        s.sendall(data); return
    i = k = 0
    while i < len(data):
        n = max(1, sizes[k % len(sizes)]); k += 1
        s.sendall(data[i:i + n]); i += n
        if args.gap_ms > 0:
            time.sleep(args.gap_ms / 1000.0)

def read_all(sock, idle, expect):
    """read until EOF, `idle` seconds of silence, or `expect` bytes"""
    sock.settimeout(idle)
    data = b""
    try:
        while True:
            if expect and len(data) >= expect:
                return data, "expected"
            chunk = sock.recv(4096)
            if not chunk:
                return data, "eof"
            data += chunk
    except socket.timeout:
        return data, "timeout"
    except (ssl.SSLError, OSError) as e:
        return data, "error:" + type(e).__name__ + ":" + str(e)[:120]

def raw(args):
    out = {"role": "raw", "reply_hex": "", "read_end": None, "error": None}
    try:
        src = (args.src, 0) if args.src else None
        s = socket.create_connection((args.host, args.port), timeout=5, source_address=src)
        if args.send:
            s.sendall(bytes.fromhex(args.send))
        data, end = read_some(s, args.wait)
        out["reply_hex"] = data.hex(); out["read_end"] = end
        s.close()
    except OSError as e:
        out["error"] = "connect:" + str(e)
    print(json.dumps(out))

def modbus_reply(req):
    # answer reads of holding registers with 0x1234 values, echo writes
    if len(req) < 8: return b""
    tx, unit, fc = req[0:2], req[6], req[7]
    if fc == 3 and len(req) >= 12:
        n = int.from_bytes(req[10:12], "big")
        pdu = bytes([3, 2 * n]) + b"\x12\x34" * n
    elif fc in (5, 6, 15, 16) and len(req) >= 12:
        pdu = req[7:12]
    else:
        pdu = bytes([fc | 0x80, 1])
    return tx + b"\x00\x00" + (len(pdu) + 1).to_bytes(2, "big") + bytes([unit]) + pdu

def server(args):
    out = {"role": "server", "handshake": "fail", "version": None, "request_hex": "", "error": None, "accepted": False}
    ls = socket.socket(socket.AF_INET, socket.SOCK_STREAM)
    ls.setsockopt(socket.SOL_SOCKET, socket.SO_REUSEADDR, 1)
    ls.bind(("127.0.0.1", args.port)); ls.listen(4)
    print("LISTENING %d" % ls.getsockname()[1], flush=True)
    ls.settimeout(args.accept_wait)
    try:
        conn, _ = ls.accept()
        out["accepted"] = True
    except socket.timeout:
        out["error"] = "no connection"
        print(json.dumps(out)); return
    try:
        ctx = ctx_for(args, True)
        conn.settimeout(5)
        s = ctx.wrap_socket(conn, server_side=True)
        out["handshake"] = "ok"; out["version"] = s.version()
        data, end = read_some(s, args.wait)
        out["request_hex"] = data.hex(); out["read_end"] = end
        served = 0
        while end == "frame":
            send_chunked(s, modbus_reply(data), args)
            served += 1
            # keep the connection until the peer is done
            data, end = read_some(s, args.wait)
            if served >= args.serve:
                break
        out["served"] = served
        try: s.close()
        except Exception: pass
    except (ssl.SSLError, OSError) as e:
        out["error"] = type(e).__name__ + ":" + str(e)[:160]
    print(json.dumps(out))

def server_multi(args):
    """accept `--connections` connections one after the other on one SSLContext (so that sessions can be
    resumed); answer every request genuinely until the peer closes or `--hold` seconds have passed, then
    close. One JSON line with a list of per-connection records."""
    out = {"role": "server", "connections": []}
    ls = socket.socket(socket.AF_INET, socket.SOCK_STREAM)
    ls.setsockopt(socket.SOL_SOCKET, socket.SO_REUSEADDR, 1)
    ls.bind(("127.0.0.1", args.port)); ls.listen(8)
    print("LISTENING %d" % ls.getsockname()[1], flush=True)
    ctx = ctx_for(args, True)
    for k in range(args.connections):
        rec = {"accepted": False, "handshake": "fail", "reused": None, "served": 0, "error": None, "version": None}
        ls.settimeout(args.accept_wait)
        try:
            conn, _ = ls.accept()
            rec["accepted"] = True
        except socket.timeout:
            rec["error"] = "no connection"; out["connections"].append(rec); break
        try:
            conn.settimeout(5)
            s = ctx.wrap_socket(conn, server_side=True)
            rec["handshake"] = "ok"; rec["reused"] = s.session_reused; rec["version"] = s.version()
            t0 = time.time()
            hold = args.hold if k == 0 else 1.5
            while time.time() - t0 < hold:
                data, end = read_some(s, 0.25)
                if end == "frame":
                    s.sendall(modbus_reply(data)); rec["served"] += 1
                elif end != "timeout":
                    break
            try: s.close()
            except Exception: pass
        except (ssl.SSLError, OSError) as e:
            rec["error"] = type(e).__name__ + ":" + str(e)[:160]
        out["connections"].append(rec)
    print(json.dumps(out))

def main():
    p = argparse.ArgumentParser()
    p.add_argument("mode", choices=["client", "server", "raw"])
    p.add_argument("--host", default="127.0.0.1"); p.add_argument("--port", type=int, default=0)
    p.add_argument("--src"); p.add_argument("--ca"); p.add_argument("--cert"); p.add_argument("--key")
    p.add_argument("--min", default="1.2"); p.add_argument("--max", default="1.3")
    p.add_argument("--servername"); p.add_argument("--send"); p.add_argument("--wait", type=float, default=2.0)
    p.add_argument("--accept-wait", type=float, default=10.0)
    p.add_argument("--chunks", default=""); p.add_argument("--gap-ms", type=float, default=2.0)
    p.add_argument("--read-all", action="store_true"); p.add_argument("--expect-bytes", type=int, default=0)
    p.add_argument("--serve", type=int, default=1)
    p.add_argument("--flood", type=int, default=0); p.add_argument("--rcvbuf", type=int, default=0)
    p.add_argument("--read-delay", type=float, default=1.0); p.add_argument("--read-throttle-ms", type=float, default=0.0)
    p.add_argument("--expires-at", type=float, default=0.0); p.add_argument("--connections", type=int, default=0)
    p.add_argument("--hold", type=float, default=1.5)
    a = p.parse_args()
    if a.mode == "client" and a.expires_at > 0:
        return resume_after_expiry(a)
    if a.mode == "server" and a.connections > 0:
        return server_multi(a)
    {"client": client, "server": server, "raw": raw}[a.mode](a)

if __name__ == "__main__":
    main()
