#!/usr/bin/env bash
# Build the verification harness offline from files on disk only.
set -eu
ROOT="$(cd "$(dirname "${BASH_SOURCE[0]}")" && pwd)"
export CARGO_NET_OFFLINE=true
mkdir -p "$ROOT/.build" "$ROOT/out" "$ROOT/evidence"
cd "$ROOT/harness"
cargo build --offline --workspace 2>&1 | tail -n 5
