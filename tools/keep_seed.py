#!/usr/bin/env python3
"""keep_seed.py <outdir> <N> <name> <mode> <filter> <detected-by...>  -> /verif/seeded/<name>/"""
import json, os, shutil, sys
out, n, name, mode, flt = sys.argv[1:6]
detected = sys.argv[6:]
d = f"/verif/seeded/{name}"
os.makedirs(d, exist_ok=True)
shutil.copy(f"{out}/patch{n}.diff", f"{d}/patch.diff")
demo = f"{out}/demo{n}.rs"
if os.path.exists(demo):
    shutil.copy(demo, f"{d}/demo.rs")
meta = {}
try:
    meta = json.load(open(f"{out}/meta{n}.json"))
except Exception as e:
    meta = {"note": f"agent meta unreadable: {e}"}
install = {
 "task_tests": "insert demo.rs before the final '}' of `mod tests` in rodbus/src/client/task.rs; run `cargo test -p rodbus --lib --offline %s`" % flt,
 "frame_tests": "insert demo.rs before the final '}' of `mod tests` in rodbus/src/serial/frame.rs; run `cargo test -p rodbus --lib --offline %s`" % flt,
 "append_task": "append demo.rs to rodbus/src/client/task.rs; run `cargo test -p rodbus --lib --offline %s`" % flt,
 "rodbus_tests": "copy demo.rs to rodbus/tests/%s.rs; run `cargo test -p rodbus --offline --features verif-hooks --test %s`" % (flt, flt),
 "lib_mod": "copy demo.rs to rodbus/src/%s.rs and append `#[cfg(test)] mod %s;` to rodbus/src/lib.rs; run `cargo test -p rodbus --lib --offline %s`" % (flt, flt, flt),
 "ffi_append": "append demo.rs to ffi/rodbus-ffi/src/lib.rs; run `cargo test -p rodbus-ffi --offline %s`" % flt,
 "ffi_tests": "copy demo.rs to ffi/rodbus-ffi/tests/%s.rs; run `cargo test -p rodbus-ffi --offline --test %s`" % (flt, flt),
}.get(mode, mode)
keep = {
  "property": meta.get("property", name.split("-")[0]),
  "summary": meta.get("summary"),
  "needs_to_manifest": meta.get("needs"),
  "files_changed": meta.get("files_changed"),
  "demonstration": install,
  "confirmed_by_me": {
     "how": "tools/verify_seed.sh in a scratch worktree of /repo HEAD (outside /repo and /verif)",
     "suite_with_change": "cargo test --workspace --offline: pass",
     "demo_with_change": "fails",
     "demo_without_change": "passes",
  },
  "checks_that_detect_it": detected,
  "agent_meta": meta,
}
json.dump(keep, open(f"{d}/meta.json", "w"), indent=1)
print("kept", d)
