#!/usr/bin/env bash
# tools/verify_seed.sh <worktree> <outdir> <N> <mode> <filter> [features]
# Confirms, in a scratch worktree, that a seeded change (a) passes the existing suite, (b) makes its
# demonstration fail, and that (c) the demonstration passes without the change.
set -u
WT="$1"; OUT="$2"; N="$3"; MODE="$4"; FILTER="$5"; FEAT="${6:-}"
export CARGO_TARGET_DIR="$WT/target" CARGO_NET_OFFLINE=true
cd "$WT" || exit 3
git checkout -q -- . ; git clean -fdq -- rodbus integration ffi >/dev/null 2>&1
install_demo() {
  case "$MODE" in
    task_tests)  F=rodbus/src/client/task.rs; sed -i '$ d' "$F" && cat "$OUT/demo$N.rs" >> "$F" && echo '}' >> "$F" ;;
    frame_tests) F=rodbus/src/serial/frame.rs; sed -i '$ d' "$F" && cat "$OUT/demo$N.rs" >> "$F" && echo '}' >> "$F" ;;
    ffi_tests) mkdir -p ffi/rodbus-ffi/tests && cp "$OUT/demo$N.rs" "ffi/rodbus-ffi/tests/$FILTER.rs" ;;
    ffi_append) cat "$OUT/demo$N.rs" >> ffi/rodbus-ffi/src/lib.rs ;;
    append_task) cat "$OUT/demo$N.rs" >> rodbus/src/client/task.rs ;;
    rodbus_tests) mkdir -p rodbus/tests && cp "$OUT/demo$N.rs" "rodbus/tests/$FILTER.rs" ;;
    lib_mod) cp "$OUT/demo$N.rs" "rodbus/src/${FILTER}.rs" && echo "#[cfg(test)] mod ${FILTER};" >> rodbus/src/lib.rs ;;
  esac
}
run_demo() {
  case "$MODE" in
    rodbus_tests) cargo test -q -p rodbus --offline ${FEAT:+--features $FEAT} --test "$FILTER" 2>&1 | tail -5 ;;
    ffi_tests) cargo test -q -p rodbus-ffi --offline --test "$FILTER" 2>&1 | tail -5 ;;
    ffi_append) cargo test -q -p rodbus-ffi --offline "$FILTER" 2>&1 | tail -5 ;;
    *) cargo test -q -p rodbus --lib --offline "$FILTER" 2>&1 | tail -5 ;;
  esac
}
res=""
# (a) suite with the change
git apply "$OUT/patch$N.diff" || { echo "SEED $OUT#$N: patch does not apply"; exit 3; }
if cargo test -q --workspace --offline >"$OUT/verify-suite$N.log" 2>&1; then res="suite_with_change=pass"; else res="suite_with_change=FAIL"; fi
# (b) demo with the change
install_demo
if run_demo > "$OUT/verify-demo-with$N.log" 2>&1 && ! grep -q "FAILED\|error\[" "$OUT/verify-demo-with$N.log"; then res="$res demo_with_change=PASS(unexpected)"; else res="$res demo_with_change=fail"; fi
git checkout -q -- . ; git clean -fdq -- rodbus integration ffi >/dev/null 2>&1
# (c) demo without the change
install_demo
if run_demo > "$OUT/verify-demo-without$N.log" 2>&1 && ! grep -q "FAILED\|error\[" "$OUT/verify-demo-without$N.log"; then res="$res demo_without_change=pass"; else res="$res demo_without_change=FAIL"; fi
git checkout -q -- . ; git clean -fdq -- rodbus integration ffi >/dev/null 2>&1
echo "SEED $(basename $OUT)#$N: $res"
